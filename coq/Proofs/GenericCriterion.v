(* C02 for generic_with (what `linkage` runs for centroid and median): every
   recorded height is the criterion of the two clusters merged.  Generic in a
   symmetric relation `crit` satisfying the one-merge law of the update
   formula, under the hypotheses of GenericInv.generic_total_wf. *)
Require Import KV.Model.Prelude KV.Model.Condensed KV.Model.Active KV.Model.Heap
  KV.Model.UnionFind KV.Model.Dendrogram KV.Model.Methods KV.Model.State KV.Model.Generic
  KV.Proofs.ResetCanon KV.Proofs.ActiveRefine KV.Proofs.CondensedIdx KV.Proofs.SortProofs KV.Proofs.Monotone
  KV.Proofs.MstCost KV.Proofs.Shape KV.Proofs.PrimitiveGreedy KV.Proofs.Forest KV.Proofs.UnionFindInv
  KV.Proofs.RelabelWF KV.Proofs.PrimitiveWF KV.Proofs.PrimitiveTotal KV.Proofs.UpdateSpec KV.Proofs.ShapeCheck
  KV.Proofs.LWInvariant KV.Proofs.ChainInv KV.Proofs.ChainIter KV.Proofs.ChainCriterion KV.Proofs.HeapInv KV.Proofs.GenericInv.
From Coq Require Import Permutation.

Set Implicit Arguments.

Section GenericCriterion.
Variable T : Type.
Variable K : kops T.
Variable p : profile.
Variable meth : method.
Hypothesis ltb_irrefl : forall a, k_ltb K a a = false.
Hypothesis ltb_trans : forall a b c, k_ltb K a b = true -> k_ltb K b c = true -> k_ltb K a c = true.
Hypothesis ltb_negtrans : forall a b c, k_ltb K a b = false -> k_ltb K b c = false -> k_ltb K a c = false.
Hypothesis eqb_refl : forall a, k_eqb K a a = true.
Hypothesis upd_below_max : forall va vb md sa sb sx,
  k_ltb K va (k_inf K) = true -> k_ltb K vb (k_inf K) = true -> k_ltb K md (k_inf K) = true ->
  k_ltb K (k_upd K va vb md sa sb sx) (k_inf K) = true.

Variable crit : mtree -> mtree -> T -> Prop.
Hypothesis crit_sym : forall A B v, crit A B v -> crit B A v.
Hypothesis crit_merge : forall X A B va vb md,
  crit X A va -> crit X B vb -> crit A B md ->
  crit X (Node A B) (k_upd K va vb md (tsize A) (tsize B) (if uses_size_x meth then tsize X else 0)).
Hypothesis sizes_irrelevant : uses_sizes_ab meth = false ->
  forall va vb md sa sb sa' sb' sx, k_upd K va vb md sa sb sx = k_upd K va vb md sa' sb' sx.

Lemma gen_fold_criterion n0 : forall (k : nat) i s d M L mem,
  GInv K n0 s d M L -> LWInv crit s M L mem -> S k <= length L ->
  exists s' d' M' news tr L' mem',
    mfold (gen_iter K p meth) (seq i k) (s, d, M) = Ok (s', d', M')
    /\ d_steps d' = d_steps d ++ news /\ length news = k
    /\ mtrace L mem tr L' mem'
    /\ Forall2 (fun st (ab : mtree * mtree) => crit (fst ab) (snd ab) (s_dis st)) news tr.
Proof.
  induction k as [|k IH]; intros i s d M L mem HI HW Hk.
  - exists s, d, M, [], [], L, mem. split; [reflexivity|]. rewrite app_nil_r. split; [reflexivity|]. split; [reflexivity|].
    split; constructor.
  - cbn [seq mfold].
    destruct (@gen_iter_step_ext T K p meth ltb_irrefl ltb_trans ltb_negtrans eqb_refl upd_below_max n0 s d M L i HI ltac:(lia))
      as (s1 & d1 & M1 & a & b & v & sz & Hstep & Ha & Hb & Hab & Hsteps & HI1 & Hmf).
    rewrite Hstep. cbn [bind].
    destruct (@lw_step T K meth crit crit_sym crit_merge sizes_irrelevant s s1 M M1 L mem a b v HW Hmf Ha Hb Hab) as [Hc HW1].
    pose proof HI as (_ & _ & _ & _ & Hnd & _).
    pose proof (without_length a Hnd Ha) as Hwl.
    destruct (IH (S i) s1 d1 M1 (without a L) (upd_mem mem a b) HI1 HW1 ltac:(lia))
      as (s' & d' & M' & news & tr & L' & mem' & Hf & Hs' & Hln & Htr & HF).
    exists s', d', M', (step_new a b v sz :: news), ((mem a, mem b) :: tr), L', mem'.
    split; [exact Hf|]. split; [rewrite Hs', Hsteps, <- app_assoc; reflexivity|].
    split; [cbn [length]; rewrite Hln; reflexivity|]. split; [apply mt_cons; assumption|].
    constructor; [|exact HF]. unfold step_new. destruct (b <? a); exact Hc.
Qed.

Theorem generic_criterion s d m n s' d' m' M0 :
  Forall (fun v => k_ltb K v (k_inf K) = true) (square_all K m) ->
  generic_with K p meth s d m n = Ok (s', d', m') ->
  prologue p (square_all K m) n = Ok M0 ->
  (forall x y v, x <> y -> x < m_obs M0 -> y < m_obs M0 -> wcell M0 x y = Some v -> crit (Leaf x) (Leaf y) v) ->
  exists raw tr L' mem',
    mtrace (seq 0 (m_obs M0)) Leaf tr L' mem'
    /\ Forall2 (fun st (ab : mtree * mtree) => crit (fst ab) (snd ab) (s_dis st)) raw tr
    /\ length raw = m_obs M0 - 1
    /\ Permutation (heights d') (map (k_rt K) (map (@s_dis T) raw)).
Proof.
  intros Hall H HM0 Hleaf. unfold generic_with in H. rewrite HM0 in H. cbn [bind] in H.
  destruct (Nat.eqb_spec (m_obs M0) 0) as [Hz|Hz].
  - inversion H; subst. exists [], [], (seq 0 (m_obs M0)), Leaf.
    split; [constructor|]. split; [constructor|]. split; [rewrite Hz; reflexivity|].
    unfold heights. cbn [d_reset d_steps map]. constructor.
  - destruct (prologue_wf _ _ _ HM0) as [Hwf Hdata].
    set (n0 := m_obs M0) in *.
    assert (EM : M0 = {| m_data := square_all K m; m_obs := n0 |}) by (destruct M0; cbn in *; subst; reflexivity).
    destruct (@generic_init T K p ltb_irrefl ltb_trans s d m n0 Hz
                ltac:(unfold wf_mat in Hwf; rewrite <- Hdata; exact Hwf) Hall) as (s1 & Hinit & HG0).
    cbn zeta in Hinit, HG0. rewrite <- EM in Hinit, HG0.
    destruct (mfold (init_row K p M0) (seq 0 (n0 - 1))
                (h_prio (h_heapify_pre (k_inf K) (st_queue (st_reset K s n0))), st_nearest (st_reset K s n0)))
      as [[dists nearest]| |]; cbn [bind] in Hinit, H; try discriminate.
    destruct (h_heapify_post (k_ltb K) (h_heapify_pre (k_inf K) (st_queue (st_reset K s n0))) dists) as [q1| |];
      cbn [bind] in Hinit, H; try discriminate.
    inversion Hinit as [Es1]. rewrite Es1 in H.
    assert (HW0 : LWInv crit s1 M0 (seq 0 n0) Leaf).
    { split.
      - intros x y Hx Hy Hxy. apply in_seq in Hx. apply in_seq in Hy.
        destruct (@wcell_some T p M0 x y Hwf Hxy ltac:(lia) ltac:(lia)) as (v & Hv).
        exists v. split; [exact Hv|]. apply Hleaf; [exact Hxy|lia|lia|exact Hv].
      - intros x Hx. apply in_seq in Hx. rewrite <- Es1.
        cbn [st_with_nearest st_with_queue st_reset st_sizes tsize]. unfold clear_resize, vresize.
        rewrite firstn_nil. cbn [length app]. rewrite Nat.sub_0_r. apply nth_error_repeat. lia. }
    destruct (@gen_fold_criterion n0 (n0 - 1) 0 _ _ _ _ _ HG0 HW0 ltac:(rewrite seq_length; lia))
      as (s2 & d1 & M1 & news & tr & L' & mem' & Hfold & Hs & Hln & Htr & HF).
    rewrite Hfold in H. cbn [bind] in H.
    bind_inv H. destruct a as [u d2]. inversion H; subst s' d' m'. clear H.
    cbn [d_reset d_steps app] in Hs.
    exists news, tr, L', mem'. split; [exact Htr|]. split; [exact HF|]. split; [exact Hln|].
    assert (Hh1 : heights d1 = map (@s_dis T) news) by (unfold heights; rewrite Hs; reflexivity).
    rewrite heights_sqrt_all.
    destruct (requires_sorting meth) eqn:Hsort.
    + destruct (@relabel_heights T (k_ltb K) (k_eqb K) _ _ _ _ _ E) as [_ (l & Hl0 & Hh)].
      destruct (@sort_steps_ok T (k_ltb K) (k_eqb K) (@gt_flip T K) _ _ Hl0) as [_ Hperm].
      rewrite Hh, <- Hh1. apply Permutation_map. unfold heights.
      apply Permutation_map. apply Permutation_sym. exact Hperm.
    + pose proof (proj2 (@relabel_heights T (k_ltb K) (k_eqb K) _ _ _ _ _ E)) as Hh. cbn beta iota in Hh.
      rewrite Hh, Hh1. apply Permutation_refl.
Qed.

End GenericCriterion.
