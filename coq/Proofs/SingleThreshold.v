(* C04 beyond mst: for ANY run that merges (weak) reciprocal nearest neighbours
   under the single-linkage criterion - primitive and generic (global minima),
   nnchain (chain tips) - the classes joined by the raw steps of weight <= t are
   exactly the connected components of the threshold graph at t, for every t,
   under any pattern of ties.

   Invariants along the trace: the height of a cluster bounds all distances
   from it to other live clusters (so heights increase towards the root), every
   leaf of a cluster of height <= t is linked to the cluster's slot at t, and
   two leaves of one cluster at distance <= t are linked at t. *)
Require Import KV.Model.Prelude KV.Model.Dendrogram KV.Proofs.ActiveRefine KV.Proofs.CondensedIdx KV.Proofs.PrimitiveGreedy KV.Proofs.PrimitiveWF KV.Proofs.LWInvariant
  KV.Proofs.PrimThreshold KV.Proofs.CriteriaRun.
From Coq Require Import Relations.

Set Implicit Arguments.

Section SL.
Variable T : Type.
Variable ltb : T -> T -> bool.
Hypothesis ltb_irrefl : forall a, ltb a a = false.
Hypothesis ltb_negtrans : forall a b c, ltb a b = false -> ltb b c = false -> ltb a c = false.
Variable d0 : nat -> nat -> T.
Hypothesis d0_sym : forall x y, d0 x y = d0 y x.

Notation le := (le_t ltb).
Notation minover := (is_min_over ltb d0).

(* weak reciprocal-nearest-neighbour merges under the single-linkage criterion *)
Inductive sltrace : list nat -> (nat -> mtree) -> list (step T) -> Prop :=
| sl_nil L mem : sltrace L mem []
| sl_cons L mem a b v sz rest : In a L -> In b L -> a < b ->
    minover (mem a) (mem b) v ->
    (forall x, In x L -> x <> a -> x <> b -> forall x' y',
       In x' (leaves (mem a)) \/ In x' (leaves (mem b)) -> In y' (leaves (mem x)) -> ltb (d0 x' y') v = false) ->
    sltrace (without a L) (upd_mem mem a b) rest ->
    sltrace L mem (step_new a b v sz :: rest).

Lemma link_incl t (l l' : list (step T)) : (forall st, In st l -> In st l') ->
  forall x y, link ltb t l x y -> link ltb t l' x y.
Proof.
  intros Hi x y H. induction H as [a b (st & Hin & Hle & Hab)| | |].
  - apply rst_step. exists st. split; [apply Hi; exact Hin|]. split; assumption.
  - apply rst_refl.
  - apply rst_sym. assumption.
  - eapply rst_trans; eassumption.
Qed.

Variable V : list nat.

Definition hle (h : option T) (t : T) : Prop := forall hv, h = Some hv -> le hv t.

Record Inv (L : list nat) (mem : nat -> mtree) (hh : nat -> option T) (pre : list (step T)) : Prop := {
  i_self : forall x, In x L -> In x (leaves (mem x));
  i_inV : forall x l, In x L -> In l (leaves (mem x)) -> In l V;
  i_cover : forall l, In l V -> exists z, In z L /\ In l (leaves (mem z));
  i_mono : forall x y h, In x L -> In y L -> x <> y -> hh x = Some h ->
             forall x' y', In x' (leaves (mem x)) -> In y' (leaves (mem y)) -> ltb (d0 x' y') h = false;
  i_link : forall x t, In x L -> hle (hh x) t -> forall l, In l (leaves (mem x)) -> link ltb t pre l x;
  i_close : forall z x y t, In z L -> In x (leaves (mem z)) -> In y (leaves (mem z)) -> le (d0 x y) t -> link ltb t pre x y;
  i_conn : forall z t, In z L -> hle (hh z) t -> forall x y, In x (leaves (mem z)) -> In y (leaves (mem z)) -> conn ltb d0 V t x y;
  i_steps : forall st t, In st pre -> le (s_dis st) t -> conn ltb d0 V t (s_c1 st) (s_c2 st)
}.

Definition hset (hh : nat -> option T) (b : nat) (v : T) : nat -> option T := fun x => if x =? b then Some v else hh x.

Lemma inv_step L mem hh pre a b v sz : NoDup L -> Inv L mem hh pre ->
  In a L -> In b L -> a < b -> minover (mem a) (mem b) v ->
  (forall x, In x L -> x <> a -> x <> b -> forall x' y',
     In x' (leaves (mem a)) \/ In x' (leaves (mem b)) -> In y' (leaves (mem x)) -> ltb (d0 x' y') v = false) ->
  Inv (without a L) (upd_mem mem a b) (hset hh b v) (pre ++ [step_new a b v sz]).
Proof.
  intros Hnd HI Ha Hb Hab [(xm & ym & Hxm & Hym & Ev) Hlow] Hfar.
  pose proof (i_self HI) as Gself. pose proof (i_inV HI) as GinV. pose proof (i_cover HI) as Gcover.
  pose proof (i_mono HI) as Gmono. pose proof (i_link HI) as Glink. pose proof (i_close HI) as Gclose.
  pose proof (i_conn HI) as Gconn. pose proof (i_steps HI) as Gsteps.
  (* the heights of the two parts are at most v *)
  assert (HhA : hle (hh a) v).
  { intros h Eh. unfold le_t. rewrite Ev. exact (Gmono a b h Ha Hb ltac:(lia) Eh xm ym Hxm Hym). }
  assert (HhB : hle (hh b) v).
  { intros h Eh. unfold le_t. rewrite Ev, d0_sym. exact (Gmono b a h Hb Ha ltac:(lia) Eh ym xm Hym Hxm). }
  assert (Hle_tr : forall h t, hle h v -> le v t -> hle h t).
  { intros h t H1 H2 hv E. exact (le_t_trans ltb_negtrans (H1 hv E) H2). }
  assert (Hmem_b : upd_mem mem a b b = Node (mem a) (mem b)) by (unfold upd_mem; rewrite Nat.eqb_refl; reflexivity).
  assert (Hmem_o : forall x, x <> b -> upd_mem mem a b x = mem x) by (intros x Hx; unfold upd_mem; destruct (Nat.eqb_spec x b); [contradiction|reflexivity]).
  assert (Hh_b : hset hh b v b = Some v) by (unfold hset; rewrite Nat.eqb_refl; reflexivity).
  assert (Hh_o : forall x, x <> b -> hset hh b v x = hh x) by (intros x Hx; unfold hset; destruct (Nat.eqb_spec x b); [contradiction|reflexivity]).
  set (pre' := pre ++ [step_new a b v sz]).
  assert (Hmono_pre : forall t x y, link ltb t pre x y -> link ltb t pre' x y).
  { intros t x y. apply link_incl. intros st Hst. apply in_or_app. left. exact Hst. }
  assert (Hnew : forall t, le v t -> link ltb t pre' a b).
  { intros t Hvt. apply rst_step. exists (step_new a b v sz). split; [apply in_or_app; right; left; reflexivity|].
    unfold step_new. destruct (Nat.ltb_spec b a); [lia|]. cbn [s_c1 s_c2 s_dis]. split; [exact Hvt|left; split; reflexivity]. }
  (* every leaf of the new cluster is linked to its slot at any t >= v *)
  assert (Jb : forall t, le v t -> forall l, In l (leaves (mem a)) \/ In l (leaves (mem b)) -> link ltb t pre' l b).
  { intros t Hvt l [Hl|Hl].
    - eapply rst_trans; [apply Hmono_pre; exact (Glink a t Ha (Hle_tr _ _ HhA Hvt) l Hl)|exact (Hnew t Hvt)].
    - apply Hmono_pre. exact (Glink b t Hb (Hle_tr _ _ HhB Hvt) l Hl). }
  assert (Sb : forall t, le v t -> forall x y,
             In x (leaves (mem a)) \/ In x (leaves (mem b)) -> In y (leaves (mem a)) \/ In y (leaves (mem b)) ->
             conn ltb d0 V t x y).
  { intros t Hvt.
    assert (Hedge : conn ltb d0 V t xm ym).
    { apply rst_step. split; [exact (GinV a xm Ha Hxm)|]. split; [exact (GinV b ym Hb Hym)|]. rewrite <- Ev. exact Hvt. }
    assert (HA : forall x y, In x (leaves (mem a)) -> In y (leaves (mem a)) -> conn ltb d0 V t x y)
      by (intros x y; exact (Gconn a t Ha (Hle_tr _ _ HhA Hvt) x y)).
    assert (HB : forall x y, In x (leaves (mem b)) -> In y (leaves (mem b)) -> conn ltb d0 V t x y)
      by (intros x y; exact (Gconn b t Hb (Hle_tr _ _ HhB Hvt) x y)).
    intros x y [Hx|Hx] [Hy|Hy].
    - exact (HA x y Hx Hy).
    - eapply rst_trans; [exact (HA x xm Hx Hxm)|]. eapply rst_trans; [exact Hedge|exact (HB ym y Hym Hy)].
    - apply rst_sym. eapply rst_trans; [exact (HA y xm Hy Hxm)|]. eapply rst_trans; [exact Hedge|exact (HB ym x Hym Hx)].
    - exact (HB x y Hx Hy). }
  constructor.
  - intros x Hx. apply without_In in Hx. destruct Hx as [Hx Hxa].
    destruct (Nat.eq_dec x b) as [->|Hxb]; [rewrite Hmem_b; cbn [leaves]; apply in_or_app; right; exact (Gself b Hb)|].
    rewrite (Hmem_o x Hxb). exact (Gself x Hx).
  - intros x l Hx Hl. apply without_In in Hx. destruct Hx as [Hx Hxa].
    destruct (Nat.eq_dec x b) as [->|Hxb].
    + rewrite Hmem_b in Hl. cbn [leaves] in Hl. apply in_app_or in Hl. destruct Hl as [Hl|Hl]; [exact (GinV a l Ha Hl)|exact (GinV b l Hb Hl)].
    + rewrite (Hmem_o x Hxb) in Hl. exact (GinV x l Hx Hl).
  - intros l Hl. destruct (Gcover l Hl) as (z & Hz & Hlz).
    destruct (Nat.eq_dec z a) as [->|Hza].
    + exists b. split; [apply without_In; split; [exact Hb|lia]|]. rewrite Hmem_b. cbn [leaves]. apply in_or_app. left. exact Hlz.
    + exists z. split; [apply without_In; split; assumption|].
      destruct (Nat.eq_dec z b) as [->|Hzb]; [rewrite Hmem_b; cbn [leaves]; apply in_or_app; right; exact Hlz|rewrite (Hmem_o z Hzb); exact Hlz].
  - intros x y h Hx Hy Hxy Eh x' y' Hx' Hy'. apply without_In in Hx. apply without_In in Hy.
    destruct Hx as [Hx Hxa], Hy as [Hy Hya].
    destruct (Nat.eq_dec x b) as [->|Hxb].
    + rewrite Hh_b in Eh. inversion Eh; subst h. rewrite Hmem_b in Hx'. cbn [leaves] in Hx'. apply in_app_or in Hx'.
      rewrite (Hmem_o y ltac:(congruence)) in Hy'. exact (Hfar y Hy Hya ltac:(congruence) x' y' Hx' Hy').
    + rewrite (Hh_o x Hxb) in Eh. rewrite (Hmem_o x Hxb) in Hx'.
      destruct (Nat.eq_dec y b) as [->|Hyb].
      * rewrite Hmem_b in Hy'. cbn [leaves] in Hy'. apply in_app_or in Hy'. destruct Hy' as [Hy'|Hy'].
        -- exact (Gmono x a h Hx Ha Hxa Eh x' y' Hx' Hy').
        -- exact (Gmono x b h Hx Hb Hxb Eh x' y' Hx' Hy').
      * rewrite (Hmem_o y Hyb) in Hy'. exact (Gmono x y h Hx Hy Hxy Eh x' y' Hx' Hy').
  - intros x t Hx Hh l Hl. apply without_In in Hx. destruct Hx as [Hx Hxa].
    destruct (Nat.eq_dec x b) as [->|Hxb].
    + rewrite Hmem_b in Hl. cbn [leaves] in Hl. apply in_app_or in Hl. apply Jb; [|exact Hl]. apply Hh. exact Hh_b.
    + rewrite (Hmem_o x Hxb) in Hl. apply Hmono_pre. apply (Glink x t Hx); [|exact Hl]. rewrite <- (Hh_o x Hxb). exact Hh.
  - intros z x y t Hz Hx Hy Hd. apply without_In in Hz. destruct Hz as [Hz Hza].
    destruct (Nat.eq_dec z b) as [->|Hzb].
    + rewrite Hmem_b in Hx, Hy. cbn [leaves] in Hx, Hy. apply in_app_or in Hx. apply in_app_or in Hy.
      destruct Hx as [Hx|Hx], Hy as [Hy|Hy].
      * apply Hmono_pre. exact (Gclose a x y t Ha Hx Hy Hd).
      * assert (Hvt : le v t) by (apply (le_t_trans ltb_negtrans) with (b := d0 x y); [exact (Hlow x y Hx Hy)|exact Hd]).
        eapply rst_trans; [exact (Jb t Hvt x (or_introl Hx))|apply rst_sym; exact (Jb t Hvt y (or_intror Hy))].
      * assert (Hvt : le v t).
        { apply (le_t_trans ltb_negtrans) with (b := d0 x y); [|exact Hd]. rewrite d0_sym. exact (Hlow y x Hy Hx). }
        eapply rst_trans; [exact (Jb t Hvt x (or_intror Hx))|apply rst_sym; exact (Jb t Hvt y (or_introl Hy))].
      * apply Hmono_pre. exact (Gclose b x y t Hb Hx Hy Hd).
    + rewrite (Hmem_o z Hzb) in Hx, Hy. apply Hmono_pre. exact (Gclose z x y t Hz Hx Hy Hd).
  - intros z t Hz Hh x y Hx Hy. apply without_In in Hz. destruct Hz as [Hz Hza].
    destruct (Nat.eq_dec z b) as [->|Hzb].
    + rewrite Hmem_b in Hx, Hy. cbn [leaves] in Hx, Hy. apply in_app_or in Hx. apply in_app_or in Hy.
      apply Sb; [apply Hh; exact Hh_b|exact Hx|exact Hy].
    + rewrite (Hmem_o z Hzb) in Hx, Hy. apply (Gconn z t Hz); [rewrite <- (Hh_o z Hzb); exact Hh|exact Hx|exact Hy].
  - intros st t Hst Hle. apply in_app_or in Hst. destruct Hst as [Hst|[<-|[]]]; [exact (Gsteps st t Hst Hle)|].
    unfold step_new in *. destruct (Nat.ltb_spec b a); [lia|]. cbn [s_c1 s_c2 s_dis] in *.
    apply Sb; [exact Hle|left; exact (Gself a Ha)|right; exact (Gself b Hb)].
Qed.

Lemma sl_run : forall L mem rest, sltrace L mem rest -> NoDup L -> forall hh pre, Inv L mem hh pre ->
  exists L' mem' hh', Inv L' mem' hh' (pre ++ rest) /\ length L' + length rest = length L /\ NoDup L'.
Proof.
  intros L mem rest H. induction H as [L mem|L mem a b v sz rest Ha Hb Hab Hmin Hfar Hst IH]; intros Hnd hh pre HI.
  - exists L, mem, hh. rewrite app_nil_r. split; [exact HI|]. split; [cbn; lia|exact Hnd].
  - pose proof (inv_step sz Hnd HI Ha Hb Hab Hmin Hfar) as HI1.
    destruct (IH (NoDup_filter _ Hnd) _ _ HI1) as (L' & mem' & hh' & HI' & Hlen & Hnd').
    exists L', mem', hh'. rewrite <- app_assoc in HI'. cbn [app] in HI'. split; [exact HI'|]. split; [|exact Hnd'].
    pose proof (without_length a Hnd Ha). cbn [length]. lia.
Qed.

(* the whole trace, from singletons *)
Theorem sl_threshold_components (n : nat) raw : V = seq 0 n ->
  sltrace (seq 0 n) Leaf raw -> length raw + 1 = n ->
  forall t x y, In x V -> In y V -> (link ltb t raw x y <-> conn ltb d0 V t x y).
Proof.
  intros EV Htr Hlen t x y Hx Hy.
  assert (HI0 : Inv (seq 0 n) Leaf (fun _ => None) []).
  { constructor.
    - intros z _. left. reflexivity.
    - intros z l Hz [<-|[]]. rewrite EV. exact Hz.
    - intros l Hl. exists l. split; [rewrite <- EV; exact Hl|left; reflexivity].
    - intros; discriminate.
    - intros z t0 _ _ l [<-|[]]. apply rst_refl.
    - intros z x0 y0 t0 _ [<-|[]] [<-|[]] _. apply rst_refl.
    - intros z t0 _ _ x0 y0 [<-|[]] [<-|[]]. apply rst_refl.
    - intros st t0 []. }
  destruct (sl_run Htr (seq_NoDup n 0) HI0) as (L' & mem' & hh' & HI & Hl & Hnd'). cbn [app] in HI.
  rewrite seq_length in Hl. clear Hx Hy.
  split.
  - intros H. induction H as [a b (st & Hin & Hle & Hab)| | |]; [|apply rst_refl|apply rst_sym; assumption|eapply rst_trans; eassumption].
    pose proof (i_steps HI) as Gsteps. pose proof (Gsteps st t Hin Hle) as Hc. destruct Hab as [[-> ->]|[-> ->]]; [exact Hc|apply rst_sym; exact Hc].
  - (* one live cluster is left *)
    assert (Hone : exists r, L' = [r]) by (destruct L' as [|r [|r2 L2]]; cbn [length] in Hl; try lia; exists r; reflexivity).
    destruct Hone as (r & ->).
    assert (Hall : forall l, In l V -> In l (leaves (mem' r))).
    { intros l Hl0. pose proof (i_cover HI) as Gcover. destruct (Gcover l Hl0) as (z & [<-|[]] & Hz). exact Hz. }
    intros H. induction H as [a b (Ha & Hb & Hd)| | |]; [|apply rst_refl|apply rst_sym; assumption|eapply rst_trans; eassumption].
    pose proof (i_close HI) as Gclose. exact (Gclose r a b t (or_introl eq_refl) (Hall a Ha) (Hall b Hb) Hd).
Qed.

End SL.
