(* C04, abstract part: a "Prim trace" - a sequence of steps, each attaching an
   outside vertex x to the tree built so far at the weight of a minimum edge
   crossing the cut, and RECORDED as the pair (x, previously attached vertex),
   which is what src/spanning.rs pushes - determines, for every threshold t,
   exactly the connected components of the threshold graph:

     closure of the recorded pairs of weight <= t
       =  closure of the pairs of vertices with dissimilarity <= t.

   Only the order structure of the weights is used (a strict weak order). *)
Require Import KV.Model.Prelude KV.Model.Dendrogram KV.Proofs.ActiveRefine.
From Coq Require Import Relations.

Set Implicit Arguments.

Section Prim.
Variable T : Type.
Variable ltb : T -> T -> bool.
Hypothesis ltb_negtrans : forall a b c, ltb a b = false -> ltb b c = false -> ltb a c = false.
Variable d0 : nat -> nat -> T.
Hypothesis d0_sym : forall x y, d0 x y = d0 y x.

(* v <= t *)
Definition le_t (v t : T) : Prop := ltb t v = false.

Lemma le_t_trans a b t : le_t a b -> le_t b t -> le_t a t.
Proof. unfold le_t. intros H1 H2. exact (ltb_negtrans H2 H1). Qed.

Inductive ptrace : list nat -> nat -> list nat -> list (step T) -> Prop :=
| p_nil Tr c : ptrace Tr c [] []
| p_cons Tr c L x v sz rest : In x L ->
    (exists t, In t Tr /\ v = d0 t x) ->
    (forall t y, In t Tr -> In y L -> ltb (d0 t y) v = false) ->
    ptrace (x :: Tr) x (without x L) rest ->
    ptrace Tr c L (step_new x c v sz :: rest).

(* the two partitions at threshold t *)
Definition step_link (t : T) (raw : list (step T)) (a b : nat) : Prop :=
  exists st, In st raw /\ le_t (s_dis st) t /\ ((a = s_c1 st /\ b = s_c2 st) \/ (a = s_c2 st /\ b = s_c1 st)).
Definition link (t : T) (raw : list (step T)) : nat -> nat -> Prop := clos_refl_sym_trans nat (step_link t raw).

Definition edge (V : list nat) (t : T) (a b : nat) : Prop := In a V /\ In b V /\ le_t (d0 a b) t.
Definition conn (V : list nat) (t : T) : nat -> nat -> Prop := clos_refl_sym_trans nat (edge V t).

Lemma link_mono t st raw a b : link t raw a b -> link t (st :: raw) a b.
Proof.
  intros H. induction H as [a b (s0 & Hin & Hle & Hab)| | |].
  - apply rst_step. exists s0. split; [right; exact Hin|]. split; assumption.
  - apply rst_refl.
  - apply rst_sym. assumption.
  - eapply rst_trans; eassumption.
Qed.

Lemma link_head t x c v sz rest : le_t v t -> link t (step_new x c v sz :: rest) c x.
Proof.
  intros Hle. apply rst_step. exists (step_new x c v sz). split; [left; reflexivity|].
  unfold step_new. destruct (c <? x); cbn [s_c1 s_c2 s_dis]; split; auto.
Qed.

(* completeness: every threshold-graph edge is inside one class of the trace *)
Lemma complete_tree_out t : forall Tr c L raw, ptrace Tr c L raw ->
  forall x y, In x Tr -> In y L -> le_t (d0 x y) t -> link t raw c y.
Proof.
  intros Tr c L raw H. induction H as [Tr c|Tr c L x1 v sz rest Hx1 Hatt Hcut Hrest IH]; intros x y Hx Hy Hle.
  - destruct Hy.
  - assert (Hv : le_t v t) by (apply le_t_trans with (d0 x y); [exact (Hcut x y Hx Hy)|exact Hle]).
    destruct (Nat.eq_dec y x1) as [->|Hne]; [apply link_head; exact Hv|].
    apply rst_trans with x1; [apply link_head; exact Hv|]. apply link_mono.
    apply (IH x y); [right; exact Hx| |exact Hle].
    unfold without. apply filter_In. split; [exact Hy|]. apply negb_true_iff. apply Nat.eqb_neq. exact Hne.
Qed.

Lemma complete_out_out t : forall Tr c L raw, ptrace Tr c L raw ->
  forall x y, In x L -> In y L -> le_t (d0 x y) t -> link t raw x y.
Proof.
  intros Tr c L raw H. induction H as [Tr c|Tr c L x1 v sz rest Hx1 Hatt Hcut Hrest IH]; intros x y Hx Hy Hle.
  - destruct Hx.
  - assert (W : forall z, In z L -> z <> x1 -> In z (without x1 L)).
    { intros z Hz Hne. unfold without. apply filter_In. split; [exact Hz|]. apply negb_true_iff. apply Nat.eqb_neq. exact Hne. }
    destruct (Nat.eq_dec x x1) as [->|Hxn], (Nat.eq_dec y x1) as [->|Hyn].
    + apply rst_refl.
    + apply link_mono. apply (@complete_tree_out t _ _ _ _ Hrest x1 y); [left; reflexivity|apply W; assumption|exact Hle].
    + apply rst_sym. apply link_mono. apply (@complete_tree_out t _ _ _ _ Hrest x1 x); [left; reflexivity|apply W; assumption|].
      rewrite d0_sym. exact Hle.
    + apply link_mono. apply IH; [apply W; assumption|apply W; assumption|exact Hle].
Qed.

Theorem threshold_complete t x0 L raw : ptrace [x0] x0 L raw ->
  forall x y, In x (x0 :: L) -> In y (x0 :: L) -> le_t (d0 x y) t -> link t raw x y.
Proof.
  intros H x y [<-|Hx] [<-|Hy] Hle.
  - apply rst_refl.
  - apply (@complete_tree_out t _ _ _ _ H x0 y); [left; reflexivity|exact Hy|exact Hle].
  - apply rst_sym. apply (@complete_tree_out t _ _ _ _ H x0 x); [left; reflexivity|exact Hx|]. rewrite d0_sym. exact Hle.
  - apply (@complete_out_out t _ _ _ _ H); assumption.
Qed.

(* soundness: every recorded pair of weight <= t lies inside one component of
   the threshold graph.  Invariant: a tree vertex that still has an edge <= t
   to the outside is connected to the last attached vertex. *)
Lemma sound_steps V t : forall Tr c L raw, ptrace Tr c L raw ->
  (forall z, In z Tr -> In z V) -> (forall z, In z L -> In z V) ->
  (forall q y, In q Tr -> In y L -> le_t (d0 q y) t -> conn V t q c) ->
  forall st, In st raw -> le_t (s_dis st) t -> conn V t (s_c1 st) (s_c2 st).
Proof.
  intros Tr c L raw H. induction H as [Tr c|Tr c L x1 v sz rest Hx1 Hatt Hcut Hrest IH]; intros HTr HL HP st Hin Hle.
  - destruct Hin.
  - assert (Hc_x1 : le_t v t -> conn V t c x1).
    { intros Hv. destruct Hatt as (q & Hq & ->).
      apply rst_trans with q; [apply rst_sym; exact (HP q x1 Hq Hx1 Hv)|].
      apply rst_step. split; [apply HTr; exact Hq|]. split; [apply HL; exact Hx1|exact Hv]. }
    destruct Hin as [<-|Hin].
    + assert (Hv : le_t v t) by (unfold step_new in Hle; destruct (c <? x1); exact Hle).
      unfold step_new. destruct (c <? x1); cbn [s_c1 s_c2]; [exact (Hc_x1 Hv)|apply rst_sym; exact (Hc_x1 Hv)].
    + apply IH; [| | |exact Hin|exact Hle].
      * intros z [<-|Hz]; [apply HL; exact Hx1|apply HTr; exact Hz].
      * intros z Hz. apply HL. unfold without in Hz. apply filter_In in Hz. exact (proj1 Hz).
      * intros q y [<-|Hq] Hy Hqy; [apply rst_refl|].
        assert (HyL : In y L) by (unfold without in Hy; apply filter_In in Hy; exact (proj1 Hy)).
        apply rst_trans with c; [exact (HP q y Hq HyL Hqy)|].
        apply Hc_x1. apply le_t_trans with (d0 q y); [exact (Hcut q y Hq HyL)|exact Hqy].
Qed.

Theorem threshold_sound t x0 L raw : ptrace [x0] x0 L raw ->
  forall x y, link t raw x y -> conn (x0 :: L) t x y.
Proof.
  intros H x y Hl. induction Hl as [a b (st & Hin & Hle & Hab)| | |].
  - assert (Hc : conn (x0 :: L) t (s_c1 st) (s_c2 st)).
    { apply (@sound_steps (x0 :: L) t _ _ _ _ H); [| | |exact Hin|exact Hle].
      - intros z [<-|[]]. left. reflexivity.
      - intros z Hz. right. exact Hz.
      - intros q y [<-|[]] _ _. apply rst_refl. }
    destruct Hab as [[-> ->]|[-> ->]]; [exact Hc|apply rst_sym; exact Hc].
  - apply rst_refl.
  - apply rst_sym. assumption.
  - eapply rst_trans; eassumption.
Qed.

(* the two partitions coincide *)
Theorem threshold_components t x0 L raw : ptrace [x0] x0 L raw ->
  forall x y, link t raw x y <-> conn (x0 :: L) t x y.
Proof.
  intros H x y. split; [apply threshold_sound; exact H|].
  intros Hc. induction Hc as [a b (Ha & Hb & Hle)| | |].
  - apply (@threshold_complete t _ _ _ H); assumption.
  - apply rst_refl.
  - apply rst_sym. assumption.
  - eapply rst_trans; eassumption.
Qed.

End Prim.
