(* C01: relabel turns any forest of raw merge steps (n-1 edges over n
   observations, each joining two different components - in ANY order, the
   sort may permute them) into a well-formed stepwise dendrogram, and never
   panics except for the NaN panic of the sort. *)
Require Import KV.Model.Prelude KV.Model.Active KV.Model.UnionFind KV.Model.Dendrogram
  KV.Proofs.ResetCanon KV.Proofs.ActiveRefine KV.Proofs.SortProofs KV.Proofs.Monotone
  KV.Proofs.Forest KV.Proofs.UnionFindInv.
From Coq Require Import Sorting.Permutation.

Set Implicit Arguments.

Lemma merge_map_eq (nk r1 r2 rx ry : nat) : rx < nk -> ry < nk ->
  ((if (rx =? r1) || (rx =? r2) then nk else rx) = (if (ry =? r1) || (ry =? r2) then nk else ry)
   <-> rx = ry \/ (rx = r1 /\ r2 = ry) \/ (rx = r2 /\ r1 = ry)).
Proof.
  intros Hx Hy.
  destruct (Nat.eqb_spec rx r1), (Nat.eqb_spec rx r2), (Nat.eqb_spec ry r1), (Nat.eqb_spec ry r2);
    cbn [orb]; split; intros H; try lia.
Qed.

Section Relabel.
Variable T : Type.
Variables ltb eqb : T -> T -> bool.

Lemma gt_flip' (a b : T) : pcmp ltb eqb a b = Some Gt -> pcmp ltb eqb b a = Some Lt.
Proof.
  unfold pcmp. destruct (ltb a b); [discriminate|]. destruct (eqb a b); [discriminate|].
  destruct (ltb b a); [reflexivity|discriminate].
Qed.

Definition edge_of (s : step T) : nat * nat := (s_c1 s, s_c2 s).
Definition edges (l : list (step T)) : list (nat * nat) := map edge_of l.

Lemma eq_equiv : equiv (@eq nat).
Proof. constructor; congruence. Qed.

(* the partition of the observations represented by a union-find state *)
Definition Ru (P : list nat) : rel := fun x y => exists r, reaches P x r /\ reaches P y r.

(* size of a cluster label as recorded in a step list *)
Definition csize (n : nat) (steps : list (step T)) (l : nat) : nat :=
  if l <? n then 1 else match nth_error steps (l - n) with Some t => s_size t | None => 0 end.

(* step j of `steps` is well formed w.r.t. the steps before it *)
Definition wf_step (n : nat) (steps : list (step T)) (j : nat) (t : step T) : Prop :=
  s_c1 t < s_c2 t /\ s_c2 t < n + j
  /\ (forall i t', i < j -> nth_error steps i = Some t' ->
        s_c1 t' <> s_c1 t /\ s_c2 t' <> s_c1 t /\ s_c1 t' <> s_c2 t /\ s_c2 t' <> s_c2 t)
  /\ s_size t = csize n steps (s_c1 t) + csize n steps (s_c2 t).

Definition wf_dend (n : nat) (steps : list (step T)) : Prop :=
  length steps = n - 1 /\ forall j t, nth_error steps j = Some t -> wf_step n steps j t.

(* the label of the cluster containing observation x after applying the first
   i steps of a stepwise dendrogram: step j replaces its two labels by n+j *)
Fixpoint labi (n : nat) (steps : list (step T)) (i : nat) (x : nat) : nat :=
  match i with
  | 0 => x
  | S i' => let l := labi n steps i' x in
            match nth_error steps i' with
            | Some t => if (l =? s_c1 t) || (l =? s_c2 t) then n + i' else l
            | None => l
            end
  end.

Lemma labi_ext (n : nat) (l1 l2 : list (step T)) (i x : nat) :
  (forall j, j < i -> nth_error l1 j = nth_error l2 j) -> labi n l1 i x = labi n l2 i x.
Proof.
  induction i as [|i IH]; intros H; [reflexivity|]. cbn [labi].
  rewrite IH by (intros j Hj; apply H; lia). rewrite (H i) by lia. reflexivity.
Qed.

(* loop invariant after i iterations of the relabelling loop *)
Record RInv (n : nat) (sorted : list (step T)) (i : nat) (u : ufind) (d : dend T) : Prop := {
  ri_u : UInv n i u;
  ri_obs : d_obs d = n;
  ri_len : length (d_steps d) = length sorted;
  ri_rest : forall j, i <= j -> nth_error (d_steps d) j = nth_error sorted j;
  ri_dis : map (@s_dis T) (d_steps d) = map (@s_dis T) sorted;
  ri_done : forall j t, j < i -> nth_error (d_steps d) j = Some t ->
      wf_step n (d_steps d) j t
      /\ nth_error (u_parents u) (s_c1 t) <> Some (s_c1 t)
      /\ nth_error (u_parents u) (s_c2 t) <> Some (s_c2 t);
  ri_rel : forall x y, x < n -> y < n ->
      (Ru (u_parents u) x y <-> add_edges eq (edges (firstn i sorted)) x y);
  ri_lab : forall x, x < n -> reaches (u_parents u) x (labi n (d_steps d) i x);
  ri_hist : forall j x y, j <= i -> x < n -> y < n ->
      (labi n (d_steps d) j x = labi n (d_steps d) j y <-> add_edges eq (edges (firstn j sorted)) x y)
}.

Lemma add_edges_app (R : rel) l1 l2 : add_edges R (l1 ++ l2) = add_edges (add_edges R l1) l2.
Proof. revert R. induction l1 as [|[a b] t IH]; intros R; cbn; [reflexivity|apply IH]. Qed.

Lemma all_nontrivial_app (R : rel) l1 l2 :
  all_nontrivial R (l1 ++ l2) -> all_nontrivial (add_edges R l1) l2.
Proof. revert R. induction l1 as [|[a b] t IH]; intros R; cbn; [auto|]. intros [_ H]. apply IH. exact H. Qed.

Lemma add_edges_equiv (R : rel) l : equiv R -> equiv (add_edges R l).
Proof. revert R. induction l as [|[a b] t IH]; intros R H; cbn; [exact H|]. apply IH. apply add_edge_equiv. exact H. Qed.

Lemma firstn_S_nth {A} (l : list A) i x : nth_error l i = Some x -> firstn (S i) l = firstn i l ++ [x].
Proof.
  revert i. induction l as [|h t IH]; intros [|i] H; cbn in *; try discriminate.
  - inversion H. reflexivity.
  - f_equal. apply IH. exact H.
Qed.

(* non-roots stay non-roots when roots are preserved *)
Lemma nonroot_preserved n k (u u' : ufind) x :
  UInv n k u -> x < 2 * n - 1 ->
  (forall y r, reaches (u_parents u) y r -> reaches (u_parents u') y r) ->
  nth_error (u_parents u) x <> Some x -> nth_error (u_parents u') x <> Some x.
Proof.
  intros HI Hx Hp Hnr Hroot.
  destruct (@root_exists n k u HI (2 * n - 1 - x) x ltac:(lia) Hx) as (r & Hr & _).
  assert (r = x) by (eapply reaches_det; [apply Hp; exact Hr|constructor; exact Hroot]). subst r.
  apply Hnr. eapply reaches_root. exact Hr.
Qed.


(* non-roots stay non-roots when every root can only move up *)
Lemma nonroot_preserved_up n k (u : ufind) (P' : list nat) x :
  UInv n k u -> x < 2 * n - 1 ->
  (forall y r, reaches (u_parents u) y r -> exists r', reaches P' y r' /\ r <= r') ->
  nth_error (u_parents u) x <> Some x -> nth_error P' x <> Some x.
Proof.
  intros HI Hx Hp Hnr Hroot.
  destruct (@root_exists n k u HI (2 * n - 1 - x) x ltac:(lia) Hx) as (r & Hr & Hle & _).
  destruct (Hp x r Hr) as (r' & Hr' & Hle').
  assert (r' = x) by (eapply reaches_det; [exact Hr'|constructor; exact Hroot]). subst r'.
  assert (r = x) by lia. subst r. apply Hnr. eapply reaches_root. exact Hr.
Qed.

Lemma wf_step_ext (n : nat) (l1 l2 : list (step T)) (j : nat) (t : step T) :
  (forall i, i < j -> nth_error l1 i = nth_error l2 i) -> wf_step n l1 j t -> wf_step n l2 j t.
Proof.
  intros Hext (H1 & H2 & H3 & H4). split; [exact H1|]. split; [exact H2|]. split.
  - intros i t' Hi Ht'. apply (H3 i t' Hi). rewrite Hext by exact Hi. exact Ht'.
  - rewrite H4. unfold csize.
    assert (E : forall l, l < n + j -> (if l <? n then 1 else match nth_error l1 (l - n) with Some t0 => s_size t0 | None => 0 end)
                                  = (if l <? n then 1 else match nth_error l2 (l - n) with Some t0 => s_size t0 | None => 0 end)).
    { intros l Hl. destruct (Nat.ltb_spec l n); [reflexivity|]. rewrite Hext by lia. reflexivity. }
    rewrite (E (s_c1 t)) by lia. rewrite (E (s_c2 t)) by lia. reflexivity.
Qed.

Lemma cluster_size_csize (d : dend T) (l : nat) :
  l < d_obs d + length (d_steps d) -> d_cluster_size d l = Ok (csize (d_obs d) (d_steps d) l).
Proof.
  intros Hl. unfold d_cluster_size, csize, d_get, vget. destruct (Nat.ltb_spec l (d_obs d)); [reflexivity|].
  destruct (nth_error (d_steps d) (l - d_obs d)) eqn:E; [reflexivity|].
  apply nth_error_None in E. lia.
Qed.

(* one iteration of the relabelling loop *)
Lemma relabel_step_inv (n : nat) (sorted : list (step T)) (i : nat) (u : ufind) (d : dend T) (s : step T) :
  RInv n sorted i u d -> length sorted = n - 1 -> nth_error sorted i = Some s ->
  s_c1 s < n -> s_c2 s < n ->
  ~ add_edges eq (edges (firstn i sorted)) (s_c1 s) (s_c2 s) ->
  exists u' d', relabel_step (u, d) i = Ok (u', d') /\ RInv n sorted (S i) u' d'.
Proof.
  intros HI Hlen Hs Hc1 Hc2 Hnt.
  destruct HI as [Hu Hobs Hdl Hrest Hdis Hdone Hrel Hlab Hhist].
  assert (Hi : i < n - 1) by (rewrite <- Hlen; apply nth_error_Some; congruence).
  assert (Hget : d_get d i = Ok s).
  { unfold d_get, vget. rewrite (Hrest i (le_n i)), Hs. reflexivity. }
  unfold relabel_step. rewrite Hget. cbn [bind].
  (* the two finds *)
  destruct (@find_spec n i u (s_c1 s) Hu ltac:(lia)) as (r1 & u1 & F1 & Rc1 & Hu1 & Hle1 & Hb1 & Hr1 & P1).
  rewrite F1. cbn [bind].
  destruct (@find_spec n i u1 (s_c2 s) Hu1 ltac:(lia)) as (r2 & u2 & F2 & Rc2 & Hu2 & Hle2 & Hb2 & Hr2 & P2).
  rewrite F2. cbn [bind].
  assert (Hr1n : r1 < n + i) by lia. assert (Hr2n : r2 < n + i) by lia.
  (* roots in the original forest *)
  destruct (@root_exists n i u Hu (2 * n - 1 - s_c2 s) (s_c2 s) ltac:(lia) ltac:(lia)) as (r2' & Rc2' & _).
  assert (r2' = r2) by (eapply reaches_det; [apply P1; exact Rc2'|exact Rc2]). subst r2'.
  assert (Hne : r1 <> r2).
  { intros ->. apply Hnt. apply (Hrel _ _ Hc1 Hc2). exists r2. split; assumption. }
  assert (Root1 : nth_error (u_parents u2) r1 = Some r1) by (eapply reaches_root; apply P2; apply P1; exact Rc1).
  assert (Root2 : nth_error (u_parents u2) r2 = Some r2) by (eapply reaches_root; apply P2; exact Rc2).
  destruct (@union_spec n i u2 r1 r2 Hu2 ltac:(lia) Hr1n Hr2n Hne Root1 Root2) as (u3 & Hun & Hu3 & P3).
  rewrite Hun. cbn [bind].
  (* cluster sizes *)
  rewrite (@cluster_size_csize d r1) by (rewrite Hobs, Hdl, Hlen; lia). cbn [bind].
  rewrite (@cluster_size_csize d r2) by (rewrite Hobs, Hdl, Hlen; lia). cbn [bind].
  unfold d_set, vset. destruct (Nat.ltb_spec i (length (d_steps d))); [|lia]. cbn [bind].
  set (news := step_set_size (step_set_clusters s r1 r2) (csize (d_obs d) (d_steps d) r1 + csize (d_obs d) (d_steps d) r2)).
  eexists _, _. split; [reflexivity|].
  (* facts about the new step *)
  assert (Hnc : s_c1 news = Nat.min r1 r2 /\ s_c2 news = Nat.max r1 r2 /\ s_dis news = s_dis s
                /\ s_size news = csize n (d_steps d) r1 + csize n (d_steps d) r2).
  { unfold news, step_set_size, step_set_clusters. rewrite Hobs.
    destruct (Nat.ltb_spec r2 r1); cbn; repeat split; lia. }
  destruct Hnc as (N1 & N2 & N3 & N4).
  (* composite root map u -> u3 *)
  assert (PM : forall x r, reaches (u_parents u) x r ->
             reaches (u_parents u3) x (if (r =? r1) || (r =? r2) then n + i else r)).
  { intros x r Hx. apply P3. apply P2. apply P1. exact Hx. }
  assert (Hnewsteps : forall j, j <> i -> nth_error (set_nth (d_steps d) i news) j = nth_error (d_steps d) j).
  { intros j Hj. apply nth_error_set_nth_neq. exact Hj. }
  assert (Hpart : forall x y, x < n -> y < n ->
            (Ru (u_parents u3) x y <-> add_edges eq (edges (firstn (S i) sorted)) x y)).
  { (* the partition: joined the classes of c1 and c2 *)
    intros x y Hx Hy. rewrite (firstn_S_nth _ _ Hs). unfold edges. rewrite map_app, add_edges_app. cbn [map add_edges edge_of].
    set (R := add_edges eq (map edge_of (firstn i sorted))).
    destruct (@root_exists n i u Hu (2 * n - 1 - x) x ltac:(lia) ltac:(lia)) as (rx & Rx & _ & _ & Bx & _).
    destruct (@root_exists n i u Hu (2 * n - 1 - y) y ltac:(lia) ltac:(lia)) as (ry & Ry & _ & _ & By & _).
    assert (Bx' : rx < n + i) by lia. assert (By' : ry < n + i) by lia.
    assert (Rroot : forall a b ra rb, a < n -> b < n -> reaches (u_parents u) a ra -> reaches (u_parents u) b rb ->
              (R a b <-> ra = rb)).
    { intros a b ra rb Ha Hb Hra Hrb. unfold R. rewrite <- (Hrel a b Ha Hb). split.
      - intros (r & A & B). rewrite (reaches_det Hra A), (reaches_det Hrb B). reflexivity.
      - intros ->. exists rb. split; assumption. }
    pose proof (PM _ _ Rx) as Rx3. pose proof (PM _ _ Ry) as Ry3.
    assert (E1 : R x (s_c1 s) <-> rx = r1) by (apply Rroot; assumption).
    assert (E2 : R x (s_c2 s) <-> rx = r2) by (apply Rroot; assumption).
    assert (E3 : R (s_c2 s) y <-> r2 = ry) by (apply Rroot; assumption).
    assert (E4 : R (s_c1 s) y <-> r1 = ry) by (apply Rroot; assumption).
    assert (E5 : R x y <-> rx = ry) by (apply Rroot; assumption).
    unfold add_edge. rewrite E1, E2, E3, E4, E5.
    rewrite <- (@merge_map_eq (n + i) r1 r2 rx ry Bx' By').
    split.
    + intros (r & A & B). rewrite (reaches_det A Rx3) in B. exact (reaches_det B Ry3).
    + intros E. exists (if (rx =? r1) || (rx =? r2) then n + i else rx). split; [exact Rx3|].
      rewrite E. exact Ry3. }
  assert (Hlab3 : forall x, x < n -> reaches (u_parents u3) x (labi n (set_nth (d_steps d) i news) (S i) x)).
  { intros x Hx. cbn [labi]. rewrite nth_error_set_nth_eq by lia.
    rewrite (@labi_ext n (set_nth (d_steps d) i news) (d_steps d) i x) by (intros k Hk; apply Hnewsteps; lia).
    pose proof (PM _ _ (Hlab x Hx)) as R3. rewrite N1, N2.
    assert (Eor : forall l, ((l =? Nat.min r1 r2) || (l =? Nat.max r1 r2)) = ((l =? r1) || (l =? r2))).
    { intros l. destruct (Nat.le_gt_cases r1 r2); [rewrite Nat.min_l, Nat.max_r by lia; reflexivity|].
      rewrite Nat.min_r, Nat.max_l by lia. apply Bool.orb_comm. }
    rewrite Eor. exact R3. }
  constructor; cbn [d_steps d_obs].
  - exact Hu3.
  - exact Hobs.
  - rewrite set_nth_length. exact Hdl.
  - intros j Hj. rewrite Hnewsteps by lia. apply Hrest. lia.
  - rewrite <- Hdis. apply map_set_nth_same with (x := s).
    + rewrite (Hrest i (le_n i)). exact Hs.
    + exact N3.
  - intros j t Hj Ht. destruct (Nat.eq_dec j i) as [->|Hji].
    + (* the step just written *)
      rewrite nth_error_set_nth_eq in Ht by lia. inversion Ht; subst t. clear Ht.
      split; [|split].
      * split; [rewrite N1, N2; lia|]. split; [rewrite N2; lia|]. split.
        -- intros i' t' Hi' Ht'. rewrite Hnewsteps in Ht' by lia.
           destruct (Hdone i' t' Hi' Ht') as ((W1 & W2 & _) & NR1 & NR2).
           assert (B1 : s_c1 t' < 2 * n - 1) by lia. assert (B2 : s_c2 t' < 2 * n - 1) by lia.
           assert (NR1' : nth_error (u_parents u2) (s_c1 t') <> Some (s_c1 t')).
           { apply (@nonroot_preserved n i u1 u2 (s_c1 t') Hu1 B1 P2).
             apply (@nonroot_preserved n i u u1 (s_c1 t') Hu B1 P1). exact NR1. }
           assert (NR2' : nth_error (u_parents u2) (s_c2 t') <> Some (s_c2 t')).
           { apply (@nonroot_preserved n i u1 u2 (s_c2 t') Hu1 B2 P2).
             apply (@nonroot_preserved n i u u1 (s_c2 t') Hu B2 P1). exact NR2. }
           rewrite N1, N2.
           assert (s_c1 t' <> r1) by (intros E; rewrite E in NR1'; contradiction).
           assert (s_c1 t' <> r2) by (intros E; rewrite E in NR1'; contradiction).
           assert (s_c2 t' <> r1) by (intros E; rewrite E in NR2'; contradiction).
           assert (s_c2 t' <> r2) by (intros E; rewrite E in NR2'; contradiction).
           lia.
        -- rewrite N4, N1, N2.
           assert (E : forall l, l < n + i -> csize n (set_nth (d_steps d) i news) l = csize n (d_steps d) l).
           { intros l Hl. unfold csize. destruct (Nat.ltb_spec l n); [reflexivity|]. rewrite Hnewsteps by lia. reflexivity. }
           rewrite !E by lia. destruct (Nat.le_gt_cases r1 r2).
           ++ rewrite Nat.min_l, Nat.max_r by lia. reflexivity.
           ++ rewrite Nat.min_r, Nat.max_l by lia. lia.
      * (* r1, r2 are consumed now *)
        assert (Hnr : forall r, r = r1 \/ r = r2 -> nth_error (u_parents u3) r <> Some r).
        { intros r Hr Hroot.
          assert (Rr : reaches (u_parents u2) r r) by (constructor; destruct Hr as [->| ->]; assumption).
          apply P3 in Rr.
          assert (Hif : (if (r =? r1) || (r =? r2) then n + i else r) = n + i).
          { destruct Hr as [->| ->]; rewrite Nat.eqb_refl, ?Bool.orb_true_r; reflexivity. }
          rewrite Hif in Rr.
          assert (n + i = r) by (eapply reaches_det; [exact Rr|constructor; exact Hroot]). destruct Hr; lia. }
        rewrite N1. destruct (Nat.le_gt_cases r1 r2); [rewrite Nat.min_l by lia|rewrite Nat.min_r by lia]; apply Hnr; auto.
      * assert (Hnr : forall r, r = r1 \/ r = r2 -> nth_error (u_parents u3) r <> Some r).
        { intros r Hr Hroot.
          assert (Rr : reaches (u_parents u2) r r) by (constructor; destruct Hr as [->| ->]; assumption).
          apply P3 in Rr.
          assert (Hif : (if (r =? r1) || (r =? r2) then n + i else r) = n + i).
          { destruct Hr as [->| ->]; rewrite Nat.eqb_refl, ?Bool.orb_true_r; reflexivity. }
          rewrite Hif in Rr.
          assert (n + i = r) by (eapply reaches_det; [exact Rr|constructor; exact Hroot]). destruct Hr; lia. }
        rewrite N2. destruct (Nat.le_gt_cases r1 r2); [rewrite Nat.max_r by lia|rewrite Nat.max_l by lia]; apply Hnr; auto.
    + (* an earlier step: unchanged *)
      rewrite Hnewsteps in Ht by exact Hji. destruct (Hdone j t ltac:(lia) Ht) as (W & NR1 & NR2).
      pose proof W as (W1 & W2 & _).
      split; [|split].
      * apply wf_step_ext with (l1 := d_steps d); [|exact W]. intros i' Hi'. symmetry. apply Hnewsteps. lia.
      * apply (@nonroot_preserved_up n i u (u_parents u3) (s_c1 t) Hu ltac:(lia)); [|exact NR1].
        intros y r Hy. eexists. split; [apply PM; exact Hy|].
        destruct ((r =? r1) || (r =? r2)) eqn:E; [|lia].
        apply Bool.orb_true_iff in E. destruct E as [E|E]; apply Nat.eqb_eq in E; lia.
      * apply (@nonroot_preserved_up n i u (u_parents u3) (s_c2 t) Hu ltac:(lia)); [|exact NR2].
        intros y r Hy. eexists. split; [apply PM; exact Hy|].
        destruct ((r =? r1) || (r =? r2)) eqn:E; [|lia].
        apply Bool.orb_true_iff in E. destruct E as [E|E]; apply Nat.eqb_eq in E; lia.
  - exact Hpart.
  - exact Hlab3.
  - intros j x y Hj Hx Hy. destruct (Nat.eq_dec j (S i)) as [->|Hne'].
    + rewrite <- (Hpart x y Hx Hy). split.
      * intros E. exists (labi n (set_nth (d_steps d) i news) (S i) x). split; [apply Hlab3; exact Hx|].
        rewrite E. apply Hlab3; exact Hy.
      * intros (r & A & B). rewrite (reaches_det (Hlab3 x Hx) A), (reaches_det (Hlab3 y Hy) B). reflexivity.
    + rewrite !(@labi_ext n (set_nth (d_steps d) i news) (d_steps d) j) by (intros k Hk; apply Hnewsteps; lia).
      apply Hhist; [lia|exact Hx|exact Hy].
Qed.

Lemma nontrivial_at (R : rel) l1 a b l2 : all_nontrivial R (l1 ++ (a, b) :: l2) -> ~ add_edges R l1 a b.
Proof. intros H. apply all_nontrivial_app in H. cbn in H. exact (proj1 H). Qed.

Lemma split_at {A} (l : list A) i x : nth_error l i = Some x -> l = firstn i l ++ x :: skipn (S i) l.
Proof.
  revert i. induction l as [|h t IH]; intros [|i] H; cbn in *; try discriminate.
  - inversion H. reflexivity.
  - f_equal. apply IH. exact H.
Qed.

(* the whole loop *)
Lemma relabel_fold (n : nat) (sorted : list (step T)) :
  length sorted = n - 1 ->
  (forall s, In s sorted -> s_c1 s < n /\ s_c2 s < n) ->
  all_nontrivial eq (edges sorted) ->
  forall k i u d, i + k = n - 1 -> RInv n sorted i u d ->
  exists u' d', mfold (@relabel_step T) (seq i k) (u, d) = Ok (u', d') /\ RInv n sorted (n - 1) u' d'.
Proof.
  intros Hlen Hends Hnt. induction k as [|k IH]; intros i u d Hik HI.
  - exists u, d. split; [reflexivity|]. replace (n - 1) with i by lia. exact HI.
  - cbn [seq mfold].
    destruct (nth_error sorted i) as [s|] eqn:Hs; [|apply nth_error_None in Hs; lia].
    destruct (Hends s (nth_error_In _ _ Hs)) as [Hc1 Hc2].
    assert (Hni : ~ add_edges eq (edges (firstn i sorted)) (s_c1 s) (s_c2 s)).
    { rewrite (split_at _ _ Hs) in Hnt. unfold edges in Hnt. rewrite map_app in Hnt. cbn [map] in Hnt.
      apply nontrivial_at in Hnt. exact Hnt. }
    destruct (relabel_step_inv HI Hlen Hs Hc1 Hc2 Hni) as (u1 & d1 & Hstep & HI1).
    rewrite Hstep. cbn [bind]. apply IH; [lia|exact HI1].
Qed.

Lemma reset_reaches (n x r : nat) : reaches (map (fun i => i) (seq 0 (u_size n))) x r -> x = r.
Proof.
  induction 1 as [r Hr|x px r Hx Hne Hr IH]; [reflexivity|].
  rewrite nth_error_map in Hx. destruct (nth_error (seq 0 (u_size n)) x) eqn:E; cbn in Hx; [|discriminate].
  inversion Hx; subst.
  assert (Hx' : x < u_size n) by (rewrite <- (seq_length (u_size n) 0); apply nth_error_Some; congruence).
  rewrite (nth_error_nth' _ 0) in E by (rewrite seq_length; lia). rewrite seq_nth in E by lia. inversion E. lia.
Qed.

Lemma rinv_init (n : nat) (sorted : list (step T)) (u : ufind) : 1 <= n -> length sorted = n - 1 ->
  RInv n sorted 0 (u_reset u n) {| d_steps := sorted; d_obs := n |}.
Proof.
  intros Hn Hlen. constructor; cbn [d_steps d_obs].
  - apply u_reset_inv. exact Hn.
  - reflexivity.
  - reflexivity.
  - reflexivity.
  - reflexivity.
  - intros j t Hj. lia.
  - intros x y Hx Hy. cbn [firstn edges map add_edges]. rewrite u_reset_canonical. cbn [u_parents u_canonical].
    assert (Hsz : u_size n = 2 * n - 1) by (unfold u_size; destruct (Nat.eqb_spec n 0); [lia|reflexivity]).
    assert (Hroot : forall z, z < n -> reaches (map (fun i => i) (seq 0 (u_size n))) z z).
    { intros z Hz. constructor. rewrite nth_error_map, (nth_error_nth' _ 0) by (rewrite seq_length; lia).
      rewrite seq_nth by lia. reflexivity. }
    split.
    + intros (r & A & B). apply reset_reaches in A, B. congruence.
    + intros ->. exists y. split; apply Hroot; exact Hy.
  - intros x Hx. cbn [labi]. rewrite u_reset_canonical. cbn [u_parents u_canonical].
    assert (Hsz : u_size n = 2 * n - 1) by (unfold u_size; destruct (Nat.eqb_spec n 0); [lia|reflexivity]).
    constructor. rewrite nth_error_map, (nth_error_nth' _ 0) by (rewrite seq_length; lia).
    rewrite seq_nth by lia. reflexivity.
  - intros j x y Hj Hx Hy. assert (j = 0) by lia. subst j. cbn [labi firstn edges map add_edges]. tauto.
Qed.

(* relabel on a forest of raw steps: never panics beyond the sort's NaN panic,
   returns a well-formed dendrogram with the (sorted) heights *)
Theorem relabel_wf (u : ufind) (d : dend T) (sorting : bool) (steps0 : list (step T)) :
  let n := d_obs d in
  1 <= n -> length (d_steps d) = n - 1 ->
  (forall s, In s (d_steps d) -> s_c1 s < n /\ s_c2 s < n) ->
  all_nontrivial eq (edges (d_steps d)) ->
  (if sorting then sort_steps ltb eqb (d_steps d) = Ok steps0 else steps0 = d_steps d) ->
  exists u' d', relabel ltb eqb u d sorting = Ok (u', d')
    /\ wf_dend n (d_steps d') /\ d_obs d' = n
    /\ map (@s_dis T) (d_steps d') = map (@s_dis T) steps0.
Proof.
  intros n Hn Hlen Hends Hnt Hsort.
  assert (Hperm : Permutation (d_steps d) steps0).
  { destruct sorting; [|subst; apply Permutation_refl].
    exact (proj2 (@sort_steps_ok T ltb eqb (fun a b => @gt_flip' a b) _ _ Hsort)). }
  assert (Hlen0 : length steps0 = n - 1) by (rewrite <- (Permutation_length Hperm); exact Hlen).
  assert (Hends0 : forall s, In s steps0 -> s_c1 s < n /\ s_c2 s < n).
  { intros s Hs. apply Hends. apply Permutation_in with steps0; [apply Permutation_sym; exact Hperm|exact Hs]. }
  assert (Hnt0 : all_nontrivial eq (edges steps0)).
  { exact (proj1 (@forest_permutation _ _ (Permutation_map edge_of Hperm) eq eq_equiv Hnt)). }
  destruct (@relabel_fold n steps0 Hlen0 Hends0 Hnt0 (n - 1) 0 _ _ ltac:(lia) (@rinv_init n steps0 u Hn Hlen0))
    as (u' & d' & Hfold & HI).
  exists u', d'. unfold relabel. fold n.
  assert (Hs : (if sorting then sort_steps ltb eqb (d_steps d) else Ok (d_steps d)) = Ok steps0).
  { destruct sorting; [exact Hsort|subst; reflexivity]. }
  rewrite Hs. cbn [bind]. unfold d_len. cbn [d_steps]. rewrite Hlen0.
  split; [exact Hfold|].
  destruct HI as [Hu Hobs Hdl Hrest Hdis Hdone Hrel Hlab Hhist].
  split; [|split; [exact Hobs|exact Hdis]].
  split; [rewrite Hdl; exact Hlen0|].
  intros j t Ht. apply Hdone; [|exact Ht].
  rewrite <- Hlen0, <- Hdl. apply nth_error_Some. congruence.
Qed.

(* ... and for every j, applying the first j returned steps (labels read as in
   C01) yields the partition generated by the first j (sorted) raw pairs *)
Theorem relabel_cuts (u : ufind) (d : dend T) (sorting : bool) (steps0 : list (step T)) :
  let n := d_obs d in
  1 <= n -> length (d_steps d) = n - 1 ->
  (forall s, In s (d_steps d) -> s_c1 s < n /\ s_c2 s < n) ->
  all_nontrivial eq (edges (d_steps d)) ->
  (if sorting then sort_steps ltb eqb (d_steps d) = Ok steps0 else steps0 = d_steps d) ->
  exists u' d', relabel ltb eqb u d sorting = Ok (u', d')
    /\ wf_dend n (d_steps d') /\ d_obs d' = n
    /\ map (@s_dis T) (d_steps d') = map (@s_dis T) steps0
    /\ (forall j x y, j <= n - 1 -> x < n -> y < n ->
          (labi n (d_steps d') j x = labi n (d_steps d') j y <-> add_edges eq (edges (firstn j steps0)) x y)).
Proof.
  intros n Hn Hlen Hends Hnt Hsort.
  assert (Hperm : Permutation (d_steps d) steps0).
  { destruct sorting; [|subst; apply Permutation_refl].
    exact (proj2 (@sort_steps_ok T ltb eqb (fun a b => @gt_flip' a b) _ _ Hsort)). }
  assert (Hlen0 : length steps0 = n - 1) by (rewrite <- (Permutation_length Hperm); exact Hlen).
  assert (Hends0 : forall s, In s steps0 -> s_c1 s < n /\ s_c2 s < n).
  { intros s Hs. apply Hends. apply Permutation_in with steps0; [apply Permutation_sym; exact Hperm|exact Hs]. }
  assert (Hnt0 : all_nontrivial eq (edges steps0)).
  { exact (proj1 (@forest_permutation _ _ (Permutation_map edge_of Hperm) eq eq_equiv Hnt)). }
  destruct (@relabel_fold n steps0 Hlen0 Hends0 Hnt0 (n - 1) 0 _ _ ltac:(lia) (@rinv_init n steps0 u Hn Hlen0))
    as (u' & d' & Hfold & HI).
  exists u', d'. unfold relabel. fold n.
  assert (Hs : (if sorting then sort_steps ltb eqb (d_steps d) else Ok (d_steps d)) = Ok steps0).
  { destruct sorting; [exact Hsort|subst; reflexivity]. }
  rewrite Hs. cbn [bind]. unfold d_len. cbn [d_steps]. rewrite Hlen0.
  split; [exact Hfold|].
  destruct HI as [Hu Hobs Hdl Hrest Hdis Hdone Hrel Hlab Hhist].
  split; [|split; [exact Hobs|split; [exact Hdis|exact Hhist]]].
  split; [rewrite Hdl; exact Hlen0|].
  intros j t Ht. apply Hdone; [|exact Ht].
  rewrite <- Hlen0, <- Hdl. apply nth_error_Some. congruence.
Qed.


End Relabel.
