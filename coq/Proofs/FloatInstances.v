(* The carrier-generic theorems instantiated at the two carriers on which the
   correspondence check evaluates the model: binary64 (Run/F64.v, Coq's
   primitive floats) and binary32 (Run/F32.v, Flocq soft floats).  The order
   hypotheses are discharged by Proofs/FloatOrder.v. *)
Require Import KV.Model.Prelude KV.Model.Condensed KV.Model.Active KV.Model.Dendrogram KV.Model.Methods KV.Model.State
  KV.Model.Primitive KV.Model.Mst KV.Run.F64 KV.Run.F32
  KV.Proofs.ShapeCheck KV.Proofs.ActiveRefine KV.Proofs.PrimitiveGreedy KV.Proofs.PrimitiveTotal KV.Proofs.MstTotal
  KV.Proofs.FloatOrder.
From Coq Require Import Floats.
From Flocq Require Import Core.FLX IEEE754.BinarySingleNaN.

Set Implicit Arguments.

Lemma f64_trans meth a b c : k_ltb (kops_of F64 meth) a b = true -> k_ltb (kops_of F64 meth) b c = true -> k_ltb (kops_of F64 meth) a c = true.
Proof. apply f64_ltb_trans. Qed.
Lemma f64_irrefl meth a : k_ltb (kops_of F64 meth) a a = false.
Proof. apply f64_ltb_irrefl. Qed.

Lemma f32_trans meth a b c : k_ltb (kops_of F32 meth) a b = true -> k_ltb (kops_of F32 meth) b c = true -> k_ltb (kops_of F32 meth) a c = true.
Proof. apply (@Bltb_trans 24 128). Qed.
Lemma f32_irrefl meth a : k_ltb (kops_of F32 meth) a a = false.
Proof. apply (@Bltb_irrefl 24 128). Qed.

(* C12: primitive is total on f64 and f32 *)
Theorem primitive_total_f64 (p : profile) (meth : method) s d (m : list PrimFloat.float) (n : N) :
  (n < two32)%N -> wf_shape n (N.of_nat (length m)) ->
  (exists r, primitive_with (kops_of F64 meth) p meth s d m n = Ok r)
  \/ primitive_with (kops_of F64 meth) p meth s d m n = Panic PNaN.
Proof. apply (@primitive_total _ (kops_of F64 meth) p (@f64_trans meth) (@f64_irrefl meth)). Qed.

Theorem primitive_total_f32 (p : profile) (meth : method) s d (m : list f32) (n : N) :
  (n < two32)%N -> wf_shape n (N.of_nat (length m)) ->
  (exists r, primitive_with (kops_of F32 meth) p meth s d m n = Ok r)
  \/ primitive_with (kops_of F32 meth) p meth s d m n = Panic PNaN.
Proof. apply (@primitive_total _ (kops_of F32 meth) p (@f32_trans meth) (@f32_irrefl meth)). Qed.

(* C03: every iteration of primitive on f64 / f32 merges a minimal live pair of
   the working matrix (NaNs included: `<` is still transitive and irreflexive) *)
Theorem prim_iter_greedy_f64 (p : profile) meth s d M i s' d' M' L :
  PInv s M L -> prim_iter (kops_of F64 meth) p meth (s, d, M) i = Ok (s', d', M') ->
  exists a b v sz,
    In a L /\ In b L /\ a < b /\ mcell M a b = Some v
    /\ (forall x y w, In x L -> In y L -> x < y -> mcell M x y = Some w -> PrimFloat.ltb w v = false)
    /\ d_steps d' = d_steps d ++ [step_new a b v sz]
    /\ PInv s' M' (without a L).
Proof. apply (@prim_iter_greedy _ (kops_of F64 meth) p (@f64_trans meth) (@f64_irrefl meth)). Qed.

Theorem prim_iter_greedy_f32 (p : profile) meth s d M i s' d' M' L :
  PInv s M L -> prim_iter (kops_of F32 meth) p meth (s, d, M) i = Ok (s', d', M') ->
  exists a b v sz,
    In a L /\ In b L /\ a < b /\ mcell M a b = Some v
    /\ (forall x y w, In x L -> In y L -> x < y -> mcell M x y = Some w -> Bltb w v = false)
    /\ d_steps d' = d_steps d ++ [step_new a b v sz]
    /\ PInv s' M' (without a L).
Proof. apply (@prim_iter_greedy _ (kops_of F32 meth) p (@f32_trans meth) (@f32_irrefl meth)). Qed.

(* ---- C04 on the float carriers: single linkage through linkage / mst on a
   matrix whose entries are all below +infinity (hence not NaN): the cuts of
   the returned dendrogram are the threshold components, for every non-NaN
   threshold ---- *)
Require Import KV.Model.Linkage KV.Proofs.SortProofs KV.Proofs.RelabelWF KV.Proofs.PrimThreshold KV.Proofs.MstPrim
  KV.Proofs.MstCuts KV.Proofs.SubCarrier KV.Proofs.SpanningTrees KV.Proofs.MstWeights KV.Proofs.Shape KV.Proofs.AgreeSingle KV.Proofs.SingleReplay KV.Proofs.SlotProbe.
From Flocq Require Import IEEE754.PrimFloat.

Definition ok64 (x : PrimFloat.float) : bool := negb (PrimFloat.is_nan x).
Definition ok32 (x : f32) : bool := negb (BinarySingleNaN.is_nan x).

Lemma lt_inf_ok64 (v : PrimFloat.float) : PrimFloat.ltb v infinity = true -> ok64 v = true.
Proof.
  intros H. unfold ok64. rewrite ltb_equiv in H. rewrite is_nan_equiv.
  destruct (Bltb_true_not_nan _ _ _ _ H) as [-> _]. reflexivity.
Qed.

Lemma lt_inf_ok32 (v : f32) : Bltb v (B754_infinity false) = true -> ok32 v = true.
Proof. intros H. unfold ok32. destruct (Bltb_true_not_nan _ _ _ _ H) as [-> _]. reflexivity. Qed.

Theorem mst_cuts_f64 (p : profile) (a : algo) s d (m : list PrimFloat.float) (n : N) s' d' m' M0 :
  a = ALinkage \/ a = AMst ->
  run_with F64 p a Single s d m n = Ok (s', d', m') ->
  prologue p m n = Ok M0 ->
  Forall (fun v => PrimFloat.ltb v infinity = true) m ->
  forall t : PrimFloat.float, PrimFloat.is_nan t = false ->
  exists j, j <= m_obs M0 - 1 /\ cut_at (kops_of F64 Single) t j (heights d')
    /\ forall x y, x < m_obs M0 -> y < m_obs M0 ->
        (labi (m_obs M0) (d_steps d') j x = labi (m_obs M0) (d_steps d') j y
         <-> conn PrimFloat.ltb (dcell (kops_of F64 Single) M0) (0 :: seq 1 (m_obs M0 - 1)) t x y).
Proof.
  intros Ha Hrun HM0 Hfin t Ht.
  apply (@mst_cuts_carrier _ F64 ok64 eq_refl eq_refl f64_ltb_irrefl f64_ltb_trans
           ltac:(intros x y z Hx Hy Hz; apply f64_ltb_negtrans; unfold ok64 in *;
                 [destruct (PrimFloat.is_nan x)|destruct (PrimFloat.is_nan y)|destruct (PrimFloat.is_nan z)]; (reflexivity || discriminate))
           f64_eqb_not_lt p a s d m n s' d' m' M0 Ha Hrun HM0).
  - eapply Forall_impl; [|exact Hfin]. intros v Hv. apply lt_inf_ok64. exact Hv.
  - exact Hfin.
  - unfold ok64. rewrite Ht. reflexivity.
Qed.

Theorem mst_cuts_f32 (p : profile) (a : algo) s d (m : list f32) (n : N) s' d' m' M0 :
  a = ALinkage \/ a = AMst ->
  run_with F32 p a Single s d m n = Ok (s', d', m') ->
  prologue p m n = Ok M0 ->
  Forall (fun v => Bltb v (B754_infinity false) = true) m ->
  forall t : f32, BinarySingleNaN.is_nan t = false ->
  exists j, j <= m_obs M0 - 1 /\ cut_at (kops_of F32 Single) t j (heights d')
    /\ forall x y, x < m_obs M0 -> y < m_obs M0 ->
        (labi (m_obs M0) (d_steps d') j x = labi (m_obs M0) (d_steps d') j y
         <-> conn (@Bltb 24 128) (dcell (kops_of F32 Single) M0) (0 :: seq 1 (m_obs M0 - 1)) t x y).
Proof.
  intros Ha Hrun HM0 Hfin t Ht.
  apply (@mst_cuts_carrier _ F32 ok32 eq_refl eq_refl (@Bltb_irrefl 24 128) (@Bltb_trans 24 128)
           ltac:(intros x y z Hx Hy Hz; apply (@Bltb_negtrans 24 128); unfold ok32 in *;
                 [destruct (BinarySingleNaN.is_nan x)|destruct (BinarySingleNaN.is_nan y)|destruct (BinarySingleNaN.is_nan z)]; (reflexivity || discriminate))
           (@Beqb_not_lt 24 128) p a s d m n s' d' m' M0 Ha Hrun HM0).
  - eapply Forall_impl; [|exact Hfin]. intros v Hv. apply lt_inf_ok32. exact Hv.
  - exact Hfin.
  - unfold ok32. rewrite Ht. reflexivity.
Qed.

(* non-vacuity on binary64: a run of the model with ties *)
Example f64_run_exists :
  exists r M0, run_with F64 Debug ALinkage Single (st_new _) (d_new _ 0) [3; 1; 4; 1; 5; 9; 2; 6; 5; 3]%float 5 = Ok r
    /\ prologue Debug [3; 1; 4; 1; 5; 9; 2; 6; 5; 3]%float 5 = Ok M0
    /\ forallb (fun v => PrimFloat.ltb v infinity) [3; 1; 4; 1; 5; 9; 2; 6; 5; 3]%float = true.
Proof. eexists _, _. split; [vm_compute; reflexivity|]. split; vm_compute; reflexivity. Qed.

(* ---- C01 / C12 on the float carriers for the selection methods: linkage, mst
   and nnchain with single or complete on a NaN-free well-formed matrix ---- *)
Require Import KV.Model.Chain.

Theorem selection_total_wf_f64 (p : profile) (a : algo) (meth : method) s d (m : list PrimFloat.float) (n : N) :
  a = ALinkage \/ a = AMst \/ a = ANnchain -> meth = Single \/ meth = Complete ->
  (n < two32)%N -> wf_shape n (N.of_nat (length m)) ->
  Forall (fun v => PrimFloat.is_nan v = false) m ->
  (exists s' d' m', run_with F64 p a meth s d m n = Ok (s', d', m') /\ wf_dend (d_obs d') (d_steps d'))
  \/ run_with F64 p a meth s d m n = Panic PNaN.
Proof.
  intros Ha Hm Hn Hs Hok.
  apply (@selection_total_wf_carrier _ F64 ok64 eq_refl eq_refl f64_ltb_irrefl f64_ltb_trans
           ltac:(intros x y z Hx Hy Hz; apply f64_ltb_negtrans; unfold ok64 in *;
                 [destruct (PrimFloat.is_nan x)|destruct (PrimFloat.is_nan y)|destruct (PrimFloat.is_nan z)]; (reflexivity || discriminate))
           p a meth s d m n Ha Hm Hn Hs).
  eapply Forall_impl; [|exact Hok]. intros v Hv. unfold ok64. rewrite Hv. reflexivity.
Qed.

Theorem selection_total_wf_f32 (p : profile) (a : algo) (meth : method) s d (m : list f32) (n : N) :
  a = ALinkage \/ a = AMst \/ a = ANnchain -> meth = Single \/ meth = Complete ->
  (n < two32)%N -> wf_shape n (N.of_nat (length m)) ->
  Forall (fun v => BinarySingleNaN.is_nan v = false) m ->
  (exists s' d' m', run_with F32 p a meth s d m n = Ok (s', d', m') /\ wf_dend (d_obs d') (d_steps d'))
  \/ run_with F32 p a meth s d m n = Panic PNaN.
Proof.
  intros Ha Hm Hn Hs Hok.
  apply (@selection_total_wf_carrier _ F32 ok32 eq_refl eq_refl (@Bltb_irrefl 24 128) (@Bltb_trans 24 128)
           ltac:(intros x y z Hx Hy Hz; apply (@Bltb_negtrans 24 128); unfold ok32 in *;
                 [destruct (BinarySingleNaN.is_nan x)|destruct (BinarySingleNaN.is_nan y)|destruct (BinarySingleNaN.is_nan z)]; (reflexivity || discriminate))
           p a meth s d m n Ha Hm Hn Hs).
  eapply Forall_impl; [|exact Hok]. intros v Hv. unfold ok32. rewrite Hv. reflexivity.
Qed.

(* ---- all five entry points with single / complete on NaN-free input whose
   entries are strictly below the max_value sentinel ---- *)
Lemma f64_eqb_refl_ok (x : PrimFloat.float) : ok64 x = true -> PrimFloat.eqb x x = true.
Proof.
  unfold ok64. intros H. rewrite eqb_equiv, Beqb_refl. rewrite <- is_nan_equiv. exact H.
Qed.

Lemma f32_eqb_refl_ok (x : f32) : ok32 x = true -> Beqb x x = true.
Proof. unfold ok32. intros H. rewrite Beqb_refl. exact H. Qed.

Theorem selection_total_wf_all_f64 (p : profile) (a : algo) (meth : method) s d (m : list PrimFloat.float) (n : N) :
  meth = Single \/ meth = Complete ->
  (n < two32)%N -> wf_shape n (N.of_nat (length m)) ->
  Forall (fun v => PrimFloat.ltb v (f_inf F64) = true) m ->
  (exists s' d' m', run_with F64 p a meth s d m n = Ok (s', d', m') /\ wf_dend (d_obs d') (d_steps d'))
  \/ run_with F64 p a meth s d m n = Panic PNaN.
Proof.
  intros Hm Hn Hs Hmax.
  apply (@selection_total_wf_carrier_all _ F64 ok64 eq_refl eq_refl f64_ltb_irrefl f64_ltb_trans
           ltac:(intros x y z Hx Hy Hz; apply f64_ltb_negtrans; unfold ok64 in *;
                 [destruct (PrimFloat.is_nan x)|destruct (PrimFloat.is_nan y)|destruct (PrimFloat.is_nan z)]; (reflexivity || discriminate))
           f64_eqb_refl_ok p a meth s d m n Hm Hn Hs); [|exact Hmax].
  eapply Forall_impl; [|exact Hmax]. intros v Hv. cbn beta in Hv. unfold ok64.
  rewrite ltb_equiv in Hv. rewrite is_nan_equiv. destruct (Bltb_true_not_nan _ _ _ _ Hv) as [-> _]. reflexivity.
Qed.

Theorem selection_total_wf_all_f32 (p : profile) (a : algo) (meth : method) s d (m : list f32) (n : N) :
  meth = Single \/ meth = Complete ->
  (n < two32)%N -> wf_shape n (N.of_nat (length m)) ->
  Forall (fun v => Bltb v (f_inf F32) = true) m ->
  (exists s' d' m', run_with F32 p a meth s d m n = Ok (s', d', m') /\ wf_dend (d_obs d') (d_steps d'))
  \/ run_with F32 p a meth s d m n = Panic PNaN.
Proof.
  intros Hm Hn Hs Hmax.
  apply (@selection_total_wf_carrier_all _ F32 ok32 eq_refl eq_refl (@Bltb_irrefl 24 128) (@Bltb_trans 24 128)
           ltac:(intros x y z Hx Hy Hz; apply (@Bltb_negtrans 24 128); unfold ok32 in *;
                 [destruct (BinarySingleNaN.is_nan x)|destruct (BinarySingleNaN.is_nan y)|destruct (BinarySingleNaN.is_nan z)]; (reflexivity || discriminate))
           f32_eqb_refl_ok p a meth s d m n Hm Hn Hs); [|exact Hmax].
  eapply Forall_impl; [|exact Hmax]. intros v Hv. cbn beta in Hv. unfold ok32.
  destruct (Bltb_true_not_nan _ _ _ _ Hv) as [-> _]. reflexivity.
Qed.

(* ---- C04 for Method::Single through nnchain, generic and primitive on the two
   float carriers: NaN-free input strictly below the max_value sentinel ---- *)
Theorem single_cuts_f64 (p : profile) (a : algo) s d (m : list PrimFloat.float) (n : N) s' d' m' M0 :
  a = ANnchain \/ a = AGeneric \/ a = APrimitive ->
  run_with F64 p a Single s d m n = Ok (s', d', m') ->
  prologue p m n = Ok M0 -> 1 <= m_obs M0 ->
  Forall (fun v => PrimFloat.ltb v (f_inf F64) = true) m ->
  forall t : PrimFloat.float, PrimFloat.is_nan t = false ->
  exists j, j <= m_obs M0 - 1 /\ cut_at (kops_of F64 Single) t j (heights d')
    /\ forall x y, x < m_obs M0 -> y < m_obs M0 ->
        (labi (m_obs M0) (d_steps d') j x = labi (m_obs M0) (d_steps d') j y
         <-> conn PrimFloat.ltb (dcell (kops_of F64 Single) M0) (seq 0 (m_obs M0)) t x y).
Proof.
  intros Ha Hrun HM0 Hn1 Hmax t Ht.
  apply (@single_cuts_carrier _ F64 ok64 eq_refl eq_refl f64_ltb_irrefl f64_ltb_trans
           ltac:(intros x y z Hx Hy Hz; apply f64_ltb_negtrans; unfold ok64 in *;
                 [destruct (PrimFloat.is_nan x)|destruct (PrimFloat.is_nan y)|destruct (PrimFloat.is_nan z)]; (reflexivity || discriminate))
           f64_eqb_not_lt f64_eqb_refl_ok p a s d m n s' d' m' M0 Ha Hrun HM0 Hn1).
  - eapply Forall_impl; [|exact Hmax]. intros v Hv. cbn beta in Hv. unfold ok64.
    rewrite ltb_equiv in Hv. rewrite is_nan_equiv. destruct (Bltb_true_not_nan _ _ _ _ Hv) as [-> _]. reflexivity.
  - exact Hmax.
  - unfold ok64. rewrite Ht. reflexivity.
Qed.

Theorem single_cuts_f32 (p : profile) (a : algo) s d (m : list f32) (n : N) s' d' m' M0 :
  a = ANnchain \/ a = AGeneric \/ a = APrimitive ->
  run_with F32 p a Single s d m n = Ok (s', d', m') ->
  prologue p m n = Ok M0 -> 1 <= m_obs M0 ->
  Forall (fun v => Bltb v (f_inf F32) = true) m ->
  forall t : f32, BinarySingleNaN.is_nan t = false ->
  exists j, j <= m_obs M0 - 1 /\ cut_at (kops_of F32 Single) t j (heights d')
    /\ forall x y, x < m_obs M0 -> y < m_obs M0 ->
        (labi (m_obs M0) (d_steps d') j x = labi (m_obs M0) (d_steps d') j y
         <-> conn (@Bltb 24 128) (dcell (kops_of F32 Single) M0) (seq 0 (m_obs M0)) t x y).
Proof.
  intros Ha Hrun HM0 Hn1 Hmax t Ht.
  apply (@single_cuts_carrier _ F32 ok32 eq_refl eq_refl (@Bltb_irrefl 24 128) (@Bltb_trans 24 128)
           ltac:(intros x y z Hx Hy Hz; apply (@Bltb_negtrans 24 128); unfold ok32 in *;
                 [destruct (BinarySingleNaN.is_nan x)|destruct (BinarySingleNaN.is_nan y)|destruct (BinarySingleNaN.is_nan z)]; (reflexivity || discriminate))
           (@Beqb_not_lt 24 128) f32_eqb_refl_ok p a s d m n s' d' m' M0 Ha Hrun HM0 Hn1).
  - eapply Forall_impl; [|exact Hmax]. intros v Hv. cbn beta in Hv. unfold ok32.
    destruct (Bltb_true_not_nan _ _ _ _ Hv) as [-> _]. reflexivity.
  - exact Hmax.
  - unfold ok32. rewrite Ht. reflexivity.
Qed.

(* ---- C04, second sentence on the two float carriers: for EVERY finite input (ties, any
   magnitude, f64::MAX / f32::MAX included) and each of the five entry points, the returned
   heights are - up to order, bit for bit - the edge weights of a spanning tree of the
   complete graph on the observations which has, at every threshold t (NaN included, where
   the claim is trivial), at least as many edges of weight <= t as any other spanning tree ---- *)
Theorem mst_weights_f64 (p : profile) (a : algo) s d (m : list PrimFloat.float) (n : N) s' d' m' M0 :
  run_with F64 p a Single s d m n = Ok (s', d', m') ->
  prologue p m n = Ok M0 -> 1 <= m_obs M0 ->
  Forall (fun v => PrimFloat.ltb v (f_inf F64) = true) m ->
  mst_weights PrimFloat.ltb (dcell (kops_of F64 Single) M0) (m_obs M0) (heights d').
Proof.
  intros Hrun HM0 Hn1 Hfin.
  apply (@mst_weights_carrier _ F64 ok64 eq_refl eq_refl f64_ltb_irrefl f64_ltb_trans
           ltac:(intros x y z Hx Hy Hz; apply f64_ltb_negtrans; unfold ok64 in *;
                 [destruct (PrimFloat.is_nan x)|destruct (PrimFloat.is_nan y)|destruct (PrimFloat.is_nan z)]; (reflexivity || discriminate))
           f64_eqb_not_lt f64_eqb_refl_ok p a s d m n s' d' m' M0 Hrun HM0 Hn1).
  - eapply Forall_impl; [|exact Hfin]. intros v Hv. apply lt_inf_ok64. exact Hv.
  - exact Hfin.
  - intros t Ht v. unfold ok64 in Ht. apply negb_false_iff in Ht. cbn [F64 f_ltb].
    rewrite ltb_equiv. rewrite is_nan_equiv in Ht. apply Bltb_nan_l. exact Ht.
Qed.

Theorem mst_weights_f32 (p : profile) (a : algo) s d (m : list f32) (n : N) s' d' m' M0 :
  run_with F32 p a Single s d m n = Ok (s', d', m') ->
  prologue p m n = Ok M0 -> 1 <= m_obs M0 ->
  Forall (fun v => Bltb v (f_inf F32) = true) m ->
  mst_weights (@Bltb 24 128) (dcell (kops_of F32 Single) M0) (m_obs M0) (heights d').
Proof.
  intros Hrun HM0 Hn1 Hfin.
  apply (@mst_weights_carrier _ F32 ok32 eq_refl eq_refl (@Bltb_irrefl 24 128) (@Bltb_trans 24 128)
           ltac:(intros x y z Hx Hy Hz; apply (@Bltb_negtrans 24 128); unfold ok32 in *;
                 [destruct (BinarySingleNaN.is_nan x)|destruct (BinarySingleNaN.is_nan y)|destruct (BinarySingleNaN.is_nan z)]; (reflexivity || discriminate))
           (@Beqb_not_lt 24 128) f32_eqb_refl_ok p a s d m n s' d' m' M0 Hrun HM0 Hn1).
  - eapply Forall_impl; [|exact Hfin]. intros v Hv. apply lt_inf_ok32. exact Hv.
  - exact Hfin.
  - intros t Ht v. unfold ok32 in Ht. apply negb_false_iff in Ht. cbn [F32 f_ltb]. apply Bltb_nan_l. exact Ht.
Qed.

(* ---- C06 for Method::Single on the two float carriers: any two of the five entry points,
   every finite input: when the heights returned by one are pairwise distinct, the other
   returns the same labels and sizes in the same step order, and heights that compare equal
   position by position ---- *)
Theorem single_same_dendrogram_f64 (p : profile) (a1 a2 : algo) s1 d1 s2 d2 (m : list PrimFloat.float) (n : N)
  sr1 dr1 mr1 sr2 dr2 mr2 M0 :
  (n < two32)%N ->
  run_with F64 p a1 Single s1 d1 m n = Ok (sr1, dr1, mr1) ->
  run_with F64 p a2 Single s2 d2 m n = Ok (sr2, dr2, mr2) ->
  prologue p m n = Ok M0 -> 1 <= m_obs M0 ->
  Forall (fun v => PrimFloat.ltb v (f_inf F64) = true) m ->
  strictly F64 (heights dr1) ->
  length (d_steps dr1) = length (d_steps dr2)
  /\ forall i t t', nth_error (d_steps dr1) i = Some t -> nth_error (d_steps dr2) i = Some t' ->
       s_c1 t = s_c1 t' /\ s_c2 t = s_c2 t' /\ s_size t = s_size t' /\ eqv PrimFloat.ltb (s_dis t) (s_dis t').
Proof.
  intros Hn32 H1 H2 HM0 Hn1 Hfin Hstrict.
  apply (@single_same_dendrogram_carrier _ F64 ok64 eq_refl eq_refl f64_ltb_irrefl f64_ltb_trans
           ltac:(intros x y z Hx Hy Hz; apply f64_ltb_negtrans; unfold ok64 in *;
                 [destruct (PrimFloat.is_nan x)|destruct (PrimFloat.is_nan y)|destruct (PrimFloat.is_nan z)]; (reflexivity || discriminate))
           f64_eqb_not_lt f64_eqb_refl_ok p a1 a2 s1 d1 s2 d2 m n sr1 dr1 mr1 sr2 dr2 mr2 M0 Hn32 H1 H2 HM0 Hn1).
  - eapply Forall_impl; [|exact Hfin]. intros v Hv. apply lt_inf_ok64. exact Hv.
  - exact Hfin.
  - exact Hstrict.
Qed.

Theorem single_same_dendrogram_f32 (p : profile) (a1 a2 : algo) s1 d1 s2 d2 (m : list f32) (n : N)
  sr1 dr1 mr1 sr2 dr2 mr2 M0 :
  (n < two32)%N ->
  run_with F32 p a1 Single s1 d1 m n = Ok (sr1, dr1, mr1) ->
  run_with F32 p a2 Single s2 d2 m n = Ok (sr2, dr2, mr2) ->
  prologue p m n = Ok M0 -> 1 <= m_obs M0 ->
  Forall (fun v => Bltb v (f_inf F32) = true) m ->
  strictly F32 (heights dr1) ->
  length (d_steps dr1) = length (d_steps dr2)
  /\ forall i t t', nth_error (d_steps dr1) i = Some t -> nth_error (d_steps dr2) i = Some t' ->
       s_c1 t = s_c1 t' /\ s_c2 t = s_c2 t' /\ s_size t = s_size t' /\ eqv (@Bltb 24 128) (s_dis t) (s_dis t').
Proof.
  intros Hn32 H1 H2 HM0 Hn1 Hfin Hstrict.
  apply (@single_same_dendrogram_carrier _ F32 ok32 eq_refl eq_refl (@Bltb_irrefl 24 128) (@Bltb_trans 24 128)
           ltac:(intros x y z Hx Hy Hz; apply (@Bltb_negtrans 24 128); unfold ok32 in *;
                 [destruct (BinarySingleNaN.is_nan x)|destruct (BinarySingleNaN.is_nan y)|destruct (BinarySingleNaN.is_nan z)]; (reflexivity || discriminate))
           (@Beqb_not_lt 24 128) f32_eqb_refl_ok p a1 a2 s1 d1 s2 d2 m n sr1 dr1 mr1 sr2 dr2 mr2 M0 Hn32 H1 H2 HM0 Hn1).
  - eapply Forall_impl; [|exact Hfin]. intros v Hv. apply lt_inf_ok32. exact Hv.
  - exact Hfin.
  - exact Hstrict.
Qed.

(* ---- C03 for Method::Single on the two float carriers, every entry point, every finite input ---- *)
Theorem single_replay_greedy_f64 (p : profile) (a : algo) s d (m : list PrimFloat.float) (n : N) s' d' m' M0 :
  (n < two32)%N ->
  run_with F64 p a Single s d m n = Ok (s', d', m') ->
  prologue p m n = Ok M0 -> 1 <= m_obs M0 ->
  Forall (fun v => PrimFloat.ltb v (f_inf F64) = true) m ->
  (forall j t, nth_error (d_steps d') j = Some t ->
     forall x y, x < m_obs M0 -> y < m_obs M0 ->
       labi (m_obs M0) (d_steps d') j x <> labi (m_obs M0) (d_steps d') j y ->
       PrimFloat.ltb (dcell (kops_of F64 Single) M0 x y) (s_dis t) = false)
  /\ (strictly F64 (heights d') ->
      forall j t, nth_error (d_steps d') j = Some t ->
      exists x y, x < m_obs M0 /\ y < m_obs M0
        /\ labi (m_obs M0) (d_steps d') j x = s_c1 t /\ labi (m_obs M0) (d_steps d') j y = s_c2 t
        /\ PrimFloat.ltb (s_dis t) (dcell (kops_of F64 Single) M0 x y) = false).
Proof.
  intros Hn32 H HM0 Hn1 Hfin.
  apply (@single_replay_greedy_carrier _ F64 ok64 eq_refl eq_refl f64_ltb_irrefl f64_ltb_trans
           ltac:(intros x y z Hx Hy Hz; apply f64_ltb_negtrans; unfold ok64 in *;
                 [destruct (PrimFloat.is_nan x)|destruct (PrimFloat.is_nan y)|destruct (PrimFloat.is_nan z)]; (reflexivity || discriminate))
           f64_eqb_not_lt f64_eqb_refl_ok p a s d m n s' d' m' M0 Hn32 H HM0 Hn1).
  - eapply Forall_impl; [|exact Hfin]. intros v Hv. apply lt_inf_ok64. exact Hv.
  - exact Hfin.
Qed.

Theorem single_replay_greedy_f32 (p : profile) (a : algo) s d (m : list f32) (n : N) s' d' m' M0 :
  (n < two32)%N ->
  run_with F32 p a Single s d m n = Ok (s', d', m') ->
  prologue p m n = Ok M0 -> 1 <= m_obs M0 ->
  Forall (fun v => Bltb v (f_inf F32) = true) m ->
  (forall j t, nth_error (d_steps d') j = Some t ->
     forall x y, x < m_obs M0 -> y < m_obs M0 ->
       labi (m_obs M0) (d_steps d') j x <> labi (m_obs M0) (d_steps d') j y ->
       Bltb (dcell (kops_of F32 Single) M0 x y) (s_dis t) = false)
  /\ (strictly F32 (heights d') ->
      forall j t, nth_error (d_steps d') j = Some t ->
      exists x y, x < m_obs M0 /\ y < m_obs M0
        /\ labi (m_obs M0) (d_steps d') j x = s_c1 t /\ labi (m_obs M0) (d_steps d') j y = s_c2 t
        /\ Bltb (s_dis t) (dcell (kops_of F32 Single) M0 x y) = false).
Proof.
  intros Hn32 H HM0 Hn1 Hfin.
  apply (@single_replay_greedy_carrier _ F32 ok32 eq_refl eq_refl (@Bltb_irrefl 24 128) (@Bltb_trans 24 128)
           ltac:(intros x y z Hx Hy Hz; apply (@Bltb_negtrans 24 128); unfold ok32 in *;
                 [destruct (BinarySingleNaN.is_nan x)|destruct (BinarySingleNaN.is_nan y)|destruct (BinarySingleNaN.is_nan z)]; (reflexivity || discriminate))
           (@Beqb_not_lt 24 128) f32_eqb_refl_ok p a s d m n s' d' m' M0 Hn32 H HM0 Hn1).
  - eapply Forall_impl; [|exact Hfin]. intros v Hv. apply lt_inf_ok32. exact Hv.
  - exact Hfin.
Qed.

(* ---- C07, observable consequence, Method::Single, every entry point, both float carriers ---- *)
Theorem single_first_step_probe_f64 (p : profile) (a0 : algo) s d (m : list PrimFloat.float) (n : N) s' d' m' M0 (a b : nat) :
  (n < two32)%N ->
  run_with F64 p a0 Single s d m n = Ok (s', d', m') ->
  prologue p m n = Ok M0 ->
  Forall (fun v => f_ltb F64 v (f_inf F64) = true) m ->
  a < b -> b < m_obs M0 ->
  (forall x y, x < y -> y < m_obs M0 -> ~ (x = a /\ y = b) ->
     f_ltb F64 (dcell (kops_of F64 Single) M0 a b) (dcell (kops_of F64 Single) M0 x y) = true) ->
  exists t, nth_error (d_steps d') 0 = Some t /\ s_c1 t = a /\ s_c2 t = b
    /\ eqv (f_ltb F64) (s_dis t) (dcell (kops_of F64 Single) M0 a b).
Proof.
  intros Hn32 H HM0 Hfin Hab Hb Hmin.
  apply (@single_first_step_probe_carrier _ F64 ok64 eq_refl eq_refl f64_ltb_irrefl f64_ltb_trans
           ltac:(intros x y z Hx Hy Hz; apply f64_ltb_negtrans; unfold ok64 in *;
                 [destruct (PrimFloat.is_nan x)|destruct (PrimFloat.is_nan y)|destruct (PrimFloat.is_nan z)]; (reflexivity || discriminate))
           f64_eqb_not_lt f64_eqb_refl_ok p a0 s d m n s' d' m' M0 a b Hn32 H HM0); try assumption.
  eapply Forall_impl; [|exact Hfin]. intros v Hv. apply lt_inf_ok64. exact Hv.
Qed.

Theorem single_second_step_probe_f64 (p : profile) (a0 : algo) s d (m : list PrimFloat.float) (n : N) s' d' m' M0 (a b c e : nat) :
  (n < two32)%N ->
  run_with F64 p a0 Single s d m n = Ok (s', d', m') ->
  prologue p m n = Ok M0 ->
  Forall (fun v => f_ltb F64 v (f_inf F64) = true) m ->
  a < b -> b < m_obs M0 -> c < e -> e < m_obs M0 -> ~ (c = a /\ e = b) ->
  (forall x y, x < y -> y < m_obs M0 -> ~ (x = a /\ y = b) ->
     f_ltb F64 (dcell (kops_of F64 Single) M0 a b) (dcell (kops_of F64 Single) M0 x y) = true) ->
  (forall x y, x < y -> y < m_obs M0 -> ~ ((x = a /\ y = b) \/ (x = c /\ y = e)) ->
     f_ltb F64 (dcell (kops_of F64 Single) M0 c e) (dcell (kops_of F64 Single) M0 x y) = true) ->
  exists t1, nth_error (d_steps d') 1 = Some t1
    /\ labi (m_obs M0) (d_steps d') 1 c <> labi (m_obs M0) (d_steps d') 1 e
    /\ labi (m_obs M0) (d_steps d') 2 c = labi (m_obs M0) (d_steps d') 2 e
    /\ ((s_c1 t1 = labi (m_obs M0) (d_steps d') 1 c /\ s_c2 t1 = labi (m_obs M0) (d_steps d') 1 e)
        \/ (s_c1 t1 = labi (m_obs M0) (d_steps d') 1 e /\ s_c2 t1 = labi (m_obs M0) (d_steps d') 1 c))
    /\ eqv (f_ltb F64) (s_dis t1) (dcell (kops_of F64 Single) M0 c e).
Proof.
  intros Hn32 H HM0 Hfin Hab Hb Hce He Hne Hmin Hmin2.
  apply (@single_second_step_probe_carrier _ F64 ok64 eq_refl eq_refl f64_ltb_irrefl f64_ltb_trans
           ltac:(intros x y z Hx Hy Hz; apply f64_ltb_negtrans; unfold ok64 in *;
                 [destruct (PrimFloat.is_nan x)|destruct (PrimFloat.is_nan y)|destruct (PrimFloat.is_nan z)]; (reflexivity || discriminate))
           f64_eqb_not_lt f64_eqb_refl_ok p a0 s d m n s' d' m' M0 a b c e Hn32 H HM0); try assumption.
  eapply Forall_impl; [|exact Hfin]. intros v Hv. apply lt_inf_ok64. exact Hv.
Qed.

Theorem single_first_step_probe_f32 (p : profile) (a0 : algo) s d (m : list f32) (n : N) s' d' m' M0 (a b : nat) :
  (n < two32)%N ->
  run_with F32 p a0 Single s d m n = Ok (s', d', m') ->
  prologue p m n = Ok M0 ->
  Forall (fun v => f_ltb F32 v (f_inf F32) = true) m ->
  a < b -> b < m_obs M0 ->
  (forall x y, x < y -> y < m_obs M0 -> ~ (x = a /\ y = b) ->
     f_ltb F32 (dcell (kops_of F32 Single) M0 a b) (dcell (kops_of F32 Single) M0 x y) = true) ->
  exists t, nth_error (d_steps d') 0 = Some t /\ s_c1 t = a /\ s_c2 t = b
    /\ eqv (f_ltb F32) (s_dis t) (dcell (kops_of F32 Single) M0 a b).
Proof.
  intros Hn32 H HM0 Hfin Hab Hb Hmin.
  apply (@single_first_step_probe_carrier _ F32 ok32 eq_refl eq_refl (@Bltb_irrefl 24 128) (@Bltb_trans 24 128)
           ltac:(intros x y z Hx Hy Hz; apply (@Bltb_negtrans 24 128); unfold ok32 in *;
                 [destruct (BinarySingleNaN.is_nan x)|destruct (BinarySingleNaN.is_nan y)|destruct (BinarySingleNaN.is_nan z)]; (reflexivity || discriminate))
           (@Beqb_not_lt 24 128) f32_eqb_refl_ok p a0 s d m n s' d' m' M0 a b Hn32 H HM0); try assumption.
  eapply Forall_impl; [|exact Hfin]. intros v Hv. apply lt_inf_ok32. exact Hv.
Qed.

Theorem single_second_step_probe_f32 (p : profile) (a0 : algo) s d (m : list f32) (n : N) s' d' m' M0 (a b c e : nat) :
  (n < two32)%N ->
  run_with F32 p a0 Single s d m n = Ok (s', d', m') ->
  prologue p m n = Ok M0 ->
  Forall (fun v => f_ltb F32 v (f_inf F32) = true) m ->
  a < b -> b < m_obs M0 -> c < e -> e < m_obs M0 -> ~ (c = a /\ e = b) ->
  (forall x y, x < y -> y < m_obs M0 -> ~ (x = a /\ y = b) ->
     f_ltb F32 (dcell (kops_of F32 Single) M0 a b) (dcell (kops_of F32 Single) M0 x y) = true) ->
  (forall x y, x < y -> y < m_obs M0 -> ~ ((x = a /\ y = b) \/ (x = c /\ y = e)) ->
     f_ltb F32 (dcell (kops_of F32 Single) M0 c e) (dcell (kops_of F32 Single) M0 x y) = true) ->
  exists t1, nth_error (d_steps d') 1 = Some t1
    /\ labi (m_obs M0) (d_steps d') 1 c <> labi (m_obs M0) (d_steps d') 1 e
    /\ labi (m_obs M0) (d_steps d') 2 c = labi (m_obs M0) (d_steps d') 2 e
    /\ ((s_c1 t1 = labi (m_obs M0) (d_steps d') 1 c /\ s_c2 t1 = labi (m_obs M0) (d_steps d') 1 e)
        \/ (s_c1 t1 = labi (m_obs M0) (d_steps d') 1 e /\ s_c2 t1 = labi (m_obs M0) (d_steps d') 1 c))
    /\ eqv (f_ltb F32) (s_dis t1) (dcell (kops_of F32 Single) M0 c e).
Proof.
  intros Hn32 H HM0 Hfin Hab Hb Hce He Hne Hmin Hmin2.
  apply (@single_second_step_probe_carrier _ F32 ok32 eq_refl eq_refl (@Bltb_irrefl 24 128) (@Bltb_trans 24 128)
           ltac:(intros x y z Hx Hy Hz; apply (@Bltb_negtrans 24 128); unfold ok32 in *;
                 [destruct (BinarySingleNaN.is_nan x)|destruct (BinarySingleNaN.is_nan y)|destruct (BinarySingleNaN.is_nan z)]; (reflexivity || discriminate))
           (@Beqb_not_lt 24 128) f32_eqb_refl_ok p a0 s d m n s' d' m' M0 a b c e Hn32 H HM0); try assumption.
  eapply Forall_impl; [|exact Hfin]. intros v Hv. apply lt_inf_ok32. exact Hv.
Qed.
