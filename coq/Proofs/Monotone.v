(* C05: every Ok result of every entry point for a sorting method has
   non-decreasing heights. *)
Require Import KV.Model.Prelude KV.Model.Condensed KV.Model.Active KV.Model.Heap
  KV.Model.UnionFind KV.Model.Dendrogram KV.Model.Methods KV.Model.State
  KV.Model.Primitive KV.Model.Mst KV.Model.Chain KV.Model.Generic KV.Model.Linkage
  KV.Proofs.SortProofs.
From Coq Require Import Sorting.Permutation Sorting.Sorted.

Set Implicit Arguments.

Ltac bind_inv H :=
  match type of H with
  | bind ?x _ = Ok _ =>
      let E := fresh "E" in
      destruct x eqn:E; cbn [bind] in H; [|discriminate H|discriminate H]
  end.

Section Monotone.
Variable T : Type.
Variable K : kops T.
Variable p : profile.

Notation ltb := (k_ltb K).
Notation eqb := (k_eqb K).

Definition le_t (x y : T) : Prop :=
  pcmp ltb eqb x y = Some Lt \/ pcmp ltb eqb x y = Some Eq.

Lemma gt_flip (a b : T) : pcmp ltb eqb a b = Some Gt -> pcmp ltb eqb b a = Some Lt.
Proof.
  unfold pcmp. destruct (ltb a b); [discriminate|]. destruct (eqb a b); [discriminate|].
  destruct (ltb b a); [reflexivity|discriminate].
Qed.

Lemma sorted_heights (l : list (step T)) :
  Sorted (le_step ltb eqb) l -> Sorted le_t (map (@s_dis T) l).
Proof.
  induction 1 as [|x l Hs IH Hd]; cbn; constructor; [exact IH|].
  destruct Hd; cbn; constructor. assumption.
Qed.

(* what relabel + post-pass deliver *)
Lemma relabel_sorted (u u' : ufind) (d d' : dend T) :
  relabel ltb eqb u d true = Ok (u', d') -> Sorted le_t (heights d').
Proof.
  intros H. destruct (relabel_heights _ _ _ _ _ H) as [_ (l & Hl & Hh)]. rewrite Hh.
  apply sorted_heights. eapply (@sort_steps_ok T ltb eqb gt_flip). exact Hl.
Qed.

Lemma step_set_dis_id (s : step T) : step_set_dis s (s_dis s) = s.
Proof. destruct s; reflexivity. Qed.

Lemma heights_sqrt_all (d : dend T) : heights (sqrt_all K d) = map (k_rt K) (heights d).
Proof. unfold heights, sqrt_all. cbn [d_steps]. rewrite !map_map. reflexivity. Qed.

(* monotone post-pass (identity, or sqrt on the values that occur) *)
Hypothesis rt_mono : forall x y, le_t x y -> le_t (k_rt K x) (k_rt K y).

Lemma sorted_map_rt (l : list T) : Sorted le_t l -> Sorted le_t (map (k_rt K) l).
Proof.
  induction 1 as [|x l Hs IH Hd]; cbn; constructor; [exact IH|].
  destruct Hd; cbn; constructor. apply rt_mono. assumption.
Qed.

Lemma empty_sorted (d : dend T) : d_steps d = [] -> Sorted le_t (heights d).
Proof. intros E. unfold heights. rewrite E. constructor. Qed.

Theorem primitive_monotone meth s d m n s' d' m' :
  requires_sorting meth = true ->
  primitive_with K p meth s d m n = Ok (s', d', m') -> Sorted le_t (heights d').
Proof.
  intros Hs H. unfold primitive_with in H. bind_inv H.
  destruct (m_obs a =? 0); [inversion H; subst; apply empty_sorted; reflexivity|].
  bind_inv H. destruct a0 as [[s1 d1] M1]. rewrite Hs in H. bind_inv H. destruct a0 as [u d2].
  inversion H; subst. rewrite heights_sqrt_all. apply sorted_map_rt. eapply relabel_sorted. eassumption.
Qed.

Theorem mst_monotone s d m n s' d' m' :
  mst_with K p s d m n = Ok (s', d', m') -> Sorted le_t (heights d').
Proof.
  intros H. unfold mst_with in H. bind_inv H.
  destruct (m_obs a =? 0); [inversion H; subst; apply empty_sorted; reflexivity|].
  bind_inv H. bind_inv H. destruct a1 as [[s1 d1] c1]. bind_inv H. destruct a1 as [u d2].
  inversion H; subst. eapply relabel_sorted. eassumption.
Qed.

Theorem nnchain_monotone meth s d m n s' d' m' :
  requires_sorting meth = true ->
  nnchain_with K p meth s d m n = Ok (s', d', m') -> Sorted le_t (heights d').
Proof.
  intros Hs H. unfold nnchain_with in H. bind_inv H.
  destruct (m_obs a =? 0); [inversion H; subst; apply empty_sorted; reflexivity|].
  bind_inv H. destruct a0 as [[s1 d1] M1]. rewrite Hs in H. bind_inv H. destruct a0 as [u d2].
  inversion H; subst. rewrite heights_sqrt_all. apply sorted_map_rt. eapply relabel_sorted. eassumption.
Qed.

Theorem generic_monotone meth s d m n s' d' m' :
  requires_sorting meth = true ->
  generic_with K p meth s d m n = Ok (s', d', m') -> Sorted le_t (heights d').
Proof.
  intros Hs H. unfold generic_with in H. bind_inv H.
  destruct (m_obs a =? 0); [inversion H; subst; apply empty_sorted; reflexivity|].
  bind_inv H. destruct a0 as [dists nearest]. bind_inv H. bind_inv H. destruct a1 as [[s2 d1] M1].
  rewrite Hs in H. bind_inv H. destruct a1 as [u d2].
  inversion H; subst. rewrite heights_sqrt_all. apply sorted_map_rt. eapply relabel_sorted. eassumption.
Qed.

(* the same when the post-pass is monotone only between values whose images satisfy P
   (IEEE sqrt: P = "is not NaN" - the root of a negative squared height is NaN) *)
Section On.
Variable P : T -> Prop.
Hypothesis rt_mono_on : forall x y, P (k_rt K x) -> P (k_rt K y) -> le_t x y -> le_t (k_rt K x) (k_rt K y).

Lemma sorted_map_rt_on (l : list T) : Sorted le_t l -> Forall P (map (k_rt K) l) -> Sorted le_t (map (k_rt K) l).
Proof.
  induction 1 as [|x l Hs IH Hd]; cbn [map]; intros HP; constructor.
  - apply IH. inversion HP; assumption.
  - destruct Hd as [|y l Hxy]; cbn [map]; constructor. inversion HP as [|? ? Px HP']; subst. inversion HP'; subst.
    apply rt_mono_on; assumption.
Qed.

Theorem primitive_monotone_on meth s d m n s' d' m' :
  requires_sorting meth = true ->
  primitive_with K p meth s d m n = Ok (s', d', m') -> Forall P (heights d') -> Sorted le_t (heights d').
Proof.
  intros Hs H. unfold primitive_with in H. bind_inv H.
  destruct (m_obs a =? 0); [inversion H; subst; intros _; apply empty_sorted; reflexivity|].
  bind_inv H. destruct a0 as [[s1 d1] M1]. rewrite Hs in H. bind_inv H. destruct a0 as [u d2].
  inversion H; subst. rewrite heights_sqrt_all. apply sorted_map_rt_on. eapply relabel_sorted. eassumption.
Qed.

Theorem nnchain_monotone_on meth s d m n s' d' m' :
  requires_sorting meth = true ->
  nnchain_with K p meth s d m n = Ok (s', d', m') -> Forall P (heights d') -> Sorted le_t (heights d').
Proof.
  intros Hs H. unfold nnchain_with in H. bind_inv H.
  destruct (m_obs a =? 0); [inversion H; subst; intros _; apply empty_sorted; reflexivity|].
  bind_inv H. destruct a0 as [[s1 d1] M1]. rewrite Hs in H. bind_inv H. destruct a0 as [u d2].
  inversion H; subst. rewrite heights_sqrt_all. apply sorted_map_rt_on. eapply relabel_sorted. eassumption.
Qed.

Theorem generic_monotone_on meth s d m n s' d' m' :
  requires_sorting meth = true ->
  generic_with K p meth s d m n = Ok (s', d', m') -> Forall P (heights d') -> Sorted le_t (heights d').
Proof.
  intros Hs H. unfold generic_with in H. bind_inv H.
  destruct (m_obs a =? 0); [inversion H; subst; intros _; apply empty_sorted; reflexivity|].
  bind_inv H. destruct a0 as [dists nearest]. bind_inv H. bind_inv H. destruct a1 as [[s2 d1] M1].
  rewrite Hs in H. bind_inv H. destruct a1 as [u d2].
  inversion H; subst. rewrite heights_sqrt_all. apply sorted_map_rt_on. eapply relabel_sorted. eassumption.
Qed.
End On.

(* centroid and median: emitted in merge order - relabel does not sort *)
Theorem unsorted_methods_keep_order (u u' : ufind) (d d' : dend T) :
  relabel ltb eqb u d false = Ok (u', d') -> heights d' = heights d.
Proof. intros H. exact (proj2 (relabel_heights _ _ _ _ _ H)). Qed.

End Monotone.
