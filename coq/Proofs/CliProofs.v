(* C18: logic of the locations tool. *)
Require Import KV.Model.Prelude KV.Model.Methods KV.Model.Cli KV.Model.Condensed
  KV.Spec.Pairs KV.Proofs.CondensedIdx.
From Coq Require Import String.

(* the tool's matrix layout is the library's layout, for every n *)
Theorem cli_pairs_rowmajor (n : nat) : cli_pairs n = pairs n.
Proof.
  unfold cli_pairs, pairs. apply flat_map_ext. intros i. unfold row_pairs.
  replace (i + 1) with (S i) by lia. replace (n - S i) with (n - 1 - i) by lia. reflexivity.
Qed.

Corollary cli_slot (n r c : nat) : r < c -> c < n ->
  nth_error (cli_pairs n) (cidx_nat n r c) = Some (r, c).
Proof. intros. rewrite cli_pairs_rowmajor. apply cidx_is_position; assumption. Qed.

Local Open Scope N_scope.

Lemma le_value_bytes (k : nat) (w : N) : w < 256 ^ N.of_nat k -> le_value (le_bytes k w) = w.
Proof.
  revert w. induction k as [|k IH]; intros w Hw.
  - cbn in *. lia.
  - cbn [le_bytes le_value]. rewrite IH.
    + pose proof (N.div_mod w 256 ltac:(lia)). lia.
    + rewrite Nat2N.inj_succ, N.pow_succ_r' in Hw.
      apply N.div_lt_upper_bound; lia.
Qed.

Lemma le_bytes_length k w : List.length (le_bytes k w) = k.
Proof. revert w; induction k; intros; cbn; auto. Qed.

Lemma le_bytes_range k w : Forall (fun b => b < 256) (le_bytes k w).
Proof.
  revert w; induction k as [|k IH]; intros w; cbn; constructor; [|apply IH].
  apply N.mod_lt. lia.
Qed.

Lemma encode_length ws : List.length (encode_le ws) = (8 * List.length ws)%nat.
Proof.
  induction ws as [|w ws IH]; [reflexivity|].
  unfold encode_le in *. cbn [flat_map]. rewrite app_length, le_bytes_length, IH. cbn [List.length]. lia.
Qed.

Lemma decode_chunks_cons f (bs : list N) : bs <> [] ->
  decode_chunks (S f) bs = le_value (firstn 8 bs) :: decode_chunks f (skipn 8 bs).
Proof. destruct bs; [contradiction|reflexivity]. Qed.

Lemma decode_chunks_encode ws : forall fuel, (List.length ws <= fuel)%nat ->
  Forall (fun w => w < 2 ^ 64) ws -> decode_chunks fuel (encode_le ws) = ws.
Proof.
  induction ws as [|w ws IH]; intros fuel Hf Hr.
  - destruct fuel; reflexivity.
  - destruct fuel as [|fuel]; [cbn in Hf; lia|].
    unfold encode_le in *. cbn [flat_map]. inversion Hr; subst.
    rewrite decode_chunks_cons.
    + rewrite firstn_app, le_bytes_length, Nat.sub_diag, firstn_O, app_nil_r.
      rewrite firstn_all2 by (rewrite le_bytes_length; lia).
      rewrite skipn_app, le_bytes_length, Nat.sub_diag, skipn_O.
      rewrite skipn_all2 by (rewrite le_bytes_length; lia). cbn [app].
      rewrite le_value_bytes by (change (256 ^ N.of_nat 8) with (2 ^ 64); assumption).
      f_equal. apply IH; [cbn in Hf; lia|assumption].
    + intros E. apply (f_equal (@List.length N)) in E. rewrite app_length, le_bytes_length in E. cbn in E. lia.
Qed.

(* --save-dist-to followed by --load-dist-from reproduces every 64-bit word *)
Theorem le_roundtrip (ws : list N) :
  Forall (fun w => w < 2 ^ 64) ws -> decode_le (encode_le ws) = Some ws.
Proof.
  intros Hr. unfold decode_le. rewrite encode_length.
  replace (N.of_nat (8 * List.length ws)) with (N.of_nat (List.length ws) * 8) by lia.
  rewrite N.mod_mul by lia. cbn [N.eqb]. f_equal.
  apply decode_chunks_encode; [lia|exact Hr].
Qed.

Theorem decode_rejects_ragged (bs : list N) :
  N.of_nat (List.length bs) mod 8 <> 0 -> decode_le bs = None.
Proof.
  intros H. unfold decode_le. destruct (N.eqb_spec (N.of_nat (List.length bs) mod 8) 0); [contradiction|reflexivity].
Qed.

Local Close Scope N_scope.
Local Open Scope string_scope.

Definition method_name_lc (m : method) : string :=
  match m with
  | Single => "single" | Complete => "complete" | Average => "average" | Weighted => "weighted"
  | Ward => "ward" | Centroid => "centroid" | Median => "median"
  end.

(* a name is accepted iff it is exactly one of the seven names, and then it
   denotes that method; everything else is an error *)
Theorem method_parse (s : string) (m : method) : parse_method s = Some m <-> s = method_name_lc m.
Proof.
  unfold parse_method, method_names. cbn [assoc_str]. split.
  - repeat (match goal with |- context [String.eqb s ?k] => destruct (String.eqb_spec s k) as [->|] end;
            [intros H; inversion H; reflexivity|]).
    discriminate.
  - intros ->. destruct m; reflexivity.
Qed.

Theorem invalid_method_exits_nonzero (s : string) :
  (forall m, s <> method_name_lc m) -> exit_status (Some s) = 1.
Proof.
  intros H. unfold exit_status, cli_method. destruct (parse_method s) as [m|] eqn:E; [|reflexivity].
  apply method_parse in E. exfalso. exact (H m E).
Qed.

Theorem valid_method_exits_zero (m : method) : exit_status (Some (method_name_lc m)) = 0.
Proof. destruct m; reflexivity. Qed.
