(* A well-formed stepwise dendrogram (SciPy label convention) is determined by
   the partitions of the observations obtained after each prefix of its steps:
   two well-formed dendrograms with the same prefix partitions have the same
   labels and sizes at every step. Used for C06: entry points whose results
   induce the same partitions return the same labelled dendrogram. *)
Require Import KV.Model.Prelude KV.Model.Dendrogram KV.Proofs.RelabelWF.

Set Implicit Arguments.

Section Unique.
Variable T : Type.
Variable n : nat.

Definition live (D : list (step T)) (j l : nat) : Prop :=
  l < n + j /\ forall i t, i < j -> nth_error D i = Some t -> s_c1 t <> l /\ s_c2 t <> l.

Lemma wf_live (D : list (step T)) j t : wf_dend n D -> nth_error D j = Some t ->
  live D j (s_c1 t) /\ live D j (s_c2 t) /\ s_c1 t < s_c2 t.
Proof.
  intros [_ Hwf] Ht. destruct (Hwf j t Ht) as (H1 & H2 & H3 & _).
  split; [|split; [|exact H1]].
  - split; [lia|]. intros i t' Hi Ht'. destruct (H3 i t' Hi Ht') as (A & B & _ & _). split; assumption.
  - split; [lia|]. intros i t' Hi Ht'. destruct (H3 i t' Hi Ht') as (_ & _ & A & B). split; assumption.
Qed.

(* every live label has a member *)
Lemma live_member (D : list (step T)) : wf_dend n D ->
  forall j, j <= length D -> forall l, live D j l -> exists x, x < n /\ labi n D j x = l.
Proof.
  intros Hwf. induction j as [|j IH]; intros Hj l [Hl Hnu].
  - exists l. split; [lia|reflexivity].
  - destruct (nth_error D j) as [t|] eqn:Ht; [|apply nth_error_None in Ht; lia].
    destruct (@wf_live D j t Hwf Ht) as (L1 & L2 & Hlt).
    destruct (Nat.eq_dec l (n + j)) as [->|Hne].
    + destruct (IH ltac:(lia) _ L1) as (x & Hx & Ex). exists x. split; [exact Hx|].
      cbn [labi]. rewrite Ht, Ex, Nat.eqb_refl. reflexivity.
    + assert (Hl' : live D j l).
      { split; [lia|]. intros i t' Hi Ht'. apply (Hnu i t'); [lia|exact Ht']. }
      destruct (IH ltac:(lia) _ Hl') as (x & Hx & Ex). exists x. split; [exact Hx|].
      cbn [labi]. rewrite Ht, Ex. destruct (Hnu j t ltac:(lia) Ht) as [N1 N2].
      destruct (Nat.eqb_spec l (s_c1 t)); [congruence|]. destruct (Nat.eqb_spec l (s_c2 t)); [congruence|]. reflexivity.
Qed.

Definition same_parts (D D' : list (step T)) : Prop :=
  forall j x y, j <= n - 1 -> x < n -> y < n ->
    (labi n D j x = labi n D j y <-> labi n D' j x = labi n D' j y).

Lemma labels_agree (D D' : list (step T)) : wf_dend n D -> wf_dend n D' -> same_parts D D' ->
  forall j, j <= n - 1 ->
    (forall x, x < n -> labi n D j x = labi n D' j x)
    /\ (forall i t t', i < j -> nth_error D i = Some t -> nth_error D' i = Some t' ->
          s_c1 t = s_c1 t' /\ s_c2 t = s_c2 t').
Proof.
  intros Hwf Hwf' Hsame. induction j as [|j IH]; intros Hj.
  - split; [intros; reflexivity|intros; lia].
  - destruct (IH ltac:(lia)) as [IHl IHs].
    destruct Hwf as [Hlen Hw]. destruct Hwf' as [Hlen' Hw'].
    destruct (nth_error D j) as [t|] eqn:Ht; [|apply nth_error_None in Ht; lia].
    destruct (nth_error D' j) as [t'|] eqn:Ht'; [|apply nth_error_None in Ht'; lia].
    destruct (@wf_live D j t (conj Hlen Hw) Ht) as (L1 & L2 & Hlt).
    destruct (@wf_live D' j t' (conj Hlen' Hw') Ht') as (L1' & L2' & Hlt').
    destruct (@live_member D (conj Hlen Hw) j ltac:(lia) _ L1) as (x & Hx & Ex).
    destruct (@live_member D (conj Hlen Hw) j ltac:(lia) _ L2) as (y & Hy & Ey).
    assert (Hxy : labi n D (S j) x = labi n D (S j) y).
    { cbn [labi]. rewrite Ht, Ex, Ey, !Nat.eqb_refl, orb_true_r. reflexivity. }
    apply (Hsame (S j) x y Hj Hx Hy) in Hxy. cbn [labi] in Hxy. rewrite Ht', <- (IHl x Hx), <- (IHl y Hy), Ex, Ey in Hxy.
    destruct L1 as [B1 _], L2 as [B2 _].
    assert (Hc : s_c1 t = s_c1 t' /\ s_c2 t = s_c2 t').
    { destruct (Nat.eqb_spec (s_c1 t) (s_c1 t')), (Nat.eqb_spec (s_c1 t) (s_c2 t')),
        (Nat.eqb_spec (s_c2 t) (s_c1 t')), (Nat.eqb_spec (s_c2 t) (s_c2 t')); cbn [orb] in Hxy; lia. }
    split.
    + intros z Hz. cbn [labi]. rewrite Ht, Ht', (IHl z Hz). destruct Hc as [-> ->]. reflexivity.
    + intros i u u' Hi Hu Hu'. destruct (Nat.eq_dec i j) as [->|Hne].
      * rewrite Ht in Hu. rewrite Ht' in Hu'. inversion Hu; inversion Hu'; subst. exact Hc.
      * apply (IHs i u u'); [lia|exact Hu|exact Hu'].
Qed.

Theorem dend_unique (D D' : list (step T)) : 1 <= n -> wf_dend n D -> wf_dend n D' -> same_parts D D' ->
  forall i t t', nth_error D i = Some t -> nth_error D' i = Some t' ->
    s_c1 t = s_c1 t' /\ s_c2 t = s_c2 t' /\ s_size t = s_size t'.
Proof.
  intros Hn Hwf Hwf' Hsame.
  assert (Hlab : forall i t t', nth_error D i = Some t -> nth_error D' i = Some t' -> s_c1 t = s_c1 t' /\ s_c2 t = s_c2 t').
  { intros i t t' Ht Ht'. assert (Hi : i < length D) by (apply nth_error_Some; congruence).
    destruct Hwf as [Hlen Hw]. destruct (@labels_agree D D' (conj Hlen Hw) Hwf' Hsame (S i) ltac:(lia)) as [_ Hs].
    apply (Hs i t t'); [lia|exact Ht|exact Ht']. }
  (* sizes, by strong induction on the position *)
  assert (Hll : length D = length D') by (destruct Hwf as [H1 _], Hwf' as [H2 _]; lia).
  assert (Hsz : forall k i, i < k -> forall t t', nth_error D i = Some t -> nth_error D' i = Some t' -> s_size t = s_size t').
  { induction k as [|k IHk]; intros i Hi t t' Ht Ht'; [lia|].
    destruct (Nat.eq_dec i k) as [->|Hne]; [|apply (IHk i ltac:(lia) t t' Ht Ht')].
    destruct (Hlab k t t' Ht Ht') as [E1 E2].
    destruct Hwf as [_ Hw]. destruct Hwf' as [_ Hw'].
    destruct (Hw k t Ht) as (A1 & A2 & _ & A4). destruct (Hw' k t' Ht') as (_ & _ & _ & A4').
    rewrite A4, A4', <- E1, <- E2.
    assert (Hcs : forall l, l < n + k -> csize n D l = csize n D' l).
    { intros l Hl. unfold csize. destruct (l <? n) eqn:El; [reflexivity|]. apply Nat.ltb_ge in El.
      destruct (nth_error D (l - n)) as [u|] eqn:Eu, (nth_error D' (l - n)) as [u'|] eqn:Eu'.
      - apply (IHk (l - n) ltac:(lia) u u' Eu Eu').
      - exfalso. apply nth_error_None in Eu'. assert (l - n < length D) by (apply nth_error_Some; congruence). lia.
      - exfalso. apply nth_error_None in Eu. assert (l - n < length D') by (apply nth_error_Some; congruence). lia.
      - reflexivity. }
    rewrite (Hcs (s_c1 t)) by lia. rewrite (Hcs (s_c2 t)) by lia. reflexivity. }
  intros i t t' Ht Ht'. destruct (Hlab i t t' Ht Ht') as [E1 E2]. split; [exact E1|]. split; [exact E2|].
  apply (Hsz (S i) i ltac:(lia) t t' Ht Ht').
Qed.

End Unique.
