(* C11 (formulas): the five arithmetic Lance-Williams updates do not depend on
   which of the two merged clusters plays the role of `a` and which of `b`. *)
Require Import KV.Model.Prelude KV.Model.Methods.

Section Symmetry.
Variable T : Type.
Variable F : fops T.
(* IEEE addition and multiplication are commutative (bit for bit, NaN payloads
   aside); stated as hypotheses on the abstract carrier *)
Hypothesis add_comm : forall x y, f_add F x y = f_add F y x.
Hypothesis mul_comm : forall x y, f_mul F x y = f_mul F y x.

Theorem upd_symmetric (meth : method) (a b md : T) (sa sb sx : nat) :
  meth = Average \/ meth = Weighted \/ meth = Ward \/ meth = Centroid \/ meth = Median ->
  upd_of F meth a b md sa sb sx = upd_of F meth b a md sb sa sx.
Proof.
  intros [->|[->|[->|[->| ->]]]]; cbn.
  - rewrite (add_comm (f_mul F (f_of_nat F sa) a)), (add_comm (f_of_nat F sa)). reflexivity.
  - rewrite (add_comm a). reflexivity.
  - rewrite (add_comm (f_mul F (f_add F (f_of_nat F sx) (f_of_nat F sa)) a)), (add_comm (f_of_nat F sa) (f_of_nat F sb)). reflexivity.
  - rewrite (add_comm (f_mul F (f_of_nat F sa) a)), (add_comm (f_of_nat F sa) (f_of_nat F sb)),
      (mul_comm (f_of_nat F sa) (f_of_nat F sb)). reflexivity.
  - rewrite (add_comm a). reflexivity.
Qed.

End Symmetry.
