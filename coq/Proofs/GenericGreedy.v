(* C03 for generic_with: every merge is at a minimum of the working matrix over
   all pairs of live clusters (ties: any minimal pair).

   Extra invariant on top of GenericInv.GInv: every priority is a LOWER BOUND of
   its cluster's row of the working matrix (cells to live clusters above it).
   After the repair loop the top priority is exact, so the popped pair is a
   global minimum.  Needed of the update formula: where the code does not
   re-check a changed cell against the priority (the five reducible methods in
   the range below a; complete in the other two ranges) the new value is not
   below the relevant old ones. *)
Require Import KV.Model.Prelude KV.Model.Condensed KV.Model.Active KV.Model.Heap
  KV.Model.UnionFind KV.Model.Dendrogram KV.Model.Methods KV.Model.State KV.Model.Generic
  KV.Proofs.ResetCanon KV.Proofs.ActiveRefine KV.Proofs.CondensedIdx KV.Proofs.SortProofs KV.Proofs.Monotone
  KV.Proofs.MstCost KV.Proofs.Shape KV.Proofs.PrimitiveGreedy KV.Proofs.Forest KV.Proofs.UnionFindInv
  KV.Proofs.RelabelWF KV.Proofs.PrimitiveWF KV.Proofs.PrimitiveTotal KV.Proofs.UpdateSpec KV.Proofs.ShapeCheck
  KV.Proofs.LWInvariant KV.Proofs.ChainInv KV.Proofs.ChainIter KV.Proofs.ChainCriterion KV.Proofs.HeapInv KV.Proofs.GenericInv.
From Coq Require Import Permutation.

Set Implicit Arguments.

Section GenericGreedy.
Variable T : Type.
Variable K : kops T.
Variable p : profile.
Variable meth : method.
Hypothesis ltb_irrefl : forall a, k_ltb K a a = false.
Hypothesis ltb_trans : forall a b c, k_ltb K a b = true -> k_ltb K b c = true -> k_ltb K a c = true.
Hypothesis ltb_negtrans : forall a b c, k_ltb K a b = false -> k_ltb K b c = false -> k_ltb K a c = false.

Notation ltb := (k_ltb K).

(* v' is v or strictly below it *)
Definition lowr (v' v : T) : Prop := v' = v \/ ltb v' v = true.

Lemma lowr_keeps v' v w : lowr v' v -> ltb w v = false -> ltb w v' = false.
Proof.
  intros [->|H] Hw; [exact Hw|]. destruct (ltb w v') eqn:C; [|reflexivity].
  rewrite (@ltb_trans _ _ _ C H) in Hw. discriminate.
Qed.

(* priorities are lower bounds of the rows of the working matrix *)
Definition LB (L : list nat) (skip : nat) (q : heap T) (M : cmat T) : Prop :=
  forall x y v w, In x L -> In y L -> x < y -> x <> skip ->
    wcell M x y = Some w -> nth_error (h_prio q) x = Some v -> ltb w v = false.

(* one cell (r,c) changes, the priority of its row owner r does not increase
   and bounds the new cell *)
Lemma lb_core L skip q q1 M M1 r c :
  LB L skip q M -> r < c ->
  (forall y1 y2, In y1 L -> In y2 L -> y1 < y2 -> (y1, y2) <> (r, c) -> wcell M1 y1 y2 = wcell M y1 y2) ->
  (forall y, y <> r -> nth_error (h_prio q1) y = nth_error (h_prio q) y) ->
  (forall pr', nth_error (h_prio q1) r = Some pr' ->
     (exists pr, nth_error (h_prio q) r = Some pr /\ lowr pr' pr)
     /\ (In r L -> In c L -> r <> skip -> forall w, wcell M1 r c = Some w -> ltb w pr' = false)) ->
  LB L skip q1 M1.
Proof.
  intros HLB Hrc Hmf Hpf Hr x y v w Hx Hy Hxy Hxs Hw Hv.
  destruct (Nat.eq_dec x r) as [->|Hxr].
  - destruct (Hr v Hv) as ((pr & Hpr & Hlow) & Hnew).
    destruct (Nat.eq_dec y c) as [->|Hyc]; [exact (Hnew Hx Hy Hxs w Hw)|].
    rewrite Hmf in Hw by (try assumption; intros E; inversion E; contradiction).
    exact (@lowr_keeps _ _ _ Hlow (HLB r y pr w Hx Hy Hxy Hxs Hw Hpr)).
  - rewrite Hmf in Hw by (try assumption; intros E; inversion E; contradiction).
    rewrite Hpf in Hv by exact Hxr. exact (HLB x y v w Hx Hy Hxy Hxs Hw Hv).
Qed.

Hypothesis eqb_refl : forall a, k_eqb K a a = true.
Hypothesis upd_below_max : forall va vb md sa sb sx,
  ltb va (k_inf K) = true -> ltb vb (k_inf K) = true -> ltb md (k_inf K) = true ->
  ltb (k_upd K va vb md sa sb sx) (k_inf K) = true.
(* where a changed cell is not re-checked against the priority *)
Hypothesis rename_reducible : below_kind_of meth = BelowRename ->
  forall va vb md sa sb sx, (uses_sizes_ab meth = true -> 0 < sa /\ 0 < sb) ->
  ltb va md = false -> ltb vb md = false ->
  ltb (k_upd K va vb md sa sb sx) va = false \/ ltb (k_upd K va vb md sa sb sx) vb = false.
Hypothesis untracked_grows : tracks_candidates meth = false ->
  forall va vb md sa sb sx, ltb (k_upd K va vb md sa sb sx) vb = false.

(* helpers: what the heap operations do to the priorities *)
Lemma hset_prio n (q q' : heap T) x v : HInv n q -> inh q x ->
  h_set_priority ltb q x v = Ok q' -> h_prio q' = set_nth (h_prio q) x v.
Proof.
  intros HI Hin H. destruct (@set_priority_spec T ltb n q x v HI Hin) as (q2 & H2 & _ & Hp & _).
  rewrite H in H2. inversion H2; subst q2. exact Hp.
Qed.

Lemma hprio_get n (q : heap T) x v : HInv n q -> inh q x -> h_priority q x = Ok v -> nth_error (h_prio q) x = Some v.
Proof.
  intros HI Hin H. destruct (@priority_spec T n q x HI Hin) as (v2 & H2 & Hv). rewrite H in H2. inversion H2; subst. exact Hv.
Qed.

Section Update.
Variable L : list nat.
Variable n0 z a b : nat.
Hypothesis Hz : In z L.
Hypothesis Hzmax : forall x, In x L -> x <= z.
Hypothesis Hzn : z < n0.
Hypothesis Ha : In a L.
Hypothesis Hb : In b L.
Hypothesis Hab : a < b.
Variable act : active.
Variable szs : list nat.
Hypothesis Hszs : length szs = n0.
Hypothesis Hspos : forall x, In x L -> exists zx, nth_error szs x = Some zx /\ 0 < zx.

Notation GIu := (GI K L n0 z a act szs).
Notation LBa := (LB L a).

Lemma live_n x : In x L -> x < n0.
Proof. intros Hx. pose proof (Hzmax x Hx). lia. Qed.

(* the matrix after one cell update, on live pairs *)
Lemma upd_cell_live (M M1 : cmat T) r1 c1 r2 c2 x dist sa sb :
  wf_mat M -> m_obs M = n0 -> r1 < c1 -> c1 < n0 -> r2 < c2 -> c2 < n0 ->
  upd_cell K p meth szs M r1 c1 r2 c2 x dist sa sb = Ok M1 ->
  (forall y1 y2, In y1 L -> In y2 L -> y1 < y2 -> (y1, y2) <> (r2, c2) -> wcell M1 y1 y2 = wcell M y1 y2)
  /\ wf_mat M1 /\ m_obs M1 = n0
  /\ exists va vb sx, wcell M r1 c1 = Some va /\ wcell M r2 c2 = Some vb
       /\ wcell M1 r2 c2 = Some (k_upd K va vb dist sa sb sx).
Proof.
  intros Hwf Ho H1 H2 H3 H4 Hu.
  destruct (@upd_cell_spec T K p meth szs M M1 r1 c1 r2 c2 x dist sa sb Hwf H1 ltac:(lia) H3 ltac:(lia) Hu)
    as (va & vb & sx & Ca & Cb & _ & Cnew & Cother & Hwf1 & Ho1).
  split; [|split; [exact Hwf1|split; [lia|]]].
  - intros y1 y2 Hy1 Hy2 Hy Hne. unfold wcell. rewrite Nat.min_l, Nat.max_r by lia.
    apply Cother; [exact Hy|rewrite Ho; apply live_n; exact Hy2|exact Hne].
  - exists va, vb, sx. unfold wcell. rewrite !Nat.min_l, !Nat.max_r by lia. auto.
Qed.

Lemma rename_tail_q (s s1 : lstate T) (M M1 : cmat T) x :
  (do nx <- vget (st_nearest s) x;
   if nx =? a then do nr <- vset (st_nearest s) x b; Ok (st_with_nearest s nr, M) else Ok (s, M)) = Ok (s1, M1) ->
  st_queue s1 = st_queue s /\ M1 = M.
Proof.
  intros H. destruct (vget (st_nearest s) x) as [nx| |]; cbn [bind] in H; try discriminate.
  destruct (nx =? a).
  - destruct (vset (st_nearest s) x b) as [nr| |]; cbn [bind] in H; try discriminate. inversion H. split; reflexivity.
  - inversion H. split; reflexivity.
Qed.

Lemma mget_wcell (M : cmat T) r c v w : wf_mat M -> m_obs M = n0 -> r < c -> c < n0 ->
  mget p M r c = Ok v -> wcell M r c = Some w -> w = v.
Proof.
  intros Hwf Ho Hrc Hc Hg Hw. destruct (@mget_cellv T p M Hwf r c Hrc ltac:(lia)) as (v' & Hv' & Hg').
  rewrite Hg in Hg'. inversion Hg'; subst v'. unfold cellv in Hv'. congruence.
Qed.

(* the offer of a new cell (r,c) to r's priority: `if v < px { set_priority(r, v); nearest[r] = c }` *)
Lemma offer_lb (s s1 : lstate T) (M M1 Mx : cmat T) r c v px (k : res (lstate T * cmat T)) :
  GIu s Mx -> wf_mat M1 -> m_obs M1 = n0 -> In r L -> r <> a -> r < c -> c < n0 ->
  (forall y1 y2, In y1 L -> In y2 L -> y1 < y2 -> (y1, y2) <> (r, c) -> wcell M1 y1 y2 = wcell M y1 y2) ->
  LBa (st_queue s) M ->
  mget p M1 r c = Ok v -> nth_error (h_prio (st_queue s)) r = Some px -> ltb v px = true ->
  (do q <- h_set_priority ltb (st_queue s) r v; do nr <- vset (st_nearest s) r c;
   Ok (st_with_nearest (st_with_queue s q) nr, M1)) = Ok (s1, M1) ->
  LBa (st_queue s1) M1.
Proof.
  intros HG Hwf1 Ho1 Hr Hra Hrc Hc Hfr HLB Hg Hpx Hlt H.
  pose proof HG as (_ & _ & _ & _ & _ & (HI & _ & Hin & _)).
  assert (Hrq : inh (st_queue s) r) by (apply Hin; split; assumption).
  destruct (h_set_priority ltb (st_queue s) r v) as [q'| |] eqn:Es; cbn [bind] in H; try discriminate.
  destruct (vset (st_nearest s) r c) as [nr'| |]; cbn [bind] in H; try discriminate.
  inversion H; subst s1. cbn [st_with_nearest st_with_queue st_queue].
  pose proof (@hset_prio _ _ _ _ _ HI Hrq Es) as Hp'.
  apply (@lb_core L a (st_queue s) q' M M1 r c HLB Hrc Hfr).
  - intros y Hy. rewrite Hp'. apply nth_error_set_nth_neq. exact Hy.
  - intros pr' Hpr'. rewrite Hp', nth_error_set_nth_eq in Hpr' by (apply nth_error_Some; congruence). inversion Hpr'; subst pr'.
    split; [exists px; split; [exact Hpx|right; exact Hlt]|].
    intros _ _ _ w Hw. rewrite (@mget_wcell _ _ _ _ _ Hwf1 Ho1 Hrc Hc Hg Hw). apply ltb_irrefl.
Qed.

(* no offer: the priority stays, the new cell is not below it *)
Lemma keep_lb (q : heap T) (M M1 : cmat T) r c :
  r < c ->
  (forall y1 y2, In y1 L -> In y2 L -> y1 < y2 -> (y1, y2) <> (r, c) -> wcell M1 y1 y2 = wcell M y1 y2) ->
  LBa q M ->
  (forall w pr, In r L -> In c L -> r <> a -> wcell M1 r c = Some w -> nth_error (h_prio q) r = Some pr -> ltb w pr = false) ->
  LBa q M1.
Proof.
  intros Hrc Hfr HLB Hnew. apply (@lb_core L a q q M M1 r c HLB Hrc Hfr); [reflexivity|].
  intros pr' Hpr'. split; [exists pr'; split; [exact Hpr'|left; reflexivity]|].
  intros Hr Hc Hra w Hw. exact (Hnew w pr' Hr Hc Hra Hw Hpr').
Qed.

Lemma below_lb dist sa sb s M x s1 M1 :
  GIu s M -> LBa (st_queue s) M -> In x L -> x < a ->
  (uses_sizes_ab meth = true -> 0 < sa /\ 0 < sb) ->
  (forall va vb, wcell M x a = Some va -> wcell M x b = Some vb -> ltb va dist = false /\ ltb vb dist = false) ->
  gen_below K p meth a b dist sa sb (s, M) x = Ok (s1, M1) ->
  LBa (st_queue s1) M1.
Proof.
  intros HG HLB Hx Hxa Hsz Hmd H. pose proof HG as (E1 & E2 & Hwf & Ho & Hbm & (HI & _ & Hin & _)).
  pose proof (@live_n _ Ha) as Han. pose proof (@live_n _ Hb) as Hbn.
  unfold gen_below in H. rewrite E2 in H.
  destruct (upd_cell K p meth szs M x a x b x dist sa sb) as [M'| |] eqn:Eu; cbn [bind] in H; try discriminate.
  destruct (@upd_cell_live M M' x a x b x dist sa sb Hwf Ho Hxa Han ltac:(lia) Hbn Eu)
    as (Hfr & Hwf' & Ho' & va & vb & sx & Ca & Cb & Cnew).
  assert (Hxq : inh (st_queue s) x) by (apply Hin; split; [exact Hx|lia]).
  (* the un-checked case: reducibility *)
  assert (Hred : below_kind_of meth = BelowRename ->
            forall w pr, wcell M' x b = Some w -> nth_error (h_prio (st_queue s)) x = Some pr -> ltb w pr = false).
  { intros Ek w pr Hw Hpr. rewrite Cnew in Hw. inversion Hw; subst w.
    pose proof (HLB x a pr va Hx Ha Hxa ltac:(lia) Ca Hpr) as Ba.
    pose proof (HLB x b pr vb Hx Hb ltac:(lia) ltac:(lia) Cb Hpr) as Bb.
    destruct (Hmd va vb Ca Cb) as [Ma Mb].
    destruct (@rename_reducible Ek va vb dist sa sb sx Hsz Ma Mb) as [R|R];
      [exact (@ltb_negtrans _ _ _ R Ba)|exact (@ltb_negtrans _ _ _ R Bb)]. }
  destruct (below_kind_of meth) eqn:Ek.
  - destruct (@rename_tail_q _ _ _ _ _ H) as [Eq ->]. rewrite Eq.
    apply (@keep_lb (st_queue s) M M' x b ltac:(lia) Hfr HLB). intros w pr _ _ _ Hw Hpr. exact (Hred eq_refl w pr Hw Hpr).
  - destruct (mget p M' x b) as [v| |] eqn:Eg; cbn [bind] in H; try discriminate.
    destruct (h_priority (st_queue s) x) as [px| |] eqn:Ep; cbn [bind] in H; try discriminate.
    pose proof (@hprio_get _ _ _ _ HI Hxq Ep) as Hpx.
    destruct (ltb v px) eqn:C.
    + cbn [bind] in H.
      assert (M1 = M').
      { destruct (h_set_priority ltb (st_queue s) x v); cbn [bind] in H; try discriminate.
        destruct (vset (st_nearest s) x b); cbn [bind] in H; try discriminate. inversion H. reflexivity. }
      subst M1. exact (@offer_lb s s1 M M' M x b v px (Ok (s, M)) HG Hwf' Ho' Hx ltac:(lia) ltac:(lia) Hbn Hfr HLB Eg Hpx C H).
    + destruct (@rename_tail_q _ _ _ _ _ H) as [Eq ->]. rewrite Eq.
      apply (@keep_lb (st_queue s) M M' x b ltac:(lia) Hfr HLB). intros w pr _ _ _ Hw Hpr.
      rewrite Hpx in Hpr. inversion Hpr; subst pr. assert (Hxb' : x < b) by lia. rewrite (@mget_wcell M' x b v w Hwf' Ho' Hxb' Hbn Eg Hw). exact C.
Qed.

Lemma between_lb dist sa sb s M x s1 M1 :
  GIu s M -> LBa (st_queue s) M -> In x L -> a < x -> x < b ->
  gen_between K p meth a b dist sa sb (s, M) x = Ok (s1, M1) ->
  LBa (st_queue s1) M1.
Proof.
  intros HG HLB Hx Hax Hxb H. pose proof HG as (E1 & E2 & Hwf & Ho & Hbm & (HI & _ & Hin & _)).
  pose proof (@live_n _ Ha) as Han. pose proof (@live_n _ Hb) as Hbn. pose proof (@live_n _ Hx) as Hxn.
  unfold gen_between in H. rewrite E2 in H.
  destruct (upd_cell K p meth szs M a x x b x dist sa sb) as [M'| |] eqn:Eu; cbn [bind] in H; try discriminate.
  destruct (@upd_cell_live M M' a x x b x dist sa sb Hwf Ho Hax Hxn Hxb Hbn Eu)
    as (Hfr & Hwf' & Ho' & va & vb & sx & Ca & Cb & Cnew).
  assert (Hxq : inh (st_queue s) x) by (apply Hin; split; [exact Hx|lia]).
  destruct (tracks_candidates meth) eqn:Et.
  - destruct (mget p M' x b) as [v| |] eqn:Eg; cbn [bind] in H; try discriminate.
    destruct (h_priority (st_queue s) x) as [px| |] eqn:Ep; cbn [bind] in H; try discriminate.
    pose proof (@hprio_get _ _ _ _ HI Hxq Ep) as Hpx.
    destruct (ltb v px) eqn:C.
    + cbn [bind] in H.
      assert (M1 = M').
      { destruct (h_set_priority ltb (st_queue s) x v); cbn [bind] in H; try discriminate.
        destruct (vset (st_nearest s) x b); cbn [bind] in H; try discriminate. inversion H. reflexivity. }
      subst M1. exact (@offer_lb s s1 M M' M x b v px (Ok (s, M)) HG Hwf' Ho' Hx ltac:(lia) Hxb Hbn Hfr HLB Eg Hpx C H).
    + inversion H; subst s1 M1.
      apply (@keep_lb (st_queue s) M M' x b Hxb Hfr HLB). intros w pr _ _ _ Hw Hpr.
      rewrite Hpx in Hpr. inversion Hpr; subst pr. rewrite (@mget_wcell M' x b v w Hwf' Ho' Hxb Hbn Eg Hw). exact C.
  - inversion H; subst s1 M1.
    apply (@keep_lb (st_queue s) M M' x b Hxb Hfr HLB). intros w pr _ _ _ Hw Hpr.
    rewrite Cnew in Hw. inversion Hw; subst w.
    pose proof (HLB x b pr vb Hx Hb Hxb ltac:(lia) Cb Hpr) as Bb.
    exact (@ltb_negtrans _ _ _ (@untracked_grows eq_refl va vb dist sa sb sx) Bb).
Qed.

Lemma above_lb dist sa sb s M mn x s1 M1 mn1 :
  GIu s M -> LBa (st_queue s) M -> In x L -> b < x ->
  (tracks_candidates meth = true -> nth_error (h_prio (st_queue s)) b = Some mn) ->
  gen_above K p meth a b dist sa sb (s, M, mn) x = Ok (s1, M1, mn1) ->
  LBa (st_queue s1) M1
  /\ (tracks_candidates meth = true -> nth_error (h_prio (st_queue s1)) b = Some mn1).
Proof.
  intros HG HLB Hx Hbx Hmn H. pose proof HG as (E1 & E2 & Hwf & Ho & Hbm & (HI & _ & Hin & _)).
  pose proof (@live_n _ Ha) as Han. pose proof (@live_n _ Hb) as Hbn. pose proof (@live_n _ Hx) as Hxn.
  unfold gen_above in H. rewrite E2 in H.
  destruct (upd_cell K p meth szs M a x b x x dist sa sb) as [M'| |] eqn:Eu; cbn [bind] in H; try discriminate.
  destruct (@upd_cell_live M M' a x b x x dist sa sb Hwf Ho ltac:(lia) Hxn Hbx Hxn Eu)
    as (Hfr & Hwf' & Ho' & va & vb & sx & Ca & Cb & Cnew).
  assert (Hbq : inh (st_queue s) b) by (apply Hin; split; [exact Hb|lia]).
  destruct (tracks_candidates meth) eqn:Et.
  - specialize (Hmn eq_refl).
    destruct (mget p M' b x) as [v| |] eqn:Eg; cbn [bind] in H; try discriminate.
    destruct (ltb v mn) eqn:C.
    + cbn [bind] in H.
      destruct (h_set_priority ltb (st_queue s) b v) as [q'| |] eqn:Es; cbn [bind] in H; try discriminate.
      destruct (vset (st_nearest s) b x) as [nr'| |] eqn:Ev; cbn [bind] in H; try discriminate.
      inversion H; subst s1 M1 mn1. cbn [st_with_nearest st_with_queue st_queue].
      pose proof (@hset_prio _ _ _ _ _ HI Hbq Es) as Hp'.
      split.
      * apply (@lb_core L a (st_queue s) q' M M' b x HLB Hbx Hfr).
        -- intros y Hy. rewrite Hp'. apply nth_error_set_nth_neq. exact Hy.
        -- intros pr' Hpr'. rewrite Hp', nth_error_set_nth_eq in Hpr' by (apply nth_error_Some; congruence). inversion Hpr'; subst pr'.
           split; [exists mn; split; [exact Hmn|right; exact C]|].
           intros _ _ _ w Hw. rewrite (@mget_wcell M' b x v w Hwf' Ho' Hbx Hxn Eg Hw). apply ltb_irrefl.
      * intros _. rewrite Hp'. apply nth_error_set_nth_eq. apply nth_error_Some. congruence.
    + inversion H; subst s1 M1 mn1. split; [|intros _; exact Hmn].
      apply (@keep_lb (st_queue s) M M' b x Hbx Hfr HLB). intros w pr _ _ _ Hw Hpr.
      rewrite Hmn in Hpr. inversion Hpr; subst pr. rewrite (@mget_wcell M' b x v w Hwf' Ho' Hbx Hxn Eg Hw). exact C.
  - inversion H; subst s1 M1 mn1. split; [|discriminate].
    apply (@keep_lb (st_queue s) M M' b x Hbx Hfr HLB). intros w pr _ _ _ Hw Hpr.
    rewrite Cnew in Hw. inversion Hw; subst w.
    pose proof (HLB b x pr vb Hb Hx Hbx ltac:(lia) Cb Hpr) as Bb.
    exact (@ltb_negtrans _ _ _ (@untracked_grows eq_refl va vb dist sa sb sx) Bb).
Qed.

(* ---- the three loops and the whole update ---- *)
Hypothesis HAct : AInv act L.
Hypothesis HActN : length (a_next act) = n0.

Lemma below_fold_lb dist sa sb : ltb dist (k_inf K) = true ->
  (uses_sizes_ab meth = true -> 0 < sa /\ 0 < sb) -> forall xs s M s' M', NoDup xs ->
  (forall x, In x xs -> In x L /\ x < a) -> GIu s M -> LBa (st_queue s) M ->
  (forall x, In x xs -> forall va vb, wcell M x a = Some va -> wcell M x b = Some vb ->
     ltb va dist = false /\ ltb vb dist = false) ->
  mfold (gen_below K p meth a b dist sa sb) xs (s, M) = Ok (s', M') ->
  GIu s' M' /\ LBa (st_queue s') M'.
Proof.
  intros Hd Hsz. induction xs as [|x xs IH]; intros s M s' M' Hndx Hxs HG HLB Hrem H; cbn [mfold] in H.
  - inversion H; subst. split; assumption.
  - destruct (Hxs x (or_introl eq_refl)) as [Hx Hxa]. apply NoDup_cons_iff in Hndx. destruct Hndx as [Hnx Hndx'].
    destruct (gen_below K p meth a b dist sa sb (s, M) x) as [[s1 M1]| |] eqn:E; cbn [bind] in H; try discriminate.
    destruct (@gen_below_step T K p meth ltb_irrefl ltb_trans ltb_negtrans upd_below_max L n0 z a b Hzmax Hzn Ha Hb Hab act szs HActN Hszs
                dist sa sb s M x HG Hx Hxa Hd) as (s1' & M1' & E' & HG1 & _).
    rewrite E in E'. inversion E'; subst s1' M1'.
    pose proof (@below_lb dist sa sb s M x s1 M1 HG HLB Hx Hxa Hsz (Hrem x (or_introl eq_refl)) E) as HLB1.
    apply (IH s1 M1 s' M' Hndx' (fun y Hy => Hxs y (or_intror Hy)) HG1 HLB1); [|exact H].
    (* the cells of the rows still to come are untouched *)
    intros y Hy va vb Ca Cb. destruct (Hxs y (or_intror Hy)) as [HyL Hya].
    assert (Hyx : y <> x) by (intros ->; contradiction).
    pose proof HG as (_ & E2g & Hwfg & Hog & _).
    destruct (@gen_below_fst T K p meth a b dist sa sb s M x s1 M1 E) as (Eu & _ & _). rewrite E2g in Eu.
    destruct (@upd_cell_live M M1 x a x b x dist sa sb Hwfg Hog Hxa (@live_n _ Ha) ltac:(lia) (@live_n _ Hb) Eu) as (Hfr & _).
    rewrite (Hfr y a HyL Ha Hya ltac:(intros Eq; inversion Eq; lia)) in Ca.
    rewrite (Hfr y b HyL Hb ltac:(lia) ltac:(intros Eq; inversion Eq; congruence)) in Cb.
    exact (Hrem y (or_intror Hy) va vb Ca Cb).
Qed.

Lemma between_fold_lb dist sa sb : ltb dist (k_inf K) = true -> forall xs s M s' M',
  (forall x, In x xs -> In x L /\ a < x /\ x < b) -> GIu s M -> LBa (st_queue s) M ->
  mfold (gen_between K p meth a b dist sa sb) xs (s, M) = Ok (s', M') ->
  GIu s' M' /\ LBa (st_queue s') M'.
Proof.
  intros Hd. induction xs as [|x xs IH]; intros s M s' M' Hxs HG HLB H; cbn [mfold] in H.
  - inversion H; subst. split; assumption.
  - destruct (Hxs x (or_introl eq_refl)) as (Hx & Hax & Hxb).
    destruct (gen_between K p meth a b dist sa sb (s, M) x) as [[s1 M1]| |] eqn:E; cbn [bind] in H; try discriminate.
    destruct (@gen_between_step T K p meth ltb_irrefl ltb_trans ltb_negtrans upd_below_max L n0 z a b Hzmax Hzn Ha Hb Hab act szs HActN Hszs
                dist sa sb s M x HG Hx Hax Hxb Hd) as (s1' & M1' & E' & HG1 & _).
    rewrite E in E'. inversion E'; subst s1' M1'.
    pose proof (@between_lb dist sa sb s M x s1 M1 HG HLB Hx Hax Hxb E) as HLB1.
    exact (IH s1 M1 s' M' (fun y Hy => Hxs y (or_intror Hy)) HG1 HLB1 H).
Qed.

Lemma above_fold_lb dist sa sb : ltb dist (k_inf K) = true -> forall xs s M mn s' M' mn',
  (forall x, In x xs -> In x L /\ b < x) -> GIu s M -> LBa (st_queue s) M ->
  (tracks_candidates meth = true -> nth_error (h_prio (st_queue s)) b = Some mn) ->
  mfold (gen_above K p meth a b dist sa sb) xs (s, M, mn) = Ok (s', M', mn') ->
  GIu s' M' /\ LBa (st_queue s') M'.
Proof.
  intros Hd. induction xs as [|x xs IH]; intros s M mn s' M' mn' Hxs HG HLB Hmn H; cbn [mfold] in H.
  - inversion H; subst. split; assumption.
  - destruct (Hxs x (or_introl eq_refl)) as (Hx & Hbx).
    destruct (gen_above K p meth a b dist sa sb (s, M, mn) x) as [[[s1 M1] mn1]| |] eqn:E; cbn [bind] in H; try discriminate.
    destruct (@gen_above_step T K p meth ltb_irrefl ltb_trans ltb_negtrans upd_below_max L n0 z a b Hzmax Hzn Ha Hb Hab act szs HActN Hszs
                dist sa sb s M mn x HG Hx Hbx Hd) as (s1' & M1' & mn1' & E' & HG1 & _).
    rewrite E in E'. inversion E'; subst s1' M1' mn1'.
    destruct (@above_lb dist sa sb s M mn x s1 M1 mn1 HG HLB Hx Hbx Hmn E) as [HLB1 Hmn1].
    exact (IH s1 M1 mn1 s' M' mn' (fun y Hy => Hxs y (or_intror Hy)) HG1 HLB1 Hmn1 H).
Qed.

Theorem gen_update_lb s M dist0 s' M' : GIu s M -> LBa (st_queue s) M -> wcell M a b = Some dist0 ->
  NoDup L ->
  (forall x y w, In x L -> In y L -> x < y -> wcell M x y = Some w -> ltb w dist0 = false) ->
  gen_update K p meth s M a b dist0 = Ok (s', M') -> LBa (st_queue s') M'.
Proof.
  intros HG HLB Hd0 HndL Hgmin H. pose proof HG as (E1 & E2 & Hwf & Ho & Hbm & HBK).
  pose proof HAct as (Hlen & Hl & Hdead).
  pose proof (@live_n _ Ha) as Han. pose proof (@live_n _ Hb) as Hbn.
  assert (Hdlt : ltb dist0 (k_inf K) = true) by (exact (Hbm a b dist0 Ha Hb ltac:(lia) Hd0)).
  unfold gen_update in H.
  destruct (sizes_ab meth s a b) as [[sa sb]| |] eqn:Esab; cbn [bind] in H; try discriminate.
  assert (Hsz : uses_sizes_ab meth = true -> 0 < sa /\ 0 < sb).
  { intros Hu. unfold sizes_ab in Esab. rewrite Hu, E2 in Esab.
    destruct (Hspos a Ha) as (za & Hza & Hza0). destruct (Hspos b Hb) as (zb & Hzb & Hzb0).
    unfold vget in Esab. rewrite Hza, Hzb in Esab. cbn [bind] in Esab. inversion Esab; subst. split; assumption. }
  assert (Hdist : (if reads_dist meth then mget p M a b else Ok dist0) = Ok dist0).
  { destruct (reads_dist meth); [|reflexivity].
    destruct (@mget_cellv T p M Hwf a b Hab ltac:(lia)) as (v & Hv & Hg). rewrite Hg.
    unfold cellv in Hv. rewrite Hd0 in Hv. inversion Hv. reflexivity. }
  rewrite Hdist in H. cbn [bind] in H. rewrite E1 in H.
  unfold a_below in H. rewrite (@a_range_spec _ _ Unb (Excl a) HAct) in H by (cbn [lo_of hi_of]; pose proof (proj1 (linked_bounds Hl)); lia).
  cbn [bind lo_of hi_of] in H.
  destruct (mfold (gen_below K p meth a b dist0 sa sb) (filter (in_range (a_start act) a) L) (s, M)) as [[s1 M1]| |] eqn:F1;
    cbn [bind] in H; try discriminate.
  assert (Hxs1 : forall x, In x (filter (in_range (a_start act) a) L) -> In x L /\ x < a).
  { intros x Hx. apply filter_In in Hx. destruct Hx as [Hx Hr]. unfold in_range in Hr.
    apply Bool.andb_true_iff in Hr. destruct Hr as [_ Hr]. apply Nat.ltb_lt in Hr. split; assumption. }
  destruct (@below_fold_lb dist0 sa sb Hdlt Hsz (filter (in_range (a_start act) a) L) s M s1 M1) as (HG1 & HLB1);
    [apply NoDup_filter; exact HndL|exact Hxs1|exact HG|exact HLB| |exact F1|].
  { intros x Hx va vb Ca Cb. destruct (Hxs1 x Hx) as [HxL Hxa].
    split; [exact (Hgmin x a va HxL Ha Hxa Ca)|exact (Hgmin x b vb HxL Hb ltac:(lia) Cb)]. }
  unfold a_between in H. rewrite (@a_range_spec _ _ (Incl a) (Excl b) HAct) in H by (cbn [lo_of hi_of]; lia).
  cbn [bind lo_of hi_of] in H. rewrite (filter_between_sorted (linked_sorted Hl) Ha Hab) in H.
  destruct (mfold (gen_between K p meth a b dist0 sa sb) (filter (fun z0 => (a <? z0) && (z0 <? b)) L) (s1, M1)) as [[s2 M2]| |] eqn:F2;
    cbn [bind] in H; try discriminate.
  destruct (@between_fold_lb dist0 sa sb Hdlt (filter (fun z0 => (a <? z0) && (z0 <? b)) L) s1 M1 s2 M2) as (HG2 & HLB2); [|exact HG1|exact HLB1|exact F2|].
  { intros x Hx. apply filter_In in Hx. destruct Hx as [Hx Hr].
    apply Bool.andb_true_iff in Hr. destruct Hr as [Hr1 Hr2]. apply Nat.ltb_lt in Hr1, Hr2. auto. }
  pose proof HG2 as (E1' & E2' & _ & _ & _ & (HI2 & _ & Hin2 & _)).
  destruct (if tracks_candidates meth then h_priority (st_queue s2) b else Ok dist0) as [mn| |] eqn:Emn; cbn [bind] in H; try discriminate.
  rewrite E1' in H. rewrite (@a_above_spec act L b HAct Hb) in H. cbn [bind] in H.
  destruct (mfold (gen_above K p meth a b dist0 sa sb) (filter (fun z0 => b <? z0) L) (s2, M2, mn)) as [[[s3 M3] mn3]| |] eqn:F3;
    cbn [bind] in H; try discriminate.
  inversion H; subst s' M'.
  destruct (@above_fold_lb dist0 sa sb Hdlt (filter (fun z0 => b <? z0) L) s2 M2 mn s3 M3 mn3) as (_ & HLB3); [|exact HG2|exact HLB2| |exact F3|exact HLB3].
  { intros x Hx. apply filter_In in Hx. destruct Hx as [Hx Hr]. apply Nat.ltb_lt in Hr. auto. }
  intros Ht. rewrite Ht in Emn. apply (@hprio_get _ _ _ _ HI2); [apply Hin2; split; [exact Hb|lia]|exact Emn].
Qed.

End Update.

(* ---- the repair loop keeps the lower bounds and ends with an exact top ---- *)
Definition fresh_top (M : cmat T) (q : heap T) (nr : list nat) : Prop :=
  exists a0 na v pa, nth_error (h_heap q) 0 = Some a0 /\ nth_error nr a0 = Some na
    /\ wcell M a0 na = Some v /\ nth_error (h_prio q) a0 = Some pa /\ k_eqb K v pa = true.

Section Repair.
Variable M : cmat T.
Hypothesis Hwf : wf_mat M.
Variable L : list nat.
Variable n0 z : nat.
Hypothesis HMo : m_obs M = n0.
Hypothesis Hz : In z L.
Hypothesis Hzmax : forall x, In x L -> x <= z.
Hypothesis Hzn : z < n0.
Hypothesis HL2 : 2 <= length L.
Hypothesis Hnd : NoDup L.
Hypothesis Hbm : below_max K M L.

Lemma repair_lb : forall fuel s,
  AInv (st_active s) L -> QN K n0 z (st_queue s) (st_nearest s) L -> LB L n0 (st_queue s) M ->
  length (filter (stale K M (st_queue s) (st_nearest s)) L) < fuel ->
  exists q' nr', repair K p fuel s M = Ok (st_with_queue (st_with_nearest s nr') q')
    /\ QN K n0 z q' nr' L /\ LB L n0 q' M /\ fresh_top M q' nr'.
Proof.
  induction fuel as [|fuel IH]; intros s HA HQ HLB Hf; [lia|].
  pose proof HQ as (HI & HO & Hin & Hnl & Hnear & Hpz & Hplt).
  pose proof HA as (Hlen & Hl & Hdead).
  assert (HB : forall x, In x L -> x < n0) by (intros x Hx; pose proof (Hzmax x Hx); lia).
  destruct (@top_not_z T K ltb_irrefl ltb_negtrans n0 z (st_queue s) (st_nearest s) L HQ Hz HL2 Hnd) as (a & E0 & Ha & Haz).
  cbn [repair]. unfold h_peek. rewrite E0. cbn [opt_unwrap bind].
  destruct (Hnear a Ha Haz) as (na & Hna & Hnal & Hana).
  unfold vget at 1. rewrite Hna. cbn [bind].
  destruct (@mget_cellv T p M Hwf a na Hana ltac:(rewrite HMo; apply HB; exact Hnal)) as (v & Hv & Hg). rewrite Hg. cbn [bind].
  assert (Haq : inh (st_queue s) a) by (apply Hin; exact Ha).
  destruct (@priority_spec T n0 (st_queue s) a HI Haq) as (pa & Hpa & Hpa').
  rewrite Hpa. cbn [bind].
  destruct (k_eqb K v pa) eqn:Ceq.
  - exists (st_queue s), (st_nearest s). split; [destruct s; reflexivity|]. split; [exact HQ|]. split; [exact HLB|].
    exists a, na, v, pa. auto.
  - rewrite (@a_above_spec (st_active s) L a HA Ha). cbn [bind].
    set (xs := filter (fun x => a <? x) L).
    assert (Hxs : forall x, In x xs -> a < x /\ x < m_obs M).
    { intros x Hx. apply filter_In in Hx. destruct Hx as [Hx Hlt]. apply Nat.ltb_lt in Hlt. rewrite HMo. split; [exact Hlt|apply HB; exact Hx]. }
    assert (Haz' : a < z) by (pose proof (Hzmax a Ha); lia).
    assert (Hzxs : In z xs) by (apply filter_In; split; [exact Hz|apply Nat.ltb_lt; exact Haz']).
    destruct (@rescan_spec T K p ltb_irrefl ltb_trans M a Hwf xs (k_inf K) (st_nearest s) Hxs ltac:(rewrite Hnl; apply HB; exact Ha))
      as (mn & nr & Hfold & Hnrl & Hfr & Hmin & Hcase).
    change (mfold (rescan_step K p M a) xs (k_inf K, st_nearest s)) with
      (mfold (fun (acc : T * list nat) x => let '(mn, nr) := acc in
                do v <- mget p M a x; if ltb v mn then do nr' <- vset nr a x; Ok (v, nr') else Ok (mn, nr))
             xs (k_inf K, st_nearest s)) in Hfold.
    rewrite Hfold. cbn [bind].
    destruct (@cellv_ex T p M Hwf a z ltac:(lia) ltac:(rewrite HMo; apply HB; exact Ha) ltac:(rewrite HMo; exact Hzn)) as (vz & Hvz).
    pose proof (Hbm Ha Hz ltac:(lia) Hvz) as Hvzlt.
    assert (Himp : exists x, In x xs /\ nth_error nr a = Some x /\ wcell M a x = Some mn /\ ltb mn (k_inf K) = true).
    { destruct Hcase as [[-> _]|Hex]; [|exact Hex]. pose proof (Hmin z vz Hzxs Hvz). congruence. }
    destruct Himp as (x' & Hx' & Hnx' & Hcx' & Hmnlt).
    destruct (@set_priority_spec T ltb n0 (st_queue s) a mn HI Haq) as (q' & Hset & HI' & Hprio' & Hrem' & Hlen' & Hin').
    rewrite Hset. cbn [bind].
    assert (HO' : HOrd ltb q') by exact (@set_priority_ord T ltb ltb_irrefl ltb_trans ltb_negtrans n0 (st_queue s) a mn q' HI HO Haq Hset).
    assert (Han0 : a < n0) by (apply HB; exact Ha).
    assert (HQ' : QN K n0 z q' nr L).
    { unfold QN. split; [exact HI'|]. split; [exact HO'|]. split; [intros x; rewrite Hin'; apply Hin|].
      split; [rewrite Hnrl; exact Hnl|]. split.
      - intros x Hx Hxz. destruct (Nat.eq_dec x a) as [->|Hxa].
        + exists x'. split; [exact Hnx'|]. apply filter_In in Hx'. destruct Hx' as [Hx'l Hlt]. apply Nat.ltb_lt in Hlt. split; assumption.
        + rewrite (Hfr x Hxa). exact (Hnear x Hx Hxz).
      - split.
        + rewrite Hprio'. rewrite nth_error_set_nth_neq by exact (not_eq_sym Haz). exact Hpz.
        + intros x Hx Hxz. rewrite Hprio'. destruct (Nat.eq_dec x a) as [->|Hxa].
          * exists mn. split; [apply nth_error_set_nth_eq; pose proof HI as (_ & Lp & _); lia|exact Hmnlt].
          * rewrite nth_error_set_nth_neq by exact Hxa. exact (Hplt x Hx Hxz). }
    assert (HLB' : LB L n0 q' M).
    { intros x y vv w Hx Hy Hxy Hxs' Hw Hvv. rewrite Hprio' in Hvv. destruct (Nat.eq_dec x a) as [->|Hxa].
      - rewrite nth_error_set_nth_eq in Hvv by (pose proof HI as (_ & Lp & _); lia). inversion Hvv; subst vv.
        apply (Hmin y w); [apply filter_In; split; [exact Hy|apply Nat.ltb_lt; exact Hxy]|exact Hw].
      - rewrite nth_error_set_nth_neq in Hvv by exact Hxa. exact (HLB x y vv w Hx Hy Hxy Hxs' Hw Hvv). }
    set (s1 := st_with_queue (st_with_nearest s nr) q').
    assert (Hcnt : length (filter (stale K M q' nr) L) < length (filter (stale K M (st_queue s) (st_nearest s)) L)).
    { apply filter_lt_one with (a := a); [exact Ha| | |].
      - unfold stale. rewrite Hna. unfold cellv in Hv. rewrite Hv, Hpa'. rewrite Ceq. reflexivity.
      - unfold stale. rewrite Hnx', Hcx', Hprio'. rewrite nth_error_set_nth_eq by (pose proof HI as (_ & Lp & _); lia).
        rewrite eqb_refl. reflexivity.
      - intros x Hxa. unfold stale. rewrite (Hfr x Hxa), Hprio'. rewrite nth_error_set_nth_neq by exact Hxa. reflexivity. }
    destruct (IH s1 HA HQ' HLB' ltac:(cbn [s1 st_with_queue st_with_nearest st_queue st_nearest]; lia)) as (q2 & nr2 & Hrep & HQ2 & HLB2 & Hfresh2).
    cbn [s1] in Hrep. rewrite Hrep. exists q2, nr2. split; [destruct s; reflexivity|]. split; [exact HQ2|]. split; [exact HLB2|exact Hfresh2].
Qed.

End Repair.

(* ---- one iteration: the merged pair is a global minimum ---- *)
Hypothesis eqb_le : forall u v, k_eqb K u v = true -> ltb v u = false.

Definition SPos (szs : list nat) (L : list nat) : Prop :=
  forall x, In x L -> exists zx, nth_error szs x = Some zx /\ 0 < zx.

Lemma st_merge_queue (s0 s' : lstate T) (d d' : dend T) c1 c2 x :
  st_merge s0 d c1 c2 x = Ok (s', d') -> st_queue s' = st_queue s0.
Proof.
  unfold st_merge. intros H. binds H. inversion H; subst. reflexivity.
Qed.

Lemma st_merge_full (s0 s' : lstate T) (d d' : dend T) c1 c2 x :
  st_merge s0 d c1 c2 x = Ok (s', d') ->
  exists z1 z2, nth_error (st_sizes s0) c1 = Some z1 /\ nth_error (st_sizes s0) c2 = Some z2
    /\ st_sizes s' = set_nth (st_sizes s0) c2 (z1 + z2)
    /\ d_steps d' = d_steps d ++ [step_new c1 c2 x (z1 + z2)] /\ d_obs d' = d_obs d.
Proof.
  unfold st_merge, vget, vset. intros H.
  destruct (nth_error (st_sizes s0) c1) as [z1|]; cbn [bind] in H; [|discriminate].
  destruct (nth_error (st_sizes s0) c2) as [z2|]; cbn [bind] in H; [|discriminate].
  destruct (Nat.ltb_spec c2 (length (st_sizes s0))); cbn [bind] in H; [|discriminate].
  destruct (a_remove (st_active s0) c1) as [act| |]; cbn [bind] in H; try discriminate.
  rewrite nth_error_set_nth_eq in H by assumption. cbn [bind] in H.
  unfold d_push in H. destruct (assert_ (d_len d <? d_obs d - 1)); cbn [bind] in H; try discriminate.
  inversion H; subst. exists z1, z2. repeat split; reflexivity.
Qed.

Theorem gen_iter_greedy n0 s d M L i : GInv K n0 s d M L -> LB L n0 (st_queue s) M -> SPos (st_sizes s) L ->
  2 <= length L ->
  forall s' d' M' a b v sz, gen_iter K p meth (s, d, M) i = Ok (s', d', M') ->
    d_steps d' = d_steps d ++ [step_new a b v sz] -> a < b ->
    (forall x y w, In x L -> In y L -> x < y -> wcell M x y = Some w -> ltb w v = false)
    /\ LB (without a L) n0 (st_queue s') M'
    /\ (exists za zb, nth_error (st_sizes s) a = Some za /\ nth_error (st_sizes s) b = Some zb /\ sz = za + zb).
Proof.
  intros (HA & Hwf & HMo & HN & Hnd & Hsz & Hn1 & Hz & Hzmax & HQ & Hbm & Hobs & Hcount) HLB HSP HL2 s' d' M' a' b' v' sz' H Hsteps Hab'.
  set (z := n0 - 1) in *. assert (Hzn : z < n0) by (unfold z; lia).
  pose proof HA as (Hlen & Hl & Hdead).
  assert (HB : forall x, In x L -> x < n0) by (intros x Hx; pose proof (Hzmax x Hx); lia).
  unfold gen_iter in H.
  destruct (@repair_lb M Hwf L n0 z HMo Hz Hzmax Hzn HL2 Hnd Hbm (gen_fuel s) s HA HQ HLB
              ltac:(unfold gen_fuel; destruct HQ as (_ & _ & _ & Hnl & _); rewrite Hnl;
                    pose proof (@filter_len_le_all nat (stale K M (st_queue s) (st_nearest s)) L);
                    assert (length L <= n0) by lia; lia))
    as (q1 & nr1 & Hrep & HQ1 & HLB1 & (a & na & va & pa & E0 & Hna & Hva & Hpa & Hfresh)).
  rewrite Hrep in H. cbn [bind] in H. cbn [st_with_queue st_with_nearest st_queue] in H.
  pose proof HQ1 as (HI1 & HO1 & Hin1 & Hnl1 & Hnear1 & Hpz1 & Hplt1).
  assert (Hne : length (h_heap q1) <> 0).
  { intros E. assert (0 < length (h_heap q1)) by (apply nth_error_Some; congruence). lia. }
  destruct (@pop_spec T ltb n0 q1 HI1 Hne) as (f & q2 & Ef & Hpop & HI2 & Hp2 & Hl2 & Hin2 & Hrm2).
  rewrite E0 in Ef. inversion Ef; subst f.
  rewrite Hpop in H. cbn [bind opt_unwrap] in H. cbn [st_with_queue st_with_nearest st_queue st_nearest] in H.
  assert (HO2 : HOrd ltb q2) by exact (@pop_ord T ltb ltb_irrefl ltb_trans n0 q1 a q2 HI1 HO1 Hpop).
  assert (Ha : In a L) by (apply Hin1; eapply nth_error_In; exact E0).
  assert (Haz : a <> z).
  { destruct (@top_not_z T K ltb_irrefl ltb_negtrans n0 z q1 nr1 L HQ1 Hz HL2 Hnd) as (a2 & E2 & _ & Ha2). congruence. }
  destruct (Hnear1 a Ha Haz) as (b & Hnb & Hb & Hab).
  assert (b = na) by congruence. subst na.
  unfold vget at 1 in H. rewrite Hnb in H. cbn [bind] in H.
  destruct (@mget_cellv T p M Hwf a b Hab ltac:(rewrite HMo; apply HB; exact Hb)) as (dist & Hdc & Hg).
  rewrite Hg in H. cbn [bind] in H.
  assert (dist = va) by (unfold cellv in Hdc; congruence). subst va.
  set (s2 := st_with_queue (st_with_queue (st_with_nearest s nr1) q1) q2) in *.
  assert (HBK : BK K L n0 z a q2 nr1).
  { unfold BK. split; [exact HI2|]. split; [exact HO2|].
    split; [intros x; rewrite Hin2, Hin1; reflexivity|]. split; [exact Hnl1|].
    split; [intros x Hx _ Hxz; exact (Hnear1 x Hx Hxz)|]. rewrite Hp2. split; [exact Hpz1|].
    intros x Hx _ Hxz. exact (Hplt1 x Hx Hxz). }
  assert (HG : GI K L n0 z a (st_active s) (st_sizes s) s2 M).
  { unfold GI, s2. cbn [st_with_queue st_with_nearest st_active st_sizes st_queue st_nearest]. auto 10. }
  destruct (gen_update K p meth s2 M a b dist) as [[s3 M3]| |] eqn:Hupd; cbn [bind] in H; try discriminate.
  assert (HLB2 : LB L a (st_queue s2) M).
  { unfold s2. cbn [st_with_queue st_queue]. intros x y vv w Hx Hy Hxy Hxa Hw Hvv. rewrite Hp2 in Hvv.
    apply (HLB1 x y vv w Hx Hy Hxy); [pose proof (HB x Hx); lia|exact Hw|exact Hvv]. }
  (* the popped pair is a global minimum: w >= prio x >= prio a = dist *)
  assert (Hgmin : forall x y w, In x L -> In y L -> x < y -> wcell M x y = Some w -> ltb w dist = false).
  { intros x y w Hx Hy Hxy Hw.
    assert (Hxz : x <> z) by (pose proof (Hzmax y Hy); lia).
    destruct (Hplt1 x Hx Hxz) as (px & Hpx & _).
    pose proof (HLB1 x y px w Hx Hy Hxy ltac:(pose proof (HB x Hx); lia) Hw Hpx) as B1.
    assert (Hxq : inh q1 x) by (apply Hin1; exact Hx).
    destruct (@inh_pos T n0 q1 x HI1 Hxq) as (kx & Kx & _).
    assert (Ppx : pp q1 kx = Some px) by (unfold pp; rewrite Kx; exact Hpx).
    assert (Pp0 : pp q1 0 = Some pa) by (unfold pp; rewrite E0; exact Hpa).
    pose proof (@top_min T ltb ltb_irrefl ltb_negtrans n0 q1 HI1 HO1 kx px pa Ppx Pp0) as B2.
    pose proof (@ltb_negtrans _ _ _ B1 B2) as B3.
    exact (@ltb_negtrans _ _ _ B3 (@eqb_le _ _ Hfresh)). }
  pose proof (@gen_update_lb L n0 z a b Hzmax Hzn Ha Hb Hab (st_active s) (st_sizes s) Hsz HSP HA HN s2 M dist s3 M3 HG HLB2 Hdc Hnd Hgmin Hupd) as HLB3.
  destruct (st_merge s3 d a b dist) as [[s4 d4]| |] eqn:Hm; cbn [bind] in H; try discriminate.
  inversion H; subst s' d' M'.
  destruct (st_merge_full _ _ _ _ _ Hm) as (za & zb & Hza & Hzb & _ & Hsteps4 & _).
  destruct (@gen_update_update3 T K p meth _ _ _ _ _ _ _ Hupd) as (_ & _ & _ & _ & _ & _ & Hsz3 & _).
  rewrite Hsz3 in Hza, Hzb. unfold s2 in Hza, Hzb. cbn [st_with_queue st_with_nearest st_sizes] in Hza, Hzb.
  rewrite Hsteps4 in Hsteps. apply app_inj_tail in Hsteps. destruct Hsteps as [_ Est].
  unfold step_new in Est. destruct (Nat.ltb_spec b a); [lia|]. destruct (Nat.ltb_spec b' a'); [lia|]. inversion Est; subst a' b' v' sz'.
  rewrite (st_merge_queue _ _ _ _ _ Hm).
  split.
  - exact Hgmin.
  - split; [|exists za, zb; auto].
    intros x y vv w Hx Hy Hxy _ Hw Hvv. apply without_In in Hx. apply without_In in Hy.
    exact (HLB3 x y vv w (proj1 Hx) (proj1 Hy) Hxy (proj2 Hx) Hw Hvv).
Qed.

(* ---- initialisation: the first priorities are exact row minima ---- *)
Lemma ltb_asym u v : ltb u v = true -> ltb v u = false.
Proof.
  intros H. destruct (ltb v u) eqn:C; [|reflexivity].
  pose proof (@ltb_trans _ _ _ H C) as F. rewrite ltb_irrefl in F. discriminate.
Qed.

Lemma init_col_min (M : cmat T) (row : nat) : wf_mat M -> forall cols mn mind mn' mind',
  (forall c, In c cols -> row < c /\ c < m_obs M) ->
  mfold (init_col K p M row) cols (mn, mind) = Ok (mn', mind') ->
  lowr mind' mind /\ forall c w, In c cols -> wcell M row c = Some w -> ltb w mind' = false.
Proof.
  intros Hwf. induction cols as [|c cols IH]; intros mn mind mn' mind' Hc H.
  - cbn [mfold] in H. inversion H; subst. split; [left; reflexivity|intros c w []].
  - cbn [mfold] in H. unfold init_col at 1 in H. destruct (Hc c (or_introl eq_refl)) as [H1 H2].
    destruct (@mget_cellv T p M Hwf row c H1 H2) as (v & Hv & Hg). rewrite Hg in H. cbn [bind] in H.
    unfold cellv in Hv.
    destruct (ltb v mind) eqn:C.
    + destruct (IH c v mn' mind' (fun y Hy => Hc y (or_intror Hy)) H) as [Hlow Hmin].
      split.
      * destruct Hlow as [->|Hlt]; [right; exact C|right; exact (@ltb_trans _ _ _ Hlt C)].
      * intros c' w [<-|Hin] Hw; [|exact (Hmin c' w Hin Hw)].
        rewrite Hv in Hw. inversion Hw; subst w.
        destruct Hlow as [->|Hlt]; [apply ltb_irrefl|exact (@ltb_asym _ _ Hlt)].
    + destruct (IH mn mind mn' mind' (fun y Hy => Hc y (or_intror Hy)) H) as [Hlow Hmin].
      split; [exact Hlow|].
      intros c' w [<-|Hin] Hw; [|exact (Hmin c' w Hin Hw)].
      rewrite Hv in Hw. inversion Hw; subst w. exact (@lowr_keeps _ _ _ Hlow C).
Qed.

Lemma mfold_app_ {A B : Type} (f : B -> A -> res B) l1 : forall l2 (b0 : B),
  mfold f (l1 ++ l2) b0 = (do b1 <- mfold f l1 b0; mfold f l2 b1).
Proof.
  induction l1 as [|h t IHl]; intros l2 b0; [reflexivity|]. cbn [app mfold].
  destruct (f b0 h); cbn [bind]; [apply IHl|reflexivity|reflexivity].
Qed.

Lemma init_rows_lb (M : cmat T) n0 : wf_mat M -> m_obs M = n0 ->
  forall r dists nearest dists' nearest', r <= n0 - 1 -> length dists = n0 -> length nearest = n0 ->
  mfold (init_row K p M) (seq 0 r) (dists, nearest) = Ok (dists', nearest') ->
  length dists' = n0 /\ length nearest' = n0
  /\ forall x y v w, x < r -> x < y -> y < n0 -> wcell M x y = Some w -> nth_error dists' x = Some v -> ltb w v = false.
Proof.
  intros Hwf HMo. induction r as [|r IH]; intros dists nearest dists' nearest' Hr Hld Hln H.
  - cbn [seq mfold] in H. inversion H; subst. split; [exact Hld|]. split; [exact Hln|]. intros; lia.
  - rewrite seq_S in H. cbn [plus] in H. rewrite mfold_app_ in H.
    destruct (mfold (init_row K p M) (seq 0 r) (dists, nearest)) as [[d1 n1]| |] eqn:F; cbn [bind] in H; try discriminate.
    destruct (IH dists nearest d1 n1 ltac:(lia) Hld Hln F) as (Hl1 & Hl2 & Hdone).
    cbn [mfold] in H. unfold init_row at 1 in H.
    destruct (@mget_cellv T p M Hwf r (r + 1) ltac:(lia) ltac:(lia)) as (v0 & Hv0 & Hg0). rewrite Hg0 in H. cbn [bind] in H.
    destruct (mfold (init_col K p M r) (seq (r + 1) (m_obs M - (r + 1))) (r + 1, v0)) as [[mn mind]| |] eqn:Fc; cbn [bind] in H; try discriminate.
    destruct (@init_col_min M r Hwf (seq (r + 1) (m_obs M - (r + 1))) (r + 1) v0 mn mind) as [_ Hmin];
      [intros c Hc; apply in_seq in Hc; lia|exact Fc|].
    unfold vset in H. destruct (Nat.ltb_spec r (length d1)); [|lia]. cbn [bind] in H.
    destruct (Nat.ltb_spec r (length n1)); [|lia]. cbn [bind] in H.
    inversion H; subst dists' nearest'.
    split; [rewrite set_nth_length; exact Hl1|]. split; [rewrite set_nth_length; exact Hl2|].
    intros x y v w Hx Hxy Hy Hw Hv. destruct (Nat.eq_dec x r) as [->|Hxr].
    + rewrite nth_error_set_nth_eq in Hv by lia. inversion Hv; subst v.
      apply (Hmin y w); [apply in_seq; lia|exact Hw].
    + rewrite nth_error_set_nth_neq in Hv by exact Hxr. exact (Hdone x y v w ltac:(lia) Hxy Hy Hw Hv).
Qed.

Lemma generic_init_lb (s : lstate T) (d : dend T) (m : list T) (n0 : nat) :
  n0 <> 0 -> length (square_all K m) = n0 * (n0 - 1) / 2 ->
  Forall (fun v => ltb v (k_inf K) = true) (square_all K m) ->
  let M := {| m_data := square_all K m; m_obs := n0 |} in
  forall s1,
    (do '(dists, nearest) <-
       mfold (init_row K p M) (seq 0 (n0 - 1)) (h_prio (h_heapify_pre (k_inf K) (st_queue (st_reset K s n0))), st_nearest (st_reset K s n0));
     do q1 <- h_heapify_post ltb (h_heapify_pre (k_inf K) (st_queue (st_reset K s n0))) dists;
     Ok (st_with_nearest (st_with_queue (st_reset K s n0) q1) nearest)) = Ok s1 ->
    LB (seq 0 n0) n0 (st_queue s1) M.
Proof.
  intros Hz Hlen Hall M s1 H.
  assert (Hwf : wf_mat M) by (unfold wf_mat, M; cbn [m_data m_obs]; exact Hlen).
  assert (Hq0 : h_heapify_pre (k_inf K) (st_queue (st_reset K s n0)) = h_canonical (k_inf K) n0).
  { unfold h_heapify_pre. cbn [st_reset st_queue]. rewrite (h_reset_canonical (k_inf K) (st_queue s) n0).
    cbn [h_canonical h_prio]. rewrite map_length, seq_length. apply h_reset_canonical. }
  rewrite Hq0 in H. change (st_nearest (st_reset K s n0)) with (clear_resize (st_nearest s) n0 0) in H.
  destruct (mfold (init_row K p M) (seq 0 (n0 - 1)) (h_prio (h_canonical (k_inf K) n0), clear_resize (st_nearest s) n0 0))
    as [[dists nearest]| |] eqn:Hinit; cbn [bind] in H; try discriminate.
  destruct (@init_rows_lb M n0 Hwf eq_refl (n0 - 1) _ _ _ _ ltac:(lia)
              ltac:(cbn [h_canonical h_prio]; rewrite map_length, seq_length; reflexivity)
              ltac:(unfold clear_resize; apply vresize_length) Hinit) as (Hld & Hln & Hrows).
  destruct (@heapify_post_spec T ltb n0 (h_canonical (k_inf K) n0) dists (canonical_inv (k_inf K) n0)
              ltac:(cbn [h_canonical h_heap]; rewrite map_length, seq_length; reflexivity) Hld)
    as (q1 & Hheap & HI1 & Hp1 & _).
  rewrite Hheap in H. cbn [bind] in H. inversion H; subst s1. cbn [st_with_nearest st_with_queue st_queue].
  intros x y v w Hx Hy Hxy _ Hw Hv. apply in_seq in Hx. apply in_seq in Hy. rewrite Hp1 in Hv.
  exact (Hrows x y v w ltac:(lia) Hxy ltac:(lia) Hw Hv).
Qed.

(* ---- the whole run ---- *)
Variable crit : mtree -> mtree -> T -> Prop.
Hypothesis crit_sym : forall A B v, crit A B v -> crit B A v.
Hypothesis crit_merge : forall X A B va vb md,
  crit X A va -> crit X B vb -> crit A B md ->
  crit X (Node A B) (k_upd K va vb md (tsize A) (tsize B) (if uses_size_x meth then tsize X else 0)).
Hypothesis sizes_irrelevant : uses_sizes_ab meth = false ->
  forall va vb md sa sb sa' sb' sx, k_upd K va vb md sa sb sx = k_upd K va vb md sa' sb' sx.

Lemma tsize_pos_ A : 0 < tsize A.
Proof. induction A; cbn [tsize]; lia. Qed.

Lemma gen_fold_greedy n0 : forall (k : nat) i s d M L mem,
  GInv K n0 s d M L -> LWInv crit s M L mem -> LB L n0 (st_queue s) M -> S k <= length L ->
  exists s' d' M' news,
    mfold (gen_iter K p meth) (seq i k) (s, d, M) = Ok (s', d', M')
    /\ d_steps d' = d_steps d ++ news /\ length news = k
    /\ gtrace K crit L mem news.
Proof.
  induction k as [|k IH]; intros i s d M L mem HI HW HLB Hk.
  - exists s, d, M, []. split; [reflexivity|]. rewrite app_nil_r. split; [reflexivity|]. split; [reflexivity|constructor].
  - cbn [seq mfold].
    destruct (@gen_iter_step_ext T K p meth ltb_irrefl ltb_trans ltb_negtrans eqb_refl upd_below_max n0 s d M L i HI ltac:(lia))
      as (s1 & d1 & M1 & a & b & v & sz & Hstep & Ha & Hb & Hab & Hsteps & HI1 & Hmf).
    rewrite Hstep. cbn [bind].
    assert (HSP : SPos (st_sizes s) L).
    { intros x Hx. exists (tsize (mem x)). split; [exact (proj2 HW x Hx)|apply tsize_pos_]. }
    destruct (@gen_iter_greedy n0 s d M L i HI HLB HSP ltac:(lia) s1 d1 M1 a b v sz Hstep Hsteps Hab) as (Hgr & HLB1 & _).
    destruct (@lw_step T K meth crit crit_sym crit_merge sizes_irrelevant s s1 M M1 L mem a b v HW Hmf Ha Hb Hab) as [Hc HW1].
    pose proof HI as (_ & _ & _ & _ & Hnd & _).
    pose proof (without_length a Hnd Ha) as Hwl.
    destruct (IH (S i) s1 d1 M1 (without a L) (upd_mem mem a b) HI1 HW1 HLB1 ltac:(lia))
      as (s' & d' & M' & news & Hf & Hs' & Hln & Hg).
    exists s', d', M', (step_new a b v sz :: news).
    split; [exact Hf|]. split; [rewrite Hs', Hsteps, <- app_assoc; reflexivity|].
    split; [cbn [length]; rewrite Hln; reflexivity|].
    apply g_cons; try assumption.
    intros x y Hx Hy Hxy. destruct (proj1 HW x y Hx Hy Hxy) as (w & Hw & Hcw). exists w. split; [exact Hcw|].
    destruct (Nat.lt_trichotomy x y) as [Hlt|[?|Hgt]]; [exact (Hgr x y w Hx Hy Hlt Hw)|contradiction|].
    rewrite wcell_sym in Hw. exact (Hgr y x w Hy Hx Hgt Hw).
Qed.

Theorem generic_greedy s d m n s' d' m' M0 :
  Forall (fun v => k_ltb K v (k_inf K) = true) (square_all K m) ->
  generic_with K p meth s d m n = Ok (s', d', m') ->
  prologue p (square_all K m) n = Ok M0 ->
  (forall x y v, x <> y -> x < m_obs M0 -> y < m_obs M0 -> wcell M0 x y = Some v -> crit (Leaf x) (Leaf y) v) ->
  exists raw,
    gtrace K crit (seq 0 (m_obs M0)) Leaf raw
    /\ length raw = m_obs M0 - 1
    /\ Permutation (heights d') (map (k_rt K) (map (@s_dis T) raw))
    /\ (requires_sorting meth = false -> heights d' = map (k_rt K) (map (@s_dis T) raw)).
Proof.
  intros Hall H HM0 Hleaf. unfold generic_with in H. rewrite HM0 in H. cbn [bind] in H.
  destruct (Nat.eqb_spec (m_obs M0) 0) as [Hz|Hz].
  - inversion H; subst. exists []. split; [constructor|]. split; [rewrite Hz; reflexivity|].
    unfold heights. cbn [d_reset d_steps map]. split; [constructor|reflexivity].
  - destruct (prologue_wf _ _ _ HM0) as [Hwf Hdata].
    set (n0 := m_obs M0) in *.
    assert (EM : M0 = {| m_data := square_all K m; m_obs := n0 |}) by (destruct M0; cbn in *; subst; reflexivity).
    assert (Hlen : length (square_all K m) = n0 * (n0 - 1) / 2) by (unfold wf_mat in Hwf; rewrite <- Hdata; exact Hwf).
    destruct (@generic_init T K p ltb_irrefl ltb_trans s d m n0 Hz Hlen Hall) as (s1 & Hinit & HG0).
    pose proof (@generic_init_lb s d m n0 Hz Hlen Hall s1 Hinit) as HLB0.
    cbn zeta in Hinit, HG0, HLB0. rewrite <- EM in Hinit, HG0, HLB0.
    destruct (mfold (init_row K p M0) (seq 0 (n0 - 1))
                (h_prio (h_heapify_pre (k_inf K) (st_queue (st_reset K s n0))), st_nearest (st_reset K s n0)))
      as [[dists nearest]| |]; cbn [bind] in Hinit, H; try discriminate.
    destruct (h_heapify_post (k_ltb K) (h_heapify_pre (k_inf K) (st_queue (st_reset K s n0))) dists) as [q1| |];
      cbn [bind] in Hinit, H; try discriminate.
    inversion Hinit as [Es1]. rewrite Es1 in H.
    assert (HW0 : LWInv crit s1 M0 (seq 0 n0) Leaf).
    { split.
      - intros x y Hx Hy Hxy. apply in_seq in Hx. apply in_seq in Hy.
        destruct (@wcell_some T p M0 x y Hwf Hxy ltac:(lia) ltac:(lia)) as (v & Hv).
        exists v. split; [exact Hv|]. apply Hleaf; [exact Hxy|lia|lia|exact Hv].
      - intros x Hx. apply in_seq in Hx. rewrite <- Es1.
        cbn [st_with_nearest st_with_queue st_reset st_sizes tsize]. unfold clear_resize, vresize.
        rewrite firstn_nil. cbn [length app]. rewrite Nat.sub_0_r. apply nth_error_repeat. lia. }
    destruct (@gen_fold_greedy n0 (n0 - 1) 0 _ _ _ _ _ HG0 HW0 HLB0 ltac:(rewrite seq_length; lia))
      as (s2 & d1 & M1 & news & Hfold & Hs & Hln & Hg).
    rewrite Hfold in H. cbn [bind] in H.
    bind_inv H. destruct a as [u d2]. inversion H; subst s' d' m'. clear H.
    cbn [d_reset d_steps app] in Hs.
    exists news. split; [exact Hg|]. split; [exact Hln|].
    assert (Hh1 : heights d1 = map (@s_dis T) news) by (unfold heights; rewrite Hs; reflexivity).
    rewrite heights_sqrt_all.
    destruct (requires_sorting meth) eqn:Hsort.
    + split; [|discriminate].
      destruct (@relabel_heights T (k_ltb K) (k_eqb K) _ _ _ _ _ E) as [_ (l & Hl0 & Hh)].
      destruct (@sort_steps_ok T (k_ltb K) (k_eqb K) (@gt_flip T K) _ _ Hl0) as [_ Hperm].
      rewrite Hh, <- Hh1. apply Permutation_map. unfold heights.
      apply Permutation_map. apply Permutation_sym. exact Hperm.
    + pose proof (proj2 (@relabel_heights T (k_ltb K) (k_eqb K) _ _ _ _ _ E)) as Hh. cbn beta iota in Hh.
      rewrite Hh, Hh1. split; [apply Permutation_refl|reflexivity].
Qed.

End GenericGreedy.
