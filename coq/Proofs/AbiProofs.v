(* C17: agreement of the four layers, decided over the whole (finite) domain:
   7 methods, 4 step fields, 6 functions, 2 headers, Rust, Go. *)
Require Import KV.Model.Abi KV.Model.Methods.
From Coq Require Import List String.
Import ListNotations.
Open Scope string_scope.

Section Agree.
Variable a : abi.

(* position i carries the same method at every layer, and the name mappings
   send X to X *)
Definition enum_agree : Prop :=
  rust_enum a = variants
  /\ hdr_enum a = map c_enumerator (rust_enum a)
  /\ gohdr_enum a = hdr_enum a
  /\ go_consts a = map go_const (rust_enum a)
  /\ rust_into a = map (fun v => (v, v)) (rust_enum a)
  /\ go_switch a = map (fun v => (go_const v, c_enumerator v)) (rust_enum a).

Definition struct_agree : Prop :=
  hdr_fields a = step_fields /\ gohdr_fields a = hdr_fields a /\ rust_fields a = hdr_fields a
  /\ map snd (go_conv a) = map snd (hdr_fields a)
  /\ map (fun p => lower (fst p)) (go_conv a) = map snd (go_conv a).

Definition proto_agree : Prop :=
  gohdr_protos a = hdr_protos a
  /\ map abi_neutral (rust_protos a) = map abi_neutral (hdr_protos a)
  /\ map (fun p => fst (fst p)) (hdr_protos a)
     = ["kodama_dendrogram_free"; "kodama_dendrogram_len"; "kodama_dendrogram_observations";
        "kodama_dendrogram_steps"; "kodama_linkage_double"; "kodama_linkage_float"].

Definition go_len_agree : Prop := go_len a = "(observations*(observations-1))/2".
End Agree.

Theorem model_enum_agree : enum_agree model_abi.
Proof. repeat split; vm_compute; reflexivity. Qed.

Theorem model_struct_agree : struct_agree model_abi.
Proof. repeat split; vm_compute; reflexivity. Qed.

Theorem model_proto_agree : proto_agree model_abi.
Proof. repeat split; vm_compute; reflexivity. Qed.

Theorem model_go_len_agree : go_len_agree model_abi.
Proof. reflexivity. Qed.

(* the enumerator order is the order of the model's `method` type, which is
   what Model/Capi.v (through method_of_Z) and the C driver (through the header
   names) use *)
Definition method_name (m : method) : string :=
  match m with
  | Single => "Single" | Complete => "Complete" | Average => "Average" | Weighted => "Weighted"
  | Ward => "Ward" | Centroid => "Centroid" | Median => "Median"
  end.

Theorem variants_are_methods :
  variants = map method_name [Single; Complete; Average; Weighted; Ward; Centroid; Median].
Proof. reflexivity. Qed.
