(* Transfer of the strict-weak-order theorems to a carrier on which `<` is a
   strict weak order only on a subset `ok` (IEEE floats: the non-NaN values).

   The algorithms are run, in the logic, on the subset type {x | ok x = true};
   there the order laws hold outright, so C04's theorem applies; the C10
   abstraction theorem (order_only, with g = the projection) identifies that run
   with the run on the full carrier whenever the input is inside `ok`. *)
Require Import KV.Model.Prelude KV.Model.Condensed KV.Model.Active KV.Model.Dendrogram KV.Model.Methods KV.Model.State
  KV.Model.Mst KV.Model.Linkage KV.Model.History
  KV.Proofs.ShapeCheck KV.Proofs.ActiveRefine KV.Proofs.PrimitiveGreedy KV.Proofs.PrimitiveWF KV.Proofs.UpdateSpec
  KV.Proofs.SortProofs KV.Proofs.OrderOnly KV.Proofs.RelabelWF KV.Proofs.PrimThreshold KV.Proofs.MstPrim KV.Proofs.MstCuts
  KV.Proofs.LWInvariant KV.Model.Chain KV.Proofs.MstWF KV.Proofs.MstTotal KV.Proofs.ChainIter KV.Proofs.ChainInstances
  KV.Model.Generic KV.Model.Primitive KV.Proofs.PrimitiveTotal KV.Proofs.GenericInv KV.Proofs.GenericInstances
  KV.Proofs.CriteriaRun KV.Proofs.SingleCuts KV.Proofs.SpanningTrees KV.Proofs.MstWeights KV.Proofs.MstWeightsRun KV.Proofs.Shape KV.Proofs.AgreeSingle KV.Proofs.SingleReplay KV.Proofs.SlotProbe.
From Coq Require Import Relations Permutation.

Set Implicit Arguments.

Section Sub.
Variable T : Type.
Variable F : fops T.
Variable ok : T -> bool.
Hypothesis ok_max : ok (f_max F) = true.
Hypothesis ok_inf : ok (f_inf F) = true.
Hypothesis ltb_irrefl : forall a, f_ltb F a a = false.
Hypothesis ltb_trans : forall a b c, f_ltb F a b = true -> f_ltb F b c = true -> f_ltb F a c = true.
Hypothesis ltb_negtrans : forall a b c, ok a = true -> ok b = true -> ok c = true ->
  f_ltb F a b = false -> f_ltb F b c = false -> f_ltb F a c = false.
Hypothesis eqb_nlt : forall a b, f_eqb F a b = true -> f_ltb F b a = false.

Definition sub : Type := {x : T | ok x = true}.
Definition g (x : sub) : T := proj1_sig x.

Definition sinf : sub := exist _ (f_inf F) ok_inf.
Definition smax : sub := exist _ (f_max F) ok_max.

(* the operations on the subset: comparisons and sentinels inherited; the
   arithmetic (never used by single linkage) is a dummy *)
Definition FS : fops sub :=
  {| f_ltb := fun a b => f_ltb F (g a) (g b);
     f_eqb := fun a b => f_eqb F (g a) (g b);
     f_add := fun a _ => a; f_sub := fun a _ => a; f_mul := fun a _ => a; f_div := fun a _ => a;
     f_sqrt := fun a => a; f_abs := fun a => a;
     f_of_nat := fun _ => sinf; f_half := sinf; f_quarter := sinf;
     f_inf := sinf; f_max := smax |}.

Lemma lift_list (l : list T) : Forall (fun v => ok v = true) l -> exists l1 : list sub, map g l1 = l.
Proof.
  induction 1 as [|x l Hx Hl (l1 & IH)]; [exists []; reflexivity|].
  exists (exist _ x Hx :: l1). cbn [map g proj1_sig]. f_equal. exact IH.
Qed.

Notation KS := (kops_of FS Single).
Notation KF := (kops_of F Single).

Lemma KS_irrefl a : k_ltb KS a a = false.
Proof. apply ltb_irrefl. Qed.
Lemma KS_trans a b c : k_ltb KS a b = true -> k_ltb KS b c = true -> k_ltb KS a c = true.
Proof. apply ltb_trans. Qed.
Lemma KS_negtrans a b c : k_ltb KS a b = false -> k_ltb KS b c = false -> k_ltb KS a c = false.
Proof. intros H1 H2. exact (@ltb_negtrans (g a) (g b) (g c) (proj2_sig a) (proj2_sig b) (proj2_sig c) H1 H2). Qed.
Lemma KS_eqb_nlt a b : k_eqb KS a b = true -> k_ltb KS b a = false.
Proof. apply eqb_nlt. Qed.

(* the matrix over the subset maps onto the matrix over the carrier *)
Lemma dcell_map (M1 : cmat sub) x y :
  dcell KF {| m_data := map g (m_data M1); m_obs := m_obs M1 |} x y = g (dcell KS M1 x y).
Proof.
  unfold dcell, wcell, mcell. cbn [m_data m_obs]. rewrite nth_error_map.
  destruct (nth_error (m_data M1) _); reflexivity.
Qed.

Lemma labi_map (n : nat) (l : list (step sub)) i x :
  labi n (map (map_step g) l) i x = labi n l i x.
Proof.
  induction i as [|i IH]; [reflexivity|]. cbn [labi]. rewrite IH, nth_error_map.
  destruct (nth_error l i); reflexivity.
Qed.

Lemma conn_map (M1 : cmat sub) V (t : sub) x y :
  conn (k_ltb KS) (dcell KS M1) V t x y
  <-> conn (k_ltb KF) (dcell KF {| m_data := map g (m_data M1); m_obs := m_obs M1 |}) V (g t) x y.
Proof.
  assert (E : forall a b, edge (k_ltb KS) (dcell KS M1) V t a b
                <-> edge (k_ltb KF) (dcell KF {| m_data := map g (m_data M1); m_obs := m_obs M1 |}) V (g t) a b).
  { intros a b. unfold edge, le_t. rewrite dcell_map. reflexivity. }
  split; intros H; (induction H as [a b Hab| | |]; [apply rst_step; apply E; exact Hab|apply rst_refl|apply rst_sym; assumption|eapply rst_trans; eassumption]).
Qed.

Lemma cut_at_map (t : sub) j (hs : list sub) :
  cut_at KS t j hs <-> cut_at KF (g t) j (map g hs).
Proof.
  unfold cut_at, le_t. split; intros H k h Hk.
  - rewrite nth_error_map in Hk. destruct (nth_error hs k) as [h1|] eqn:E; [|discriminate]. inversion Hk; subst h.
    exact (H k h1 E).
  - apply (H k (g h)). rewrite nth_error_map, Hk. reflexivity.
Qed.

Lemma mst_prologue {U} (K : kops U) p s d m n r : mst_with K p s d m n = Ok r -> exists M, prologue p m n = Ok M.
Proof.
  unfold mst_with. destruct (prologue p m n) as [M| |]; cbn [bind]; [eexists; reflexivity|discriminate|discriminate].
Qed.

(* C04 on the full carrier: for inputs inside `ok` whose entries are below the
   +infinity sentinel, linkage(Single) / mst return a dendrogram whose cuts are
   the threshold components, for every threshold inside `ok` *)
Theorem mst_cuts_carrier (p : profile) (a : algo) s d (m : list T) (n : N) s' d' m' M0 :
  a = ALinkage \/ a = AMst ->
  run_with F p a Single s d m n = Ok (s', d', m') ->
  prologue p m n = Ok M0 ->
  Forall (fun v => ok v = true) m ->
  Forall (fun v => f_ltb F v (f_inf F) = true) m ->
  forall t : T, ok t = true ->
  exists j, j <= m_obs M0 - 1 /\ cut_at KF t j (heights d')
    /\ forall x y, x < m_obs M0 -> y < m_obs M0 ->
        (labi (m_obs M0) (d_steps d') j x = labi (m_obs M0) (d_steps d') j y
         <-> conn (k_ltb KF) (dcell KF M0) (0 :: seq 1 (m_obs M0 - 1)) t x y).
Proof.
  intros Ha Hrun HM0 Hok Hfin t Ht.
  destruct (lift_list Hok) as (m1 & Hm1).
  (* the run on the subset *)
  pose proof (@order_only sub T g (fun _ => True) FS F p
                (fun x y _ _ => eq_refl) (fun x y _ _ => eq_refl) (conj I eq_refl) (conj I eq_refl)
                a Single m1 n (st_new sub) (d_new sub 0) s d (or_introl eq_refl)
                ltac:(apply Forall_forall; intros; exact I)) as Hoo.
  rewrite Hm1, Hrun in Hoo. cbn [out_of] in Hoo.
  destruct (run_with FS p a Single (st_new sub) (d_new sub 0) m1 n) as [[[s1 d1] mm1]| |] eqn:Hrun1;
    cbn [out_of map_out] in Hoo; try discriminate.
  injection Hoo as Hd Hm.
  assert (Hmst : mst_with KS p (st_new sub) (d_new sub 0) m1 n = Ok (s1, d1, mm1)).
  { destruct Ha as [-> | ->]; cbn [run_with linkage_with] in Hrun1; exact Hrun1. }
  destruct (mst_prologue _ _ _ _ _ _ Hmst) as (M1 & HM1).
  destruct (prologue_wf _ _ _ HM1) as [Hwf1 Hdata1].
  (* the two matrices correspond *)
  assert (HM01 : M0 = {| m_data := map g (m_data M1); m_obs := m_obs M1 |}).
  { unfold prologue in HM0, HM1. rewrite <- Hm1, map_length in HM0.
    destruct (shape_check p n (N.of_nat (length m1))) as [q| |]; cbn [bind] in *; try discriminate.
    destruct (obs_to_nat q) as [q'| |]; cbn [bind] in *; try discriminate.
    inversion HM0; inversion HM1; subst. cbn [m_data m_obs]. reflexivity. }
  (* finite entries *)
  assert (Hinf1 : forall x y, x <> y -> x < m_obs M1 -> y < m_obs M1 ->
            k_ltb KS (dcell KS M1 x y) (k_inf KS) = true).
  { intros x y Hxy Hx Hy. destruct (@wcell_some sub p M1 x y Hwf1 Hxy Hx Hy) as (v & Hv).
    unfold dcell. rewrite Hv. cbn [kops_of k_ltb k_inf FS f_ltb f_inf g sinf proj1_sig].
    rewrite Forall_forall in Hfin. apply Hfin. rewrite <- Hm1. apply in_map.
    rewrite <- Hdata1. unfold wcell, mcell in Hv. eapply nth_error_In. exact Hv. }
  destruct (@mst_cuts_all sub KS p KS_irrefl KS_trans KS_negtrans KS_eqb_nlt _ _ _ _ _ _ _ M1 Hmst HM1 Hinf1
              (exist _ t Ht)) as (j & Hj & Hcut & Hpart).
  assert (Hobs : m_obs M0 = m_obs M1) by (rewrite HM01; reflexivity).
  exists j. split; [rewrite Hobs; exact Hj|]. split.
  - rewrite Hd. unfold heights, map_dend. cbn [d_steps]. rewrite map_map.
    change (fun x : step sub => s_dis (map_step g x)) with (fun x : step sub => g (s_dis x)).
    rewrite <- map_map. apply (proj1 (cut_at_map (exist _ t Ht) j (map (@s_dis sub) (d_steps d1)))). exact Hcut.
  - intros x y Hx Hy. rewrite Hd. unfold map_dend. cbn [d_steps]. rewrite !labi_map, Hobs.
    rewrite (Hpart x y ltac:(lia) ltac:(lia)). rewrite HM01. cbn [m_obs].
    apply (conn_map M1 (0 :: seq 1 (m_obs M1 - 1)) (exist _ t Ht) x y).
Qed.

(* ---- C01 / C12 on the full carrier for the selection methods through
   linkage, mst and nnchain: a well-formed input inside `ok` yields a
   well-formed dendrogram or the NaN panic ---- *)
Lemma wf_dend_map_step (n : nat) (l : list (step sub)) :
  wf_dend n l -> wf_dend n (map (map_step g) l).
Proof.
  intros [Hlen Hwf]. split; [rewrite map_length; exact Hlen|].
  intros j t Ht. rewrite nth_error_map in Ht. destruct (nth_error l j) as [t0|] eqn:E; [|discriminate].
  inversion Ht; subst t. destruct (Hwf j t0 E) as (W1 & W2 & W3 & W4). unfold wf_step. cbn [map_step s_c1 s_c2 s_size].
  split; [exact W1|]. split; [exact W2|]. split.
  - intros i t' Hi Ht'. rewrite nth_error_map in Ht'. destruct (nth_error l i) as [t1|] eqn:E1; [|discriminate].
    inversion Ht'; subst t'. cbn [map_step s_c1 s_c2]. exact (W3 i t1 Hi E1).
  - rewrite W4. unfold csize. rewrite !nth_error_map.
    destruct (s_c1 t0 <? n), (s_c2 t0 <? n); try reflexivity;
      repeat match goal with |- context [nth_error l ?k] => destruct (nth_error l k) end; reflexivity.
Qed.

Lemma FS_irrefl a : f_ltb FS a a = false. Proof. apply ltb_irrefl. Qed.
Lemma FS_trans a b c : f_ltb FS a b = true -> f_ltb FS b c = true -> f_ltb FS a c = true. Proof. apply ltb_trans. Qed.
Lemma FS_negtrans a b c : f_ltb FS a b = false -> f_ltb FS b c = false -> f_ltb FS a c = false.
Proof. intros H1 H2. exact (@ltb_negtrans (g a) (g b) (g c) (proj2_sig a) (proj2_sig b) (proj2_sig c) H1 H2). Qed.

Theorem selection_total_wf_carrier (p : profile) (a : algo) (meth : method) s d (m : list T) (n : N) :
  a = ALinkage \/ a = AMst \/ a = ANnchain -> meth = Single \/ meth = Complete ->
  (n < two32)%N -> wf_shape n (N.of_nat (length m)) ->
  Forall (fun v => ok v = true) m ->
  (exists s' d' m', run_with F p a meth s d m n = Ok (s', d', m') /\ wf_dend (d_obs d') (d_steps d'))
  \/ run_with F p a meth s d m n = Panic PNaN.
Proof.
  intros Ha Hmeth Hn Hshape Hok.
  destruct (lift_list Hok) as (m1 & Hm1).
  pose proof (@order_only sub T g (fun _ => True) FS F p
                (fun x y _ _ => eq_refl) (fun x y _ _ => eq_refl) (conj I eq_refl) (conj I eq_refl)
                a meth m1 n (st_new sub) (d_new sub 0) s d Hmeth
                ltac:(apply Forall_forall; intros; exact I)) as Hoo.
  rewrite Hm1 in Hoo.
  assert (Hshape1 : wf_shape n (N.of_nat (length m1))) by (rewrite <- Hm1, map_length in Hshape; exact Hshape).
  (* the run on the subset is total and well formed *)
  assert (Hsub : (exists s1 d1 mm1, run_with FS p a meth (st_new sub) (d_new sub 0) m1 n = Ok (s1, d1, mm1)
                     /\ wf_dend (d_obs d1) (d_steps d1))
                 \/ run_with FS p a meth (st_new sub) (d_new sub 0) m1 n = Panic PNaN).
  { assert (Hmst : (exists s1 d1 mm1, mst_with (kops_of FS Single) p (st_new sub) (d_new sub 0) m1 n = Ok (s1, d1, mm1)
                        /\ wf_dend (d_obs d1) (d_steps d1))
                   \/ mst_with (kops_of FS Single) p (st_new sub) (d_new sub 0) m1 n = Panic PNaN).
    { destruct (@mst_total sub (kops_of FS Single) p (st_new sub) (d_new sub 0) m1 n Hn Hshape1) as [[[[s1 d1] mm1] H]|H]; [left|right; exact H].
      exists s1, d1, mm1. split; [exact H|]. exact (@mst_wf sub (kops_of FS Single) p _ _ _ _ _ _ _ H). }
    destruct Ha as [-> | [-> | ->]]; destruct Hmeth as [-> | ->]; cbn [run_with linkage_with chain_capable]; try exact Hmst.
    - exact (@nnchain_complete_total_wf sub FS p FS_irrefl FS_trans FS_negtrans _ _ m1 n Hn Hshape1).
    - exact (@nnchain_single_total_wf sub FS p FS_irrefl FS_trans FS_negtrans _ _ m1 n Hn Hshape1).
    - exact (@nnchain_complete_total_wf sub FS p FS_irrefl FS_trans FS_negtrans _ _ m1 n Hn Hshape1). }
  destruct Hsub as [(s1 & d1 & mm1 & Hrun1 & Hwf1)|Hnan].
  - rewrite Hrun1 in Hoo. cbn [out_of map_out] in Hoo.
    destruct (run_with F p a meth s d m n) as [[[s' d'] m']| |]; cbn [out_of] in Hoo; try discriminate.
    injection Hoo as Hd Hm. left. exists s', d', m'. split; [reflexivity|]. rewrite Hd. unfold map_dend. cbn [d_obs d_steps].
    apply wf_dend_map_step. exact Hwf1.
  - rewrite Hnan in Hoo. cbn [out_of map_out] in Hoo.
    destruct (run_with F p a meth s d m n) as [[[s' d'] m']| |]; cbn [out_of] in Hoo; try discriminate.
    right. inversion Hoo. reflexivity.
Qed.

(* all five entry points (generic needs `==` reflexive inside `ok` and every
   entry strictly below the max_value sentinel) *)
Hypothesis eqb_refl_ok : forall a, ok a = true -> f_eqb F a a = true.

Lemma FS_eqb_refl a : f_eqb FS a a = true.
Proof. exact (@eqb_refl_ok (g a) (proj2_sig a)). Qed.

Theorem selection_total_wf_carrier_all (p : profile) (a : algo) (meth : method) s d (m : list T) (n : N) :
  meth = Single \/ meth = Complete ->
  (n < two32)%N -> wf_shape n (N.of_nat (length m)) ->
  Forall (fun v => ok v = true) m ->
  Forall (fun v => f_ltb F v (f_inf F) = true) m ->
  (exists s' d' m', run_with F p a meth s d m n = Ok (s', d', m') /\ wf_dend (d_obs d') (d_steps d'))
  \/ run_with F p a meth s d m n = Panic PNaN.
Proof.
  intros Hmeth Hn Hshape Hok Hmax.
  destruct a; try (apply selection_total_wf_carrier; auto; fail).
  - (* generic *)
    destruct (lift_list Hok) as (m1 & Hm1).
    pose proof (@order_only sub T g (fun _ => True) FS F p
                  (fun x y _ _ => eq_refl) (fun x y _ _ => eq_refl) (conj I eq_refl) (conj I eq_refl)
                  AGeneric meth m1 n (st_new sub) (d_new sub 0) s d Hmeth
                  ltac:(apply Forall_forall; intros; exact I)) as Hoo.
    rewrite Hm1 in Hoo.
    assert (Hshape1 : wf_shape n (N.of_nat (length m1))) by (rewrite <- Hm1, map_length in Hshape; exact Hshape).
    assert (Hmax1 : Forall (fun v => f_ltb FS v (f_inf FS) = true) m1).
    { rewrite Forall_forall in Hmax |- *. intros v Hv. apply (Hmax (g v)). rewrite <- Hm1. apply in_map. exact Hv. }
    cbn [run_with] in Hoo |- *.
    destruct (@generic_selection_total_wf sub FS p FS_irrefl FS_trans FS_negtrans FS_eqb_refl meth (st_new sub) (d_new sub 0) m1 n Hmeth Hn Hshape1 Hmax1)
      as [(s1 & d1 & mm1 & Hrun1 & Hwf1)|Hnan].
    + rewrite Hrun1 in Hoo. cbn [out_of map_out] in Hoo.
      destruct (generic_with (kops_of F meth) p meth s d m n) as [[[s' d'] m']| |]; cbn [out_of] in Hoo; try discriminate.
      injection Hoo as Hd Hm. left. exists s', d', m'. split; [reflexivity|]. rewrite Hd. unfold map_dend. cbn [d_obs d_steps].
      apply wf_dend_map_step. exact Hwf1.
    + rewrite Hnan in Hoo. cbn [out_of map_out] in Hoo.
      destruct (generic_with (kops_of F meth) p meth s d m n) as [[[s' d'] m']| |]; cbn [out_of] in Hoo; try discriminate.
      right. inversion Hoo. reflexivity.
  - (* primitive *)
    destruct (@primitive_total T (kops_of F meth) p ltb_trans ltb_irrefl meth s d m n Hn Hshape) as [[[[s' d'] m'] Hrun]|Hnan].
    + left. exists s', d', m'. split; [exact Hrun|].
      exact (@PrimitiveWF.primitive_wf T (kops_of F meth) p ltb_trans ltb_irrefl meth s d m n s' d' m' Hrun).
    + right. exact Hnan.
Qed.

(* ---- C04 on the full carrier for Method::Single through nnchain, generic
   and primitive (SingleCuts.v on the subset, transferred by order_only) ---- *)
Lemma run_prologue_single {U} (FU : fops U) p a s d m n r :
  a = ANnchain \/ a = AGeneric \/ a = APrimitive ->
  run_with FU p a Single s d m n = Ok r -> exists M, prologue p m n = Ok M.
Proof.
  assert (Hsq : square_all (kops_of FU Single) m = m) by (unfold square_all; cbn [kops_of k_sq on_squares]; apply map_id).
  intros [-> | [-> | ->]]; cbn [run_with]; unfold nnchain_with, generic_with, primitive_with; rewrite Hsq;
    (destruct (prologue p m n) as [M| |]; cbn [bind]; [eexists; reflexivity|discriminate|discriminate]).
Qed.

Theorem single_cuts_carrier (p : profile) (a : algo) s d (m : list T) (n : N) s' d' m' M0 :
  a = ANnchain \/ a = AGeneric \/ a = APrimitive ->
  run_with F p a Single s d m n = Ok (s', d', m') ->
  prologue p m n = Ok M0 -> 1 <= m_obs M0 ->
  Forall (fun v => ok v = true) m ->
  Forall (fun v => f_ltb F v (f_inf F) = true) m ->
  forall t : T, ok t = true ->
  exists j, j <= m_obs M0 - 1 /\ cut_at KF t j (heights d')
    /\ forall x y, x < m_obs M0 -> y < m_obs M0 ->
        (labi (m_obs M0) (d_steps d') j x = labi (m_obs M0) (d_steps d') j y
         <-> conn (k_ltb KF) (dcell KF M0) (seq 0 (m_obs M0)) t x y).
Proof.
  intros Ha Hrun HM0 Hn1 Hok Hmax t Ht.
  destruct (lift_list Hok) as (m1 & Hm1).
  pose proof (@order_only sub T g (fun _ => True) FS F p
                (fun x y _ _ => eq_refl) (fun x y _ _ => eq_refl) (conj I eq_refl) (conj I eq_refl)
                a Single m1 n (st_new sub) (d_new sub 0) s d (or_introl eq_refl)
                ltac:(apply Forall_forall; intros; exact I)) as Hoo.
  rewrite Hm1, Hrun in Hoo. cbn [out_of] in Hoo.
  destruct (run_with FS p a Single (st_new sub) (d_new sub 0) m1 n) as [[[s1 d1] mm1]| |] eqn:Hrun1;
    cbn [out_of map_out] in Hoo; try discriminate.
  injection Hoo as Hd Hm.
  destruct (run_prologue_single FS p (st_new sub) (d_new sub 0) m1 n Ha Hrun1) as (M1 & HM1).
  assert (HM01 : M0 = {| m_data := map g (m_data M1); m_obs := m_obs M1 |}).
  { unfold prologue in HM0, HM1. rewrite <- Hm1, map_length in HM0.
    destruct (shape_check p n (N.of_nat (length m1))) as [q| |]; cbn [bind] in *; try discriminate.
    destruct (obs_to_nat q) as [q'| |]; cbn [bind] in *; try discriminate.
    inversion HM0; inversion HM1; subst. cbn [m_data m_obs]. reflexivity. }
  assert (Hobs : m_obs M0 = m_obs M1) by (rewrite HM01; reflexivity).
  assert (Hmax1 : Forall (fun v => f_ltb FS v (f_inf FS) = true) m1).
  { rewrite Forall_forall in Hmax |- *. intros v Hv. apply (Hmax (g v)). rewrite <- Hm1. apply in_map. exact Hv. }
  assert (Hcuts : exists j, j <= m_obs M1 - 1 /\ cut_at KS (exist _ t Ht) j (heights d1)
            /\ forall x y, x < m_obs M1 -> y < m_obs M1 ->
                (labi (m_obs M1) (d_steps d1) j x = labi (m_obs M1) (d_steps d1) j y
                 <-> conn (f_ltb FS) (cell_or (f_inf FS) M1) (seq 0 (m_obs M1)) (exist _ t Ht) x y)).
  { destruct Ha as [-> | [-> | ->]]; cbn [run_with] in Hrun1.
    - exact (@nnchain_single_cuts_all sub FS p FS_irrefl FS_trans FS_negtrans KS_eqb_nlt _ _ _ _ _ _ _ M1 Hrun1 HM1 ltac:(lia) (exist _ t Ht)).
    - exact (@generic_single_cuts_all sub FS p FS_irrefl FS_trans FS_negtrans KS_eqb_nlt FS_eqb_refl _ _ _ _ _ _ _ M1 Hmax1 Hrun1 HM1 ltac:(lia) (exist _ t Ht)).
    - exact (@primitive_single_cuts_all sub FS p FS_irrefl FS_trans FS_negtrans KS_eqb_nlt _ _ _ _ _ _ _ M1 Hrun1 HM1 ltac:(lia) (exist _ t Ht)). }
  destruct Hcuts as (j & Hj & Hcut & Hpart).
  exists j. split; [rewrite Hobs; exact Hj|]. split.
  - rewrite Hd. unfold heights, map_dend. cbn [d_steps]. rewrite map_map.
    change (fun x : step sub => s_dis (map_step g x)) with (fun x : step sub => g (s_dis x)).
    rewrite <- map_map. apply (proj1 (cut_at_map (exist _ t Ht) j (map (@s_dis sub) (d_steps d1)))). exact Hcut.
  - intros x y Hx Hy. rewrite Hd. unfold map_dend. cbn [d_steps]. rewrite !labi_map, Hobs.
    rewrite (Hpart x y ltac:(lia) ltac:(lia)). rewrite HM01. cbn [m_obs].
    apply (conn_map M1 (seq 0 (m_obs M1)) (exist _ t Ht) x y).
Qed.

(* ---- C04, second sentence on the full carrier: the returned heights are the
   edge weights of a minimum spanning tree, all five entry points ---- *)
Lemma count_le_g (t : sub) (l : list sub) :
  count_le (k_ltb KF) (g t) (map g l) = count_le (k_ltb KS) t l.
Proof. rewrite count_le_map. reflexivity. Qed.

Lemma wt_map (M1 : cmat sub) (E : list (nat * nat)) :
  map (wt (dcell KF {| m_data := map g (m_data M1); m_obs := m_obs M1 |})) E = map g (map (wt (dcell KS M1)) E).
Proof. rewrite map_map. apply map_ext. intros e. unfold wt. apply dcell_map. Qed.

Lemma mst_weights_map (M1 : cmat sub) (n0 : nat) (hs : list sub) :
  (forall t, ok t = false -> forall v, f_ltb F t v = false) ->
  mst_weights (k_ltb KS) (dcell KS M1) n0 hs ->
  mst_weights (k_ltb KF) (dcell KF {| m_data := map g (m_data M1); m_obs := m_obs M1 |}) n0 (map g hs).
Proof.
  intros Hnan (E & Hsp & Hperm & Hmin). exists E. split; [exact Hsp|]. split.
  - rewrite wt_map. apply Permutation_map. exact Hperm.
  - intros E' HE' t. rewrite wt_map. destruct (ok t) eqn:Ht.
    + pose proof (count_le_g (exist _ t Ht) (map (wt (dcell KS M1)) E')) as C1.
      pose proof (count_le_g (exist _ t Ht) hs) as C2.
      change (g (exist _ t Ht)) with t in C1, C2. rewrite C1, C2. exact (Hmin E' HE' (exist _ t Ht)).
    + assert (Hall : forall l : list T, count_le (k_ltb KF) t l = length l).
      { intros l. unfold count_le. induction l as [|v l IH]; [reflexivity|]. cbn [filter].
        cbn [kops_of k_ltb]. rewrite (Hnan t Ht v). cbn [negb length]. f_equal. exact IH. }
      rewrite !Hall, !map_length. rewrite (Permutation_length Hperm), map_length.
      destruct Hsp as [H1 _], HE' as [H2 _]. lia.
Qed.

Theorem mst_weights_carrier (p : profile) (a : algo) s d (m : list T) (n : N) s' d' m' M0 :
  run_with F p a Single s d m n = Ok (s', d', m') ->
  prologue p m n = Ok M0 -> 1 <= m_obs M0 ->
  Forall (fun v => ok v = true) m ->
  Forall (fun v => f_ltb F v (f_inf F) = true) m ->
  (forall t, ok t = false -> forall v, f_ltb F t v = false) ->
  mst_weights (k_ltb KF) (dcell KF M0) (m_obs M0) (heights d').
Proof.
  intros Hrun HM0 Hn1 Hok Hfin Hnan.
  destruct (lift_list Hok) as (m1 & Hm1).
  pose proof (@order_only sub T g (fun _ => True) FS F p
                (fun x y _ _ => eq_refl) (fun x y _ _ => eq_refl) (conj I eq_refl) (conj I eq_refl)
                a Single m1 n (st_new sub) (d_new sub 0) s d (or_introl eq_refl)
                ltac:(apply Forall_forall; intros; exact I)) as Hoo.
  rewrite Hm1, Hrun in Hoo. cbn [out_of] in Hoo.
  destruct (run_with FS p a Single (st_new sub) (d_new sub 0) m1 n) as [[[s1 d1] mm1]| |] eqn:Hrun1;
    cbn [out_of map_out] in Hoo; try discriminate.
  injection Hoo as Hd Hm.
  assert (HM1 : exists M1, prologue p m1 n = Ok M1).
  { destruct a; cbn [run_with linkage_with] in Hrun1.
    - exact (mst_prologue _ _ _ _ _ _ Hrun1).
    - exact (mst_prologue _ _ _ _ _ _ Hrun1).
    - exact (run_prologue_single FS p (st_new sub) (d_new sub 0) m1 n (or_introl eq_refl) Hrun1).
    - exact (run_prologue_single FS p (st_new sub) (d_new sub 0) m1 n (or_intror (or_introl eq_refl)) Hrun1).
    - exact (run_prologue_single FS p (st_new sub) (d_new sub 0) m1 n (or_intror (or_intror eq_refl)) Hrun1). }
  destruct HM1 as (M1 & HM1).
  destruct (prologue_wf _ _ _ HM1) as [Hwf1 Hdata1].
  assert (HM01 : M0 = {| m_data := map g (m_data M1); m_obs := m_obs M1 |}).
  { unfold prologue in HM0, HM1. rewrite <- Hm1, map_length in HM0.
    destruct (shape_check p n (N.of_nat (length m1))) as [q| |]; cbn [bind] in *; try discriminate.
    destruct (obs_to_nat q) as [q'| |]; cbn [bind] in *; try discriminate.
    inversion HM0; inversion HM1; subst. cbn [m_data m_obs]. reflexivity. }
  assert (Hobs : m_obs M0 = m_obs M1) by (rewrite HM01; reflexivity).
  assert (Hfin1 : Forall (fun v => f_ltb FS v (f_inf FS) = true) m1).
  { rewrite Forall_forall in Hfin |- *. intros v Hv. apply (Hfin (g v)). rewrite <- Hm1. apply in_map. exact Hv. }
  assert (Hinf1 : forall x y, x <> y -> x < m_obs M1 -> y < m_obs M1 ->
            k_ltb KS (dcell KS M1 x y) (k_inf KS) = true).
  { intros x y Hxy Hx Hy. destruct (@wcell_some sub p M1 x y Hwf1 Hxy Hx Hy) as (v & Hv).
    unfold dcell. rewrite Hv. rewrite Forall_forall in Hfin1. apply Hfin1.
    rewrite <- Hdata1. unfold wcell, mcell in Hv. eapply nth_error_In. exact Hv. }
  assert (HW : mst_weights (k_ltb KS) (dcell KS M1) (m_obs M1) (heights d1)).
  { destruct a; cbn [run_with linkage_with] in Hrun1.
    - exact (@mst_weights_mst sub KS p KS_irrefl KS_trans KS_negtrans _ _ _ _ _ _ _ M1 Hrun1 HM1 ltac:(lia) Hinf1).
    - exact (@mst_weights_mst sub KS p KS_irrefl KS_trans KS_negtrans _ _ _ _ _ _ _ M1 Hrun1 HM1 ltac:(lia) Hinf1).
    - exact (@nnchain_weights_mst sub FS p FS_irrefl FS_trans FS_negtrans _ _ _ _ _ _ _ M1 Hrun1 HM1 ltac:(lia)).
    - exact (@generic_weights_mst sub FS p FS_irrefl FS_trans FS_negtrans FS_eqb_refl KS_eqb_nlt _ _ _ _ _ _ _ M1 Hfin1 Hrun1 HM1 ltac:(lia)).
    - exact (@primitive_weights_mst sub FS p FS_irrefl FS_trans FS_negtrans _ _ _ _ _ _ _ M1 Hrun1 HM1 ltac:(lia)). }
  rewrite Hd, Hobs, HM01. unfold heights, map_dend. cbn [d_steps]. rewrite map_map.
  change (fun x : step sub => s_dis (map_step g x)) with (fun x : step sub => g (s_dis x)).
  rewrite <- (map_map (@s_dis sub) g (d_steps d1)). apply mst_weights_map; [exact Hnan|exact HW].
Qed.

(* ---- C06 for Method::Single on the full carrier: any two entry points return the same
   labelled dendrogram when the heights returned by one are pairwise distinct ---- *)
Theorem single_same_dendrogram_carrier (p : profile) (a1 a2 : algo) s1 d1 s2 d2 (m : list T) (n : N)
  sr1 dr1 mr1 sr2 dr2 mr2 M0 :
  (n < two32)%N ->
  run_with F p a1 Single s1 d1 m n = Ok (sr1, dr1, mr1) ->
  run_with F p a2 Single s2 d2 m n = Ok (sr2, dr2, mr2) ->
  prologue p m n = Ok M0 -> 1 <= m_obs M0 ->
  Forall (fun v => ok v = true) m ->
  Forall (fun v => f_ltb F v (f_inf F) = true) m ->
  strictly F (heights dr1) ->
  length (d_steps dr1) = length (d_steps dr2)
  /\ forall i t t', nth_error (d_steps dr1) i = Some t -> nth_error (d_steps dr2) i = Some t' ->
       s_c1 t = s_c1 t' /\ s_c2 t = s_c2 t' /\ s_size t = s_size t' /\ eqv (f_ltb F) (s_dis t) (s_dis t').
Proof.
  intros Hn32 Hrun1 Hrun2 HM0 Hn1 Hok Hfin Hstrict.
  destruct (lift_list Hok) as (m1 & Hm1).
  assert (Hsub : forall a s d sr dr mr, run_with F p a Single s d m n = Ok (sr, dr, mr) ->
            exists ss ds ms, run_with FS p a Single (st_new sub) (d_new sub 0) m1 n = Ok (ss, ds, ms) /\ dr = map_dend g ds).
  { intros a s d sr dr mr Hrun.
    pose proof (@order_only sub T g (fun _ => True) FS F p
                  (fun x y _ _ => eq_refl) (fun x y _ _ => eq_refl) (conj I eq_refl) (conj I eq_refl)
                  a Single m1 n (st_new sub) (d_new sub 0) s d (or_introl eq_refl)
                  ltac:(apply Forall_forall; intros; exact I)) as Hoo.
    rewrite Hm1, Hrun in Hoo. cbn [out_of] in Hoo.
    destruct (run_with FS p a Single (st_new sub) (d_new sub 0) m1 n) as [[[ss ds] ms]| |];
      cbn [out_of map_out] in Hoo; try discriminate.
    injection Hoo as Hd Hm. exists ss, ds, ms. split; [reflexivity|exact Hd]. }
  destruct (Hsub a1 s1 d1 sr1 dr1 mr1 Hrun1) as (ss1 & ds1 & ms1 & R1 & ->).
  destruct (Hsub a2 s2 d2 sr2 dr2 mr2 Hrun2) as (ss2 & ds2 & ms2 & R2 & ->).
  assert (HM1 : exists M1, prologue p m1 n = Ok M1).
  { unfold prologue in HM0 |- *. rewrite <- Hm1, map_length in HM0.
    destruct (shape_check p n (N.of_nat (length m1))) as [q| |]; cbn [bind] in *; try discriminate.
    destruct (obs_to_nat q) as [q'| |]; cbn [bind] in *; try discriminate. eexists. reflexivity. }
  destruct HM1 as (M1 & HM1).
  assert (Hobs : m_obs M0 = m_obs M1).
  { unfold prologue in HM0, HM1. rewrite <- Hm1, map_length in HM0.
    destruct (shape_check p n (N.of_nat (length m1))) as [q| |]; cbn [bind] in *; try discriminate.
    destruct (obs_to_nat q) as [q'| |]; cbn [bind] in *; try discriminate.
    inversion HM0; inversion HM1; subst. reflexivity. }
  assert (Hfin1 : Forall (fun v => f_ltb FS v (f_inf FS) = true) m1).
  { rewrite Forall_forall in Hfin |- *. intros v Hv. apply (Hfin (g v)). rewrite <- Hm1. apply in_map. exact Hv. }
  assert (Hheights : forall ds : dend sub, heights (map_dend g ds) = map g (heights ds)).
  { intros ds. unfold heights, map_dend. cbn [d_steps]. rewrite !map_map. reflexivity. }
  assert (Hstrict1 : strictly FS (heights ds1)).
  { intros i k a b Hik Ha Hb. apply (Hstrict i k (g a) (g b) Hik); rewrite Hheights, nth_error_map; [rewrite Ha|rewrite Hb]; reflexivity. }
  destruct (@single_same_dendrogram sub FS p FS_irrefl FS_trans FS_negtrans KS_eqb_nlt FS_eqb_refl a1 a2
              (st_new sub) (d_new sub 0) (st_new sub) (d_new sub 0) m1 n ss1 ds1 ms1 ss2 ds2 ms2 M1
              Hn32 R1 R2 HM1 ltac:(lia) Hfin1 Hstrict1) as [HL HS].
  split; [unfold map_dend; cbn [d_steps]; rewrite !map_length; exact HL|].
  intros i t t' Ht Ht'. unfold map_dend in Ht, Ht'. cbn [d_steps] in Ht, Ht'. rewrite nth_error_map in Ht, Ht'.
  destruct (nth_error (d_steps ds1) i) as [t0|] eqn:E0; [|discriminate].
  destruct (nth_error (d_steps ds2) i) as [t0'|] eqn:E0'; [|discriminate].
  inversion Ht; inversion Ht'; subst t t'. cbn [map_step s_c1 s_c2 s_size s_dis].
  exact (HS i t0 t0' E0 E0').
Qed.

(* ---- C03 for Method::Single on the full carrier, every entry point: replaying the returned
   steps, no two observations in different current clusters are closer than the merge height;
   with pairwise distinct heights the height is realised between the two merged clusters ---- *)
Theorem single_replay_greedy_carrier (p : profile) (a : algo) s d (m : list T) (n : N) s' d' m' M0 :
  (n < two32)%N ->
  run_with F p a Single s d m n = Ok (s', d', m') ->
  prologue p m n = Ok M0 -> 1 <= m_obs M0 ->
  Forall (fun v => ok v = true) m ->
  Forall (fun v => f_ltb F v (f_inf F) = true) m ->
  (forall j t, nth_error (d_steps d') j = Some t ->
     forall x y, x < m_obs M0 -> y < m_obs M0 ->
       labi (m_obs M0) (d_steps d') j x <> labi (m_obs M0) (d_steps d') j y ->
       f_ltb F (dcell KF M0 x y) (s_dis t) = false)
  /\ (strictly F (heights d') ->
      forall j t, nth_error (d_steps d') j = Some t ->
      exists x y, x < m_obs M0 /\ y < m_obs M0
        /\ labi (m_obs M0) (d_steps d') j x = s_c1 t /\ labi (m_obs M0) (d_steps d') j y = s_c2 t
        /\ f_ltb F (s_dis t) (dcell KF M0 x y) = false).
Proof.
  intros Hn32 Hrun HM0 Hn1 Hok Hfin.
  destruct (lift_list Hok) as (m1 & Hm1).
  pose proof (@order_only sub T g (fun _ => True) FS F p
                (fun x y _ _ => eq_refl) (fun x y _ _ => eq_refl) (conj I eq_refl) (conj I eq_refl)
                a Single m1 n (st_new sub) (d_new sub 0) s d (or_introl eq_refl)
                ltac:(apply Forall_forall; intros; exact I)) as Hoo.
  rewrite Hm1, Hrun in Hoo. cbn [out_of] in Hoo.
  destruct (run_with FS p a Single (st_new sub) (d_new sub 0) m1 n) as [[[ss ds] ms]| |] eqn:Hrun1;
    cbn [out_of map_out] in Hoo; try discriminate.
  injection Hoo as Hd Hm.
  assert (HM1 : exists M1, prologue p m1 n = Ok M1 /\ M0 = {| m_data := map g (m_data M1); m_obs := m_obs M1 |}).
  { unfold prologue in HM0 |- *. rewrite <- Hm1, map_length in HM0.
    destruct (shape_check p n (N.of_nat (length m1))) as [q| |]; cbn [bind] in *; try discriminate.
    destruct (obs_to_nat q) as [q'| |]; cbn [bind] in *; try discriminate.
    eexists. split; [reflexivity|]. inversion HM0; subst. cbn [m_data m_obs]. reflexivity. }
  destruct HM1 as (M1 & HM1 & HM01).
  assert (Hobs : m_obs M0 = m_obs M1) by (rewrite HM01; reflexivity).
  assert (Hfin1 : Forall (fun v => f_ltb FS v (f_inf FS) = true) m1).
  { rewrite Forall_forall in Hfin |- *. intros v Hv. apply (Hfin (g v)). rewrite <- Hm1. apply in_map. exact Hv. }
  destruct (@single_replay_greedy sub FS p FS_irrefl FS_trans FS_negtrans KS_eqb_nlt FS_eqb_refl a
              (st_new sub) (d_new sub 0) m1 n ss ds ms M1 Hn32 Hrun1 HM1 ltac:(lia) Hfin1) as [G1 G2].
  assert (Hsteps : d_steps d' = map (map_step g) (d_steps ds)) by (rewrite Hd; reflexivity).
  split.
  - intros j t Ht x y Hx Hy Hne. rewrite Hsteps, nth_error_map in Ht.
    destruct (nth_error (d_steps ds) j) as [t0|] eqn:E0; [|discriminate]. inversion Ht; subst t. cbn [map_step s_dis].
    rewrite HM01, dcell_map. rewrite Hsteps, !labi_map, Hobs in Hne.
    exact (G1 j t0 E0 x y ltac:(lia) ltac:(lia) Hne).
  - intros Hstrict j t Ht.
    assert (Hstrict1 : strictly FS (heights ds)).
    { intros i k a0 b0 Hik Ha Hb. apply (Hstrict i k (g a0) (g b0) Hik);
        unfold heights; rewrite Hsteps, map_map, nth_error_map; unfold heights in Ha, Hb; rewrite nth_error_map in Ha, Hb.
      - destruct (nth_error (d_steps ds) i); [|discriminate]. inversion Ha; subst. reflexivity.
      - destruct (nth_error (d_steps ds) k); [|discriminate]. inversion Hb; subst. reflexivity. }
    rewrite Hsteps, nth_error_map in Ht.
    destruct (nth_error (d_steps ds) j) as [t0|] eqn:E0; [|discriminate]. inversion Ht; subst t. cbn [map_step s_dis s_c1 s_c2].
    destruct (G2 Hstrict1 j t0 E0) as (x & y & Hx & Hy & Lx & Ly & Hd').
    exists x, y. rewrite Hsteps, !labi_map, Hobs. split; [lia|]. split; [lia|]. split; [exact Lx|]. split; [exact Ly|].
    rewrite HM01, dcell_map. exact Hd'.
Qed.

(* ---- C07, observable consequence, on the full carrier ---- *)
Lemma sub_run (p : profile) (a : algo) s d (m : list T) (n : N) s' d' m' M0 :
  run_with F p a Single s d m n = Ok (s', d', m') ->
  prologue p m n = Ok M0 ->
  Forall (fun v => ok v = true) m ->
  Forall (fun v => f_ltb F v (f_inf F) = true) m ->
  exists m1 ss ds ms M1,
    map g m1 = m /\ run_with FS p a Single (st_new sub) (d_new sub 0) m1 n = Ok (ss, ds, ms)
    /\ d' = map_dend g ds /\ prologue p m1 n = Ok M1
    /\ M0 = {| m_data := map g (m_data M1); m_obs := m_obs M1 |}
    /\ Forall (fun v => f_ltb FS v (f_inf FS) = true) m1.
Proof.
  intros Hrun HM0 Hok Hfin.
  destruct (lift_list Hok) as (m1 & Hm1).
  pose proof (@order_only sub T g (fun _ => True) FS F p
                (fun x y _ _ => eq_refl) (fun x y _ _ => eq_refl) (conj I eq_refl) (conj I eq_refl)
                a Single m1 n (st_new sub) (d_new sub 0) s d (or_introl eq_refl)
                ltac:(apply Forall_forall; intros; exact I)) as Hoo.
  rewrite Hm1, Hrun in Hoo. cbn [out_of] in Hoo.
  destruct (run_with FS p a Single (st_new sub) (d_new sub 0) m1 n) as [[[ss ds] ms]| |] eqn:Hrun1;
    cbn [out_of map_out] in Hoo; try discriminate.
  injection Hoo as Hd Hm.
  assert (HM1 : exists M1, prologue p m1 n = Ok M1 /\ M0 = {| m_data := map g (m_data M1); m_obs := m_obs M1 |}).
  { unfold prologue in HM0 |- *. rewrite <- Hm1, map_length in HM0.
    destruct (shape_check p n (N.of_nat (length m1))) as [q| |]; cbn [bind] in *; try discriminate.
    destruct (obs_to_nat q) as [q'| |]; cbn [bind] in *; try discriminate.
    eexists. split; [reflexivity|]. inversion HM0; subst. cbn [m_data m_obs]. reflexivity. }
  destruct HM1 as (M1 & HM1 & HM01).
  exists m1, ss, ds, ms, M1. split; [exact Hm1|]. split; [exact Hrun1|]. split; [exact Hd|]. split; [exact HM1|]. split; [exact HM01|].
  rewrite Forall_forall in Hfin |- *. intros v Hv. apply (Hfin (g v)). rewrite <- Hm1. apply in_map. exact Hv.
Qed.

Theorem single_first_step_probe_carrier (p : profile) (a0 : algo) s d (m : list T) (n : N) s' d' m' M0 (a b : nat) :
  (n < two32)%N ->
  run_with F p a0 Single s d m n = Ok (s', d', m') ->
  prologue p m n = Ok M0 ->
  Forall (fun v => ok v = true) m ->
  Forall (fun v => f_ltb F v (f_inf F) = true) m ->
  a < b -> b < m_obs M0 ->
  (forall x y, x < y -> y < m_obs M0 -> ~ (x = a /\ y = b) -> f_ltb F (dcell KF M0 a b) (dcell KF M0 x y) = true) ->
  exists t, nth_error (d_steps d') 0 = Some t /\ s_c1 t = a /\ s_c2 t = b
    /\ eqv (f_ltb F) (s_dis t) (dcell KF M0 a b).
Proof.
  intros Hn32 Hrun HM0 Hok Hfin Hab Hb Hmin.
  destruct (@sub_run p a0 s d m n s' d' m' M0 Hrun HM0 Hok Hfin) as (m1 & ss & ds & ms & M1 & Hm1 & Hrun1 & Hd & HM1 & HM01 & Hfin1).
  assert (Hobs : m_obs M0 = m_obs M1) by (rewrite HM01; reflexivity).
  destruct (@single_first_step_probe sub FS p FS_irrefl FS_trans FS_negtrans KS_eqb_nlt FS_eqb_refl a0
              (st_new sub) (d_new sub 0) m1 n ss ds ms M1 a b Hn32 Hrun1 HM1 Hfin1 Hab ltac:(lia)) as (t & Et & E1 & E2 & Ev).
  - intros x y Hxy Hy Hne. pose proof (Hmin x y Hxy ltac:(lia) Hne) as H. rewrite HM01, !dcell_map in H. exact H.
  - exists (map_step g t). rewrite Hd. unfold map_dend. cbn [d_steps]. rewrite nth_error_map, Et. split; [reflexivity|].
    cbn [map_step s_c1 s_c2 s_dis]. split; [exact E1|]. split; [exact E2|]. rewrite HM01, dcell_map. exact Ev.
Qed.

Theorem single_second_step_probe_carrier (p : profile) (a0 : algo) s d (m : list T) (n : N) s' d' m' M0 (a b c e : nat) :
  (n < two32)%N ->
  run_with F p a0 Single s d m n = Ok (s', d', m') ->
  prologue p m n = Ok M0 ->
  Forall (fun v => ok v = true) m ->
  Forall (fun v => f_ltb F v (f_inf F) = true) m ->
  a < b -> b < m_obs M0 -> c < e -> e < m_obs M0 -> ~ (c = a /\ e = b) ->
  (forall x y, x < y -> y < m_obs M0 -> ~ (x = a /\ y = b) -> f_ltb F (dcell KF M0 a b) (dcell KF M0 x y) = true) ->
  (forall x y, x < y -> y < m_obs M0 -> ~ ((x = a /\ y = b) \/ (x = c /\ y = e)) -> f_ltb F (dcell KF M0 c e) (dcell KF M0 x y) = true) ->
  exists t1, nth_error (d_steps d') 1 = Some t1
    /\ labi (m_obs M0) (d_steps d') 1 c <> labi (m_obs M0) (d_steps d') 1 e
    /\ labi (m_obs M0) (d_steps d') 2 c = labi (m_obs M0) (d_steps d') 2 e
    /\ ((s_c1 t1 = labi (m_obs M0) (d_steps d') 1 c /\ s_c2 t1 = labi (m_obs M0) (d_steps d') 1 e)
        \/ (s_c1 t1 = labi (m_obs M0) (d_steps d') 1 e /\ s_c2 t1 = labi (m_obs M0) (d_steps d') 1 c))
    /\ eqv (f_ltb F) (s_dis t1) (dcell KF M0 c e).
Proof.
  intros Hn32 Hrun HM0 Hok Hfin Hab Hb Hce He Hne Hmin Hmin2.
  destruct (@sub_run p a0 s d m n s' d' m' M0 Hrun HM0 Hok Hfin) as (m1 & ss & ds & ms & M1 & Hm1 & Hrun1 & Hd & HM1 & HM01 & Hfin1).
  assert (Hobs : m_obs M0 = m_obs M1) by (rewrite HM01; reflexivity).
  destruct (@single_second_step_probe sub FS p FS_irrefl FS_trans FS_negtrans KS_eqb_nlt FS_eqb_refl a0
              (st_new sub) (d_new sub 0) m1 n ss ds ms M1 a b c e Hn32 Hrun1 HM1 Hfin1 Hab ltac:(lia) Hce ltac:(lia) Hne)
    as (t1 & Et & L1 & L2 & Lc & Ev).
  - intros x y Hxy Hy N. pose proof (Hmin x y Hxy ltac:(lia) N) as H. rewrite HM01, !dcell_map in H. exact H.
  - intros x y Hxy Hy N. pose proof (Hmin2 x y Hxy ltac:(lia) N) as H. rewrite HM01, !dcell_map in H. exact H.
  - exists (map_step g t1). rewrite Hd. unfold map_dend. cbn [d_steps]. rewrite nth_error_map, Et, !labi_map, Hobs.
    split; [reflexivity|]. cbn [map_step s_c1 s_c2 s_dis]. split; [exact L1|]. split; [exact L2|]. split; [exact Lc|].
    rewrite HM01, dcell_map. exact Ev.
Qed.

End Sub.
