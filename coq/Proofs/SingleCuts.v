(* C04 for primitive, nnchain and generic with Method::Single (what mst is
   proved to satisfy in MstCuts.v): for every threshold t, cutting the RETURNED
   dendrogram after the steps of weight <= t gives exactly the connected
   components of the threshold graph of the input matrix - under any pattern of
   ties, for any carrier with a strict weak order.

   Each of the three loops is a trace of weak reciprocal-nearest-neighbour
   merges under the single-linkage criterion (SingleThreshold.v); the sort +
   relabel pass is handled as in MstCuts.v. *)
Require Import KV.Model.Prelude KV.Model.Condensed KV.Model.Active KV.Model.Heap
  KV.Model.UnionFind KV.Model.Dendrogram KV.Model.Methods KV.Model.State KV.Model.Primitive KV.Model.Chain KV.Model.Generic
  KV.Proofs.ResetCanon KV.Proofs.ActiveRefine KV.Proofs.CondensedIdx KV.Proofs.SortProofs KV.Proofs.Monotone
  KV.Proofs.MstCost KV.Proofs.Shape KV.Proofs.PrimitiveGreedy KV.Proofs.Forest KV.Proofs.UnionFindInv
  KV.Proofs.RelabelWF KV.Proofs.PrimitiveWF KV.Proofs.PrimitiveTotal KV.Proofs.UpdateSpec KV.Proofs.ShapeCheck
  KV.Proofs.LWInvariant KV.Proofs.CriteriaRun KV.Proofs.PrimThreshold KV.Proofs.MstCuts
  KV.Proofs.ChainInv KV.Proofs.ChainIter KV.Proofs.ChainCriterion KV.Proofs.ChainInstances
  KV.Proofs.HeapInv KV.Proofs.GenericInv KV.Proofs.GenericGreedy KV.Proofs.AgreePG KV.Proofs.SingleThreshold.
From Coq Require Import Permutation Relations Sorting.Sorted.

Set Implicit Arguments.

Section SingleCuts.
Variable T : Type.
Variable F : fops T.
Variable p : profile.
Hypothesis ltb_irrefl : forall a, f_ltb F a a = false.
Hypothesis ltb_trans : forall a b c, f_ltb F a b = true -> f_ltb F b c = true -> f_ltb F a c = true.
Hypothesis ltb_negtrans : forall a b c, f_ltb F a b = false -> f_ltb F b c = false -> f_ltb F a c = false.

Notation K := (kops_of F Single).
Notation ltb := (f_ltb F).

Section Run.
Variable M0 : cmat T.
Notation d0 := (cell_or (f_inf F) M0).
Notation crit := (is_min_over ltb d0).

Lemma crit_sym_ A B v : crit A B v -> crit B A v.
Proof. apply min_sym. apply cell_or_sym. Qed.

Lemma crit_merge_ X A B va vb md : crit X A va -> crit X B vb -> crit A B md ->
  crit X (Node A B) (k_upd K va vb md (tsize A) (tsize B) (if uses_size_x Single then tsize X else 0)).
Proof. intros Ha Hb _. exact (@min_merge T ltb ltb_trans ltb_negtrans _ X A B va vb Ha Hb). Qed.

Lemma sizes_irr : uses_sizes_ab Single = false ->
  forall va vb md sa sb sa' sb' sx, k_upd K va vb md sa sb sx = k_upd K va vb md sa' sb' sx.
Proof. intros _ va vb md sa sb sa' sb' sx. reflexivity. Qed.

(* a (weak) RNN merge on the working matrix is one on the leaves *)
Lemma sl_of_weak s M L mem a b v :
  LWInv crit s M L mem -> In a L -> In b L ->
  (forall x w, In x L -> x <> a -> x <> b -> (wcell M x a = Some w \/ wcell M x b = Some w) -> ltb w v = false) ->
  forall x, In x L -> x <> a -> x <> b -> forall x' y',
    In x' (leaves (mem a)) \/ In x' (leaves (mem b)) -> In y' (leaves (mem x)) -> ltb (d0 x' y') v = false.
Proof.
  intros (HW & _) Ha Hb Hfar x Hx Hxa Hxb x' y' Hx' Hy'.
  destruct Hx' as [Hx'|Hx'].
  - destruct (HW a x Ha Hx ltac:(congruence)) as (wa & Ca & [_ Hlow]).
    assert (Ca' : wcell M x a = Some wa) by (rewrite wcell_sym; exact Ca).
    exact (@ltb_negtrans _ _ _ (Hlow x' y' Hx' Hy') (Hfar x wa Hx Hxa Hxb (or_introl Ca'))).
  - destruct (HW b x Hb Hx ltac:(congruence)) as (wb & Cb & [_ Hlow]).
    assert (Cb' : wcell M x b = Some wb) by (rewrite wcell_sym; exact Cb).
    exact (@ltb_negtrans _ _ _ (Hlow x' y' Hx' Hy') (Hfar x wb Hx Hxa Hxb (or_intror Cb'))).
Qed.

Lemma wcell_mm (M : cmat T) x y : wcell M (Nat.min x y) (Nat.max x y) = wcell M x y.
Proof.
  unfold wcell. destruct (Nat.le_ge_cases x y).
  - rewrite (Nat.min_l x y), (Nat.max_r x y) by lia. rewrite Nat.min_l, Nat.max_r by lia. reflexivity.
  - rewrite (Nat.min_r x y), (Nat.max_l x y) by lia. rewrite Nat.min_l, Nat.max_r by lia. reflexivity.
Qed.

(* ---- the three loops as traces ---- *)
Lemma prim_fold_sl : forall (k : nat) i s d M L mem s' d' M',
  PInv s M L -> LWInv crit s M L mem ->
  mfold (prim_iter K p Single) (seq i k) (s, d, M) = Ok (s', d', M') ->
  exists news, d_steps d' = d_steps d ++ news /\ length news = k /\ sltrace ltb d0 L mem news.
Proof.
  induction k as [|k IH]; intros i s d M L mem s' d' M' HP HW H; cbn [seq mfold] in H.
  - inversion H; subst. exists []. rewrite app_nil_r. split; [reflexivity|]. split; [reflexivity|constructor].
  - destruct (prim_iter K p Single (s, d, M) i) as [[[s1 d1] M1]| |] eqn:E; cbn [bind] in H; try discriminate.
    destruct (@prim_iter_facts T K p Single ltb_irrefl ltb_trans sizes_irr s d M i s1 d1 M1 L HP E)
      as (a & b & v & za & zb & Ha & Hb & Hab & Hv & Hmin & Hza & Hzb & Hsteps & Hobs & HP1 & Hmf).
    destruct (@lw_step T K Single crit crit_sym_ crit_merge_ sizes_irr s s1 M M1 L mem a b v HW Hmf Ha Hb Hab) as [Hc HW1].
    assert (Hfar : forall x w, In x L -> x <> a -> x <> b -> (wcell M x a = Some w \/ wcell M x b = Some w) -> ltb w v = false).
    { intros x w Hx Hxa Hxb [Hw|Hw].
      - rewrite <- wcell_mm in Hw. apply (Hmin (Nat.min x a) (Nat.max x a) w); [| |lia|exact Hw].
        + destruct (Nat.min_spec x a) as [[_ ->]|[_ ->]]; assumption.
        + destruct (Nat.max_spec x a) as [[_ ->]|[_ ->]]; assumption.
      - rewrite <- wcell_mm in Hw. apply (Hmin (Nat.min x b) (Nat.max x b) w); [| |lia|exact Hw].
        + destruct (Nat.min_spec x b) as [[_ ->]|[_ ->]]; assumption.
        + destruct (Nat.max_spec x b) as [[_ ->]|[_ ->]]; assumption. }
    destruct (IH (S i) s1 d1 M1 (without a L) (upd_mem mem a b) s' d' M' HP1 HW1 H) as (news & Hs' & Hln & Hst).
    exists (step_new a b v (za + zb) :: news).
    split; [rewrite Hs', Hsteps, <- app_assoc; reflexivity|]. split; [cbn [length]; rewrite Hln; reflexivity|].
    apply sl_cons; try assumption. exact (@sl_of_weak s M L mem a b v HW Ha Hb Hfar).
Qed.

Lemma chain_fold_sl n0 : forall (k : nat) i s d M L mem,
  NInv K n0 s d M L -> LWInv crit s M L mem -> S k <= length L ->
  exists s' d' M' news,
    mfold (chain_iter K p Single) (seq i k) (s, d, M) = Ok (s', d', M')
    /\ d_steps d' = d_steps d ++ news /\ length news = k /\ sltrace ltb d0 L mem news.
Proof.
  induction k as [|k IH]; intros i s d M L mem HI HW Hk.
  - exists s, d, M, []. split; [reflexivity|]. rewrite app_nil_r. split; [reflexivity|]. split; [reflexivity|constructor].
  - cbn [seq mfold].
    destruct (@chain_iter_step_ext T K p Single ltb_irrefl ltb_trans ltb_negtrans
                ltac:(intros va vb md sa sb sx _ _ _; apply single_reducible; exact ltb_irrefl) n0 s d M L i HI ltac:(lia))
      as (s1 & d1 & M1 & a & b & v & sz & Hstep & Ha & Hb & Hab & Hsteps & HI1 & Hmf & Hfar).
    rewrite Hstep. cbn [bind].
    destruct (@lw_step T K Single crit crit_sym_ crit_merge_ sizes_irr s s1 M M1 L mem a b v HW Hmf Ha Hb Hab) as [Hc HW1].
    pose proof HI as (_ & _ & _ & _ & Hnd & _).
    pose proof (without_length a Hnd Ha) as Hwl.
    destruct (IH (S i) s1 d1 M1 (without a L) (upd_mem mem a b) HI1 HW1 ltac:(lia))
      as (s' & d' & M' & news & Hf & Hs' & Hln & Hst).
    exists s', d', M', (step_new a b v sz :: news).
    split; [exact Hf|]. split; [rewrite Hs', Hsteps, <- app_assoc; reflexivity|].
    split; [cbn [length]; rewrite Hln; reflexivity|].
    apply sl_cons; try assumption. exact (@sl_of_weak s M L mem a b v HW Ha Hb Hfar).
Qed.

End Run.

(* ---- from a trace to the cuts of the returned dendrogram ---- *)
Lemma sqrt_all_single (d : dend T) : sqrt_all K d = d.
Proof.
  unfold sqrt_all. cbn [kops_of k_rt on_squares]. destruct d as [st o]. cbn [d_steps d_obs]. f_equal.
  rewrite <- (map_id st) at 2. apply map_ext. intros [c1 c2 x sz]. reflexivity.
Qed.

Lemma cuts_of_trace (M0 : cmat T) (n0 : nat) (u u' : ufind) (d1 d2 : dend T) :
  1 <= n0 -> FInv n0 d1 [] \/ (exists L, FInv n0 d1 L) ->
  length (d_steps d1) = n0 - 1 ->
  sltrace ltb (cell_or (f_inf F) M0) (seq 0 n0) Leaf (d_steps d1) ->
  relabel (k_ltb K) (k_eqb K) u d1 true = Ok (u', d2) ->
  length (heights d2) = n0 - 1 /\
  forall (t : T) (j : nat), j <= n0 - 1 -> cut_at K t j (heights d2) ->
  forall x y, x < n0 -> y < n0 ->
    (labi n0 (d_steps d2) j x = labi n0 (d_steps d2) j y
     <-> conn ltb (cell_or (f_inf F) M0) (seq 0 n0) t x y).
Proof.
  intros Hn HF Hlen Htr Hrel.
  assert (HF' : exists L, FInv n0 d1 L) by (destruct HF as [H|H]; [exists []; exact H|exact H]).
  destruct HF' as (L' & Hobs & _ & Hends & Hnt & _).
  destruct (@relabel_heights T (k_ltb K) (k_eqb K) _ _ _ _ _ Hrel) as [_ (l & Hl0 & _)].
  destruct (@relabel_cuts T (k_ltb K) (k_eqb K) u d1 true l ltac:(lia) ltac:(rewrite Hobs; exact Hlen)
              ltac:(rewrite Hobs; exact Hends) Hnt Hl0) as (u2 & d2' & Hrel' & Hwfd & Hobs' & Hdis & Hcuts).
  rewrite Hrel in Hrel'. inversion Hrel'; subst u2 d2'. clear Hrel'.
  rewrite Hobs in Hcuts.
  split; [unfold heights; rewrite map_length; destruct Hwfd as [Hl _]; rewrite Hl, Hobs; reflexivity|].
  intros t j Hj Hcut x y Hx Hy.
  rewrite (Hcuts j x y Hj Hx Hy), add_edges_closure.
  assert (Hcut' : cut_at K t j (map (@s_dis T) l)) by (unfold heights in Hcut; rewrite Hdis in Hcut; exact Hcut).
  rewrite (@prefix_closure T K t j l x y Hcut').
  destruct (@sort_steps_ok T (k_ltb K) (k_eqb K) (@gt_flip T K) _ _ Hl0) as [_ Hperm].
  rewrite <- (@sl_threshold_components T ltb ltb_negtrans (cell_or (f_inf F) M0) (cell_or_sym (f_inf F) M0)
                (seq 0 n0) n0 (d_steps d1) eq_refl Htr ltac:(lia) t x y ltac:(apply in_seq; lia) ltac:(apply in_seq; lia)).
  split; apply (@link_perm T K); [apply Permutation_sym; exact Hperm|exact Hperm].
Qed.

(* what each of the three loops establishes before the final sort + relabel pass:
   its raw steps are a trace of weak reciprocal-nearest-neighbour merges *)
Definition single_trace (M0 : cmat T) (n0 : nat) (d' : dend T) : Prop :=
  exists (u u' : ufind) (d1 : dend T),
    (FInv n0 d1 [] \/ (exists L, FInv n0 d1 L)) /\ length (d_steps d1) = n0 - 1
    /\ sltrace ltb (cell_or (f_inf F) M0) (seq 0 n0) Leaf (d_steps d1)
    /\ relabel (k_ltb K) (k_eqb K) u d1 true = Ok (u', d').

Definition cuts_stmt (M0 : cmat T) (d' : dend T) : Prop :=
  length (heights d') = m_obs M0 - 1 /\
  forall (t : T) (j : nat), j <= m_obs M0 - 1 -> cut_at K t j (heights d') ->
  forall x y, x < m_obs M0 -> y < m_obs M0 ->
    (labi (m_obs M0) (d_steps d') j x = labi (m_obs M0) (d_steps d') j y
     <-> conn ltb (cell_or (f_inf F) M0) (seq 0 (m_obs M0)) t x y).

Lemma cuts_of_single_trace (M0 : cmat T) (d' : dend T) : 1 <= m_obs M0 ->
  single_trace M0 (m_obs M0) d' -> cuts_stmt M0 d'.
Proof.
  intros Hn (u & u' & d1 & HF & Hlen & Htr & Hrel).
  exact (@cuts_of_trace M0 (m_obs M0) u u' d1 d' Hn HF Hlen Htr Hrel).
Qed.

Lemma wf_of_single_trace (M0 : cmat T) (d' : dend T) : 1 <= m_obs M0 ->
  single_trace M0 (m_obs M0) d' -> wf_dend (m_obs M0) (d_steps d') /\ d_obs d' = m_obs M0.
Proof.
  intros Hn (u & u' & d1 & HF & Hlen & Htr & Hrel).
  assert (HF' : exists L, FInv (m_obs M0) d1 L) by (destruct HF as [H|H]; [exists []; exact H|exact H]).
  destruct HF' as (L' & Hobs & _ & Hends & Hnt & _).
  destruct (@relabel_heights T (k_ltb K) (k_eqb K) _ _ _ _ _ Hrel) as [_ (l & Hl0 & _)].
  destruct (@relabel_cuts T (k_ltb K) (k_eqb K) u d1 true l ltac:(lia) ltac:(rewrite Hobs; exact Hlen)
              ltac:(rewrite Hobs; exact Hends) Hnt Hl0) as (u2 & d2' & Hrel' & Hwfd & Hobs' & _).
  rewrite Hrel in Hrel'. inversion Hrel'; subst u2 d2'. rewrite Hobs in Hwfd, Hobs'. split; [exact Hwfd|exact Hobs'].
Qed.

(* ---- whole runs ---- *)
Lemma sq_single (m : list T) : square_all K m = m.
Proof. unfold square_all. cbn [kops_of k_sq on_squares]. apply map_id. Qed.

Lemma leaf_crit (M0 : cmat T) x y v : wcell M0 x y = Some v ->
  is_min_over ltb (cell_or (f_inf F) M0) (Leaf x) (Leaf y) v.
Proof.
  intros Hv. split.
  - exists x, y. cbn [leaves]. split; [left; reflexivity|]. split; [left; reflexivity|]. unfold cell_or. rewrite Hv. reflexivity.
  - intros x' y' [<-|[]] [<-|[]]. unfold cell_or. rewrite Hv. apply ltb_irrefl.
Qed.

Lemma lw_init (M0 : cmat T) (s0 : lstate T) : wf_mat M0 ->
  (forall x, x < m_obs M0 -> nth_error (st_sizes s0) x = Some 1) ->
  LWInv (is_min_over ltb (cell_or (f_inf F) M0)) s0 M0 (seq 0 (m_obs M0)) Leaf.
Proof.
  intros Hwf Es. split.
  - intros x y Hx Hy Hxy. apply in_seq in Hx. apply in_seq in Hy.
    destruct (@wcell_some T p M0 x y Hwf Hxy ltac:(lia) ltac:(lia)) as (v & Hv).
    exists v. split; [exact Hv|apply leaf_crit; exact Hv].
  - intros x Hx. apply in_seq in Hx. cbn [tsize]. apply Es. lia.
Qed.

Lemma reset_sizes (s : lstate T) n0 x : x < n0 -> nth_error (st_sizes (st_reset K s n0)) x = Some 1.
Proof.
  intros Hx. cbn [st_reset st_sizes]. unfold clear_resize, vresize.
  rewrite firstn_nil. cbn [length app]. rewrite Nat.sub_0_r. apply nth_error_repeat. exact Hx.
Qed.

Lemma finv_init (d : dend T) n0 : FInv n0 (d_reset d n0) (seq 0 n0).
Proof.
  unfold FInv. cbn [d_reset d_obs d_steps edges map all_nontrivial add_edges length].
  split; [reflexivity|]. split; [intros x Hx; apply in_seq in Hx; lia|]. split; [intros st []|].
  split; [exact I|]. split; [intros x y _ _ Hxy Heq; exact (Hxy Heq)|rewrite seq_length; reflexivity].
Qed.

Theorem primitive_single_trace s d m n s' d' m' M0 :
  primitive_with K p Single s d m n = Ok (s', d', m') ->
  prologue p m n = Ok M0 ->
  1 <= m_obs M0 ->
  single_trace M0 (m_obs M0) d'.
Proof.
  intros H HM0 Hn1.
  unfold primitive_with in H. rewrite sq_single, HM0 in H. cbn [bind] in H.
  destruct (Nat.eqb_spec (m_obs M0) 0) as [Hz|Hz]; [lia|].
  set (n0 := m_obs M0) in *.
  destruct (prologue_wf _ _ _ HM0) as [Hwf _].
  destruct (mfold (prim_iter K p Single) (seq 0 (n0 - 1)) (st_reset K s n0, d_reset d n0, M0)) as [[[s1 d1] M1]| |] eqn:Fp;
    cbn [bind] in H; try discriminate.
  bind_inv H. destruct a as [u d2]. inversion H; subst s' d' m'. clear H.
  rewrite sqrt_all_single in *.
  pose proof (@prim_init T K s M0 Hwf) as HP0. fold n0 in HP0.
  destruct (@prim_fold_sl M0 (n0 - 1) 0 _ _ _ _ _ _ _ _ HP0 (lw_init (st_reset K s n0) Hwf (fun x Hx => reset_sizes s Hx)) Fp)
    as (news & Hs & Hln & Htr).
  cbn [d_reset d_steps app] in Hs.
  destruct (@prim_fold_forest T K p ltb_trans ltb_irrefl Single n0 _ _ _ _ _ _ _ _ HP0 (finv_init d n0) (seq_NoDup _ _) Fp) as (L' & HF & _).
  exists (st_set s1), u, d1. split; [right; exists L'; exact HF|]. split; [rewrite Hs; exact Hln|].
  split; [rewrite Hs; exact Htr|exact E].
Qed.

Theorem primitive_single_cuts s d m n s' d' m' M0 :
  primitive_with K p Single s d m n = Ok (s', d', m') ->
  prologue p m n = Ok M0 ->
  1 <= m_obs M0 -> cuts_stmt M0 d'.
Proof. intros H HM0 Hn. exact (@cuts_of_single_trace M0 d' Hn (@primitive_single_trace s d m n s' d' m' M0 H HM0 Hn)). Qed.

Theorem nnchain_single_trace s d m n s' d' m' M0 :
  nnchain_with K p Single s d m n = Ok (s', d', m') ->
  prologue p m n = Ok M0 ->
  1 <= m_obs M0 ->
  single_trace M0 (m_obs M0) d'.
Proof.
  intros H HM0 Hn1.
  unfold nnchain_with in H. rewrite sq_single, HM0 in H. cbn [bind] in H.
  destruct (Nat.eqb_spec (m_obs M0) 0) as [Hz|Hz]; [lia|].
  set (n0 := m_obs M0) in *.
  destruct (prologue_wf _ _ _ HM0) as [Hwf _].
  assert (HI0 : NInv K n0 (st_with_chain (st_reset K s n0) []) (d_reset d n0) M0 (seq 0 n0)).
  { unfold NInv. cbn [st_with_chain st_reset st_active st_sizes st_chain d_reset d_obs d_steps length].
    split; [apply a_reset_inv|]. split; [exact Hwf|]. split; [reflexivity|].
    split; [rewrite a_reset_canonical; cbn; rewrite map_length, seq_length; reflexivity|].
    split; [apply seq_NoDup|]. unfold clear_resize. split; [rewrite vresize_length; reflexivity|].
    split.
    { intros z Hz'. apply in_seq in Hz'. exists 1. split; [|lia]. unfold vresize. rewrite firstn_nil. cbn [length app].
      rewrite Nat.sub_0_r. apply nth_error_repeat. lia. }
    split; [reflexivity|]. split; [rewrite seq_length; reflexivity|].
    exists [], []. split; [reflexivity|]. split; [right; split; reflexivity|constructor]. }
  assert (Hred : forall va vb md sa sb sx, size_ok Single sa sb sx ->
            k_ltb K va md = false -> k_ltb K vb md = false ->
            k_ltb K (k_upd K va vb md sa sb sx) va = false \/ k_ltb K (k_upd K va vb md sa sb sx) vb = false)
    by (intros va vb md sa sb sx _ _ _; apply single_reducible; exact ltb_irrefl).
  destruct (@chain_fold_sl M0 n0 (n0 - 1) 0 _ _ _ _ _ HI0
              (lw_init (st_with_chain (st_reset K s n0) []) Hwf (fun z Hz' => reset_sizes s Hz')) ltac:(rewrite seq_length; lia))
    as (s1 & d1 & M1 & news & Fc & Hs & Hln & Htr).
  destruct (@chain_fold_progress T K p Single ltb_irrefl ltb_trans ltb_negtrans Hred n0 (n0 - 1) 0 _ _ _ _ HI0 (finv_init d n0)
              ltac:(rewrite seq_length; lia)) as (s1' & d1' & M1' & L' & Fc' & _ & HF & _).
  rewrite Fc in Fc'. inversion Fc'; subst s1' d1' M1'. clear Fc'.
  rewrite Fc in H. cbn [bind] in H.
  bind_inv H. destruct a as [u d2]. inversion H; subst s' d' m'. clear H.
  rewrite sqrt_all_single in *. cbn [d_reset d_steps app] in Hs.
  exists (st_set s1), u, d1. split; [right; exists L'; exact HF|]. split; [rewrite Hs; exact Hln|].
  split; [rewrite Hs; exact Htr|exact E].
Qed.

Theorem nnchain_single_cuts s d m n s' d' m' M0 :
  nnchain_with K p Single s d m n = Ok (s', d', m') ->
  prologue p m n = Ok M0 ->
  1 <= m_obs M0 -> cuts_stmt M0 d'.
Proof. intros H HM0 Hn. exact (@cuts_of_single_trace M0 d' Hn (@nnchain_single_trace s d m n s' d' m' M0 H HM0 Hn)). Qed.

(* ---- generic ---- *)
Section Generic.
Hypothesis eqb_refl : forall a, f_eqb F a a = true.
Hypothesis eqb_le : forall u v, f_eqb F u v = true -> f_ltb F v u = false.

Lemma sg_upd_below : forall va vb md sa sb sx,
  k_ltb K va (k_inf K) = true -> k_ltb K vb (k_inf K) = true -> k_ltb K md (k_inf K) = true ->
  k_ltb K (k_upd K va vb md sa sb sx) (k_inf K) = true.
Proof. intros va vb md sa sb sx Ha Hb _. cbn [kops_of k_upd k_ltb k_inf] in *. cbn. destruct (f_ltb F va vb); assumption. Qed.

Lemma sg_rename : below_kind_of Single = BelowRename ->
  forall va vb md sa sb sx, (uses_sizes_ab Single = true -> 0 < sa /\ 0 < sb) ->
  k_ltb K va md = false -> k_ltb K vb md = false ->
  k_ltb K (k_upd K va vb md sa sb sx) va = false \/ k_ltb K (k_upd K va vb md sa sb sx) vb = false.
Proof. intros _ va vb md sa sb sx _ _ _. cbn [kops_of k_upd k_ltb]. cbn. destruct (f_ltb F va vb); [left|right]; apply ltb_irrefl. Qed.

Lemma sg_untracked : tracks_candidates Single = false ->
  forall va vb md sa sb sx, k_ltb K (k_upd K va vb md sa sb sx) vb = false.
Proof. discriminate. Qed.

Lemma gen_fold_sl (M0 : cmat T) n0 : forall (k : nat) i s d M L mem,
  GInv K n0 s d M L -> LWInv (is_min_over ltb (cell_or (f_inf F) M0)) s M L mem -> LB K L n0 (st_queue s) M ->
  S k <= length L ->
  exists s' d' M' news,
    mfold (gen_iter K p Single) (seq i k) (s, d, M) = Ok (s', d', M')
    /\ d_steps d' = d_steps d ++ news /\ length news = k
    /\ sltrace ltb (cell_or (f_inf F) M0) L mem news.
Proof.
  induction k as [|k IH]; intros i s d M L mem HI HW HLB Hk.
  - exists s, d, M, []. split; [reflexivity|]. rewrite app_nil_r. split; [reflexivity|]. split; [reflexivity|constructor].
  - cbn [seq mfold].
    destruct (@gen_iter_step_ext T K p Single ltb_irrefl ltb_trans ltb_negtrans eqb_refl sg_upd_below n0 s d M L i HI ltac:(lia))
      as (s1 & d1 & M1 & a & b & v & sz & Hstep & Ha & Hb & Hab & Hsteps & HI1 & Hmf).
    rewrite Hstep. cbn [bind].
    assert (HSP : SPos (st_sizes s) L).
    { intros x Hx. exists (tsize (mem x)). split; [exact (proj2 HW x Hx)|]. clear. induction (mem x); cbn [tsize]; lia. }
    destruct (@gen_iter_greedy T K p Single ltb_irrefl ltb_trans ltb_negtrans eqb_refl sg_upd_below sg_rename sg_untracked eqb_le
                n0 s d M L i HI HLB HSP ltac:(lia) s1 d1 M1 a b v sz Hstep Hsteps Hab) as (Hgr & HLB1 & _).
    destruct (@lw_step T K Single _ (@crit_sym_ M0) (@crit_merge_ M0) sizes_irr s s1 M M1 L mem a b v HW Hmf Ha Hb Hab) as [Hc HW1].
    assert (Hfar : forall x w, In x L -> x <> a -> x <> b -> (wcell M x a = Some w \/ wcell M x b = Some w) -> ltb w v = false).
    { intros x w Hx Hxa Hxb [Hw|Hw].
      - rewrite <- wcell_mm in Hw. apply (Hgr (Nat.min x a) (Nat.max x a) w); [| |lia|exact Hw].
        + destruct (Nat.min_spec x a) as [[_ ->]|[_ ->]]; assumption.
        + destruct (Nat.max_spec x a) as [[_ ->]|[_ ->]]; assumption.
      - rewrite <- wcell_mm in Hw. apply (Hgr (Nat.min x b) (Nat.max x b) w); [| |lia|exact Hw].
        + destruct (Nat.min_spec x b) as [[_ ->]|[_ ->]]; assumption.
        + destruct (Nat.max_spec x b) as [[_ ->]|[_ ->]]; assumption. }
    pose proof HI as (_ & _ & _ & _ & Hnd & _).
    pose proof (without_length a Hnd Ha) as Hwl.
    destruct (IH (S i) s1 d1 M1 (without a L) (upd_mem mem a b) HI1 HW1 HLB1 ltac:(lia))
      as (s' & d' & M' & news & Hf & Hs' & Hln & Hst).
    exists s', d', M', (step_new a b v sz :: news).
    split; [exact Hf|]. split; [rewrite Hs', Hsteps, <- app_assoc; reflexivity|].
    split; [cbn [length]; rewrite Hln; reflexivity|].
    apply sl_cons; try assumption. exact (@sl_of_weak M0 s M L mem a b v HW Ha Hb Hfar).
Qed.

Theorem generic_single_trace s d m n s' d' m' M0 :
  Forall (fun v => f_ltb F v (f_inf F) = true) m ->
  generic_with K p Single s d m n = Ok (s', d', m') ->
  prologue p m n = Ok M0 ->
  1 <= m_obs M0 ->
  single_trace M0 (m_obs M0) d'.
Proof.
  intros Hall H HM0 Hn1.
  unfold generic_with in H. rewrite sq_single, HM0 in H. cbn [bind] in H.
  destruct (Nat.eqb_spec (m_obs M0) 0) as [Hz|Hz]; [lia|].
  set (n0 := m_obs M0) in *.
  destruct (prologue_wf _ _ _ HM0) as [Hwf Hdata].
  assert (EM : M0 = {| m_data := square_all K m; m_obs := n0 |}) by (rewrite sq_single; destruct M0; cbn in *; subst; reflexivity).
  assert (Hlen : length (square_all K m) = n0 * (n0 - 1) / 2) by (rewrite sq_single; unfold wf_mat in Hwf; rewrite <- Hdata; exact Hwf).
  assert (Hall' : Forall (fun v => k_ltb K v (k_inf K) = true) (square_all K m)) by (rewrite sq_single; exact Hall).
  destruct (@generic_init T K p ltb_irrefl ltb_trans s d m n0 Hz Hlen Hall') as (s1 & Hinit & HG0).
  pose proof (@generic_init_lb T K p ltb_irrefl ltb_trans s d m n0 Hz Hlen Hall' s1 Hinit) as HLB0.
  cbn zeta in Hinit, HG0, HLB0. rewrite <- EM in Hinit, HG0, HLB0.
  destruct (mfold (init_row K p M0) (seq 0 (n0 - 1))
              (h_prio (h_heapify_pre (k_inf K) (st_queue (st_reset K s n0))), st_nearest (st_reset K s n0)))
    as [[dists nearest]| |]; cbn [bind] in Hinit, H; try discriminate.
  destruct (h_heapify_post (k_ltb K) (h_heapify_pre (k_inf K) (st_queue (st_reset K s n0))) dists) as [q1| |];
    cbn [bind] in Hinit, H; try discriminate.
  inversion Hinit as [Es1]. rewrite Es1 in H.
  assert (HW0 : LWInv (is_min_over ltb (cell_or (f_inf F) M0)) s1 M0 (seq 0 n0) Leaf).
  { apply lw_init; [exact Hwf|]. intros z Hz'. rewrite <- Es1. cbn [st_with_nearest st_with_queue]. apply reset_sizes. exact Hz'. }
  destruct (@gen_fold_sl M0 n0 (n0 - 1) 0 _ _ _ _ _ HG0 HW0 HLB0 ltac:(rewrite seq_length; lia))
    as (s2 & d1 & M1 & news & Fg & Hs & Hln & Htr).
  destruct (@gen_fold_progress T K p Single ltb_irrefl ltb_trans ltb_negtrans eqb_refl sg_upd_below n0 (n0 - 1) 0 _ _ _ _ HG0 (finv_init d n0)
              ltac:(rewrite seq_length; lia)) as (s2' & d1' & M1' & L' & Fg' & _ & HF & _).
  rewrite Fg in Fg'. inversion Fg'; subst s2' d1' M1'. clear Fg'.
  rewrite Fg in H. cbn [bind] in H.
  bind_inv H. destruct a as [u d2]. inversion H; subst s' d' m'. clear H.
  rewrite sqrt_all_single in *. cbn [d_reset d_steps app] in Hs.
  exists (st_set s2), u, d1. split; [right; exists L'; exact HF|]. split; [rewrite Hs; exact Hln|].
  split; [rewrite Hs; exact Htr|exact E].
Qed.

Theorem generic_single_cuts s d m n s' d' m' M0 :
  Forall (fun v => f_ltb F v (f_inf F) = true) m ->
  generic_with K p Single s d m n = Ok (s', d', m') ->
  prologue p m n = Ok M0 ->
  1 <= m_obs M0 -> cuts_stmt M0 d'.
Proof. intros Hall H HM0 Hn. exact (@cuts_of_single_trace M0 d' Hn (@generic_single_trace s d m n s' d' m' M0 Hall H HM0 Hn)). Qed.

End Generic.

(* ---- for every threshold a cut position exists (the heights are sorted) ---- *)
Section All.
Hypothesis eqb_nlt : forall a b, f_eqb F a b = true -> f_ltb F b a = false.

Lemma rt_single x y : Monotone.le_t K x y -> Monotone.le_t K (k_rt K x) (k_rt K y).
Proof. intros H. exact H. Qed.

Lemma cuts_all_of (d' : dend T) n0 (P : T -> nat -> Prop) :
  Sorted (Monotone.le_t K) (heights d') -> length (heights d') = n0 - 1 ->
  (forall t j, j <= n0 - 1 -> cut_at K t j (heights d') -> P t j) ->
  forall t, exists j, j <= n0 - 1 /\ cut_at K t j (heights d') /\ P t j.
Proof.
  intros Hs Hlen HP t.
  assert (Hsorted : StronglySorted (fun a b => k_ltb K b a = false) (heights d')).
  { apply Sorted_StronglySorted.
    - intros a b c H1 H2. exact (@ltb_negtrans _ _ _ H2 H1).
    - clear - Hs ltb_irrefl ltb_trans eqb_nlt. induction Hs as [|a l Hs IH Hd]; constructor; [exact IH|].
      destruct Hd; constructor. apply (@le_t_ge T K ltb_irrefl ltb_trans eqb_nlt). assumption. }
  destruct (@cut_exists T K ltb_negtrans t _ Hsorted) as (j & Hj & Hcut).
  exists j. split; [lia|]. split; [exact Hcut|]. apply HP; [lia|exact Hcut].
Qed.

Theorem primitive_single_cuts_all s d m n s' d' m' M0 :
  primitive_with K p Single s d m n = Ok (s', d', m') -> prologue p m n = Ok M0 -> 1 <= m_obs M0 ->
  forall t : T, exists j, j <= m_obs M0 - 1 /\ cut_at K t j (heights d')
    /\ forall x y, x < m_obs M0 -> y < m_obs M0 ->
        (labi (m_obs M0) (d_steps d') j x = labi (m_obs M0) (d_steps d') j y
         <-> conn ltb (cell_or (f_inf F) M0) (seq 0 (m_obs M0)) t x y).
Proof.
  intros H HM0 Hn. destruct (@primitive_single_cuts s d m n s' d' m' M0 H HM0 Hn) as [Hlen Hc].
  apply (@cuts_all_of d' (m_obs M0) (fun t j => forall x y, x < m_obs M0 -> y < m_obs M0 ->
           (labi (m_obs M0) (d_steps d') j x = labi (m_obs M0) (d_steps d') j y
            <-> conn ltb (cell_or (f_inf F) M0) (seq 0 (m_obs M0)) t x y))); [|exact Hlen|exact Hc].
  exact (@primitive_monotone T K p rt_single Single s d m n s' d' m' eq_refl H).
Qed.

Theorem nnchain_single_cuts_all s d m n s' d' m' M0 :
  nnchain_with K p Single s d m n = Ok (s', d', m') -> prologue p m n = Ok M0 -> 1 <= m_obs M0 ->
  forall t : T, exists j, j <= m_obs M0 - 1 /\ cut_at K t j (heights d')
    /\ forall x y, x < m_obs M0 -> y < m_obs M0 ->
        (labi (m_obs M0) (d_steps d') j x = labi (m_obs M0) (d_steps d') j y
         <-> conn ltb (cell_or (f_inf F) M0) (seq 0 (m_obs M0)) t x y).
Proof.
  intros H HM0 Hn. destruct (@nnchain_single_cuts s d m n s' d' m' M0 H HM0 Hn) as [Hlen Hc].
  apply (@cuts_all_of d' (m_obs M0) (fun t j => forall x y, x < m_obs M0 -> y < m_obs M0 ->
           (labi (m_obs M0) (d_steps d') j x = labi (m_obs M0) (d_steps d') j y
            <-> conn ltb (cell_or (f_inf F) M0) (seq 0 (m_obs M0)) t x y))); [|exact Hlen|exact Hc].
  exact (@nnchain_monotone T K p rt_single Single s d m n s' d' m' eq_refl H).
Qed.

Theorem generic_single_cuts_all (eqb_refl : forall a, f_eqb F a a = true) s d m n s' d' m' M0 :
  Forall (fun v => f_ltb F v (f_inf F) = true) m ->
  generic_with K p Single s d m n = Ok (s', d', m') -> prologue p m n = Ok M0 -> 1 <= m_obs M0 ->
  forall t : T, exists j, j <= m_obs M0 - 1 /\ cut_at K t j (heights d')
    /\ forall x y, x < m_obs M0 -> y < m_obs M0 ->
        (labi (m_obs M0) (d_steps d') j x = labi (m_obs M0) (d_steps d') j y
         <-> conn ltb (cell_or (f_inf F) M0) (seq 0 (m_obs M0)) t x y).
Proof.
  intros Hall H HM0 Hn. destruct (@generic_single_cuts eqb_refl eqb_nlt s d m n s' d' m' M0 Hall H HM0 Hn) as [Hlen Hc].
  apply (@cuts_all_of d' (m_obs M0) (fun t j => forall x y, x < m_obs M0 -> y < m_obs M0 ->
           (labi (m_obs M0) (d_steps d') j x = labi (m_obs M0) (d_steps d') j y
            <-> conn ltb (cell_or (f_inf F) M0) (seq 0 (m_obs M0)) t x y))); [|exact Hlen|exact Hc].
  exact (@generic_monotone T K p rt_single Single s d m n s' d' m' eq_refl H).
Qed.

End All.

End SingleCuts.
