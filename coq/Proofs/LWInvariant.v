(* C02 for the primitive algorithm, generically in the linkage criterion: if a
   relation `crit A B v` ("v is the dissimilarity of the merge trees A and B")
   is symmetric and satisfies the one-merge law of the method's update formula,
   then throughout primitive_with every working cell between two live clusters
   is the criterion of their merge trees, and every recorded merge height is the
   criterion of the two clusters it merges - whatever the order of merges. *)
Require Import KV.Model.Prelude KV.Model.Condensed KV.Model.Active KV.Model.Dendrogram KV.Model.Methods
  KV.Model.State KV.Model.Primitive
  KV.Proofs.ResetCanon KV.Proofs.ActiveRefine KV.Proofs.CondensedIdx KV.Proofs.Monotone KV.Proofs.MstCost
  KV.Proofs.PrimitiveGreedy KV.Proofs.PrimitiveWF KV.Proofs.PrimitiveTotal KV.Proofs.UpdateSpec KV.Proofs.SortProofs.
From Coq Require Import Permutation.

Set Implicit Arguments.

Inductive mtree := Leaf (i : nat) | Node (l r : mtree).

Fixpoint tsize (t : mtree) : nat := match t with Leaf _ => 1 | Node l r => tsize l + tsize r end.
Fixpoint leaves (t : mtree) : list nat := match t with Leaf i => [i] | Node l r => leaves l ++ leaves r end.

Definition upd_mem (mem : nat -> mtree) (a b : nat) : nat -> mtree :=
  fun x => if x =? b then Node (mem a) (mem b) else mem x.

(* a merge history: starting from live slots L with trees mem, each entry joins
   the trees of two distinct live slots a < b (the tree lands in slot b, slot a
   dies) *)
Inductive mtrace : list nat -> (nat -> mtree) -> list (mtree * mtree) -> list nat -> (nat -> mtree) -> Prop :=
| mt_nil L mem : mtrace L mem [] L mem
| mt_cons L mem a b tr L' mem' : In a L -> In b L -> a < b ->
    mtrace (without a L) (upd_mem mem a b) tr L' mem' ->
    mtrace L mem ((mem a, mem b) :: tr) L' mem'.

Section LW.
Variable T : Type.
Variable K : kops T.
Variable p : profile.
Variable meth : method.
Hypothesis ltb_trans : forall a b c, k_ltb K a b = true -> k_ltb K b c = true -> k_ltb K a c = true.
Hypothesis ltb_irrefl : forall a, k_ltb K a a = false.

Variable crit : mtree -> mtree -> T -> Prop.
Hypothesis crit_sym : forall A B v, crit A B v -> crit B A v.
(* the one-merge law of the update formula (sx is only passed by the code when
   the method uses it) *)
Hypothesis crit_merge : forall X A B va vb md,
  crit X A va -> crit X B vb -> crit A B md ->
  crit X (Node A B) (k_upd K va vb md (tsize A) (tsize B) (if uses_size_x meth then tsize X else 0)).

Lemma st_merge_sizes (s s' : lstate T) (d d' : dend T) c1 c2 x :
  st_merge s d c1 c2 x = Ok (s', d') ->
  exists z1 z2, nth_error (st_sizes s) c1 = Some z1 /\ nth_error (st_sizes s) c2 = Some z2
    /\ st_sizes s' = set_nth (st_sizes s) c2 (z1 + z2).
Proof.
  unfold st_merge, vget, vset. intros H.
  destruct (nth_error (st_sizes s) c1) as [z1|]; cbn [bind] in H; [|discriminate].
  destruct (nth_error (st_sizes s) c2) as [z2|]; cbn [bind] in H; [|discriminate].
  destruct (c2 <? length (st_sizes s)); cbn [bind] in H; [|discriminate].
  destruct (a_remove (st_active s) c1) as [act| |]; cbn [bind] in H; try discriminate.
  destruct (nth_error (set_nth (st_sizes s) c2 (z1 + z2)) c2); cbn [bind] in H; [|discriminate].
  destruct (d_push d (step_new c1 c2 x n)) as [dd| |]; cbn [bind] in H; try discriminate.
  inversion H; subst. exists z1, z2. repeat split; reflexivity.
Qed.


(* every working cell between live clusters is the criterion of their trees;
   sizes are the tree sizes *)
Definition LWInv (s : lstate T) (M : cmat T) (L : list nat) (mem : nat -> mtree) : Prop :=
  (forall x y, In x L -> In y L -> x <> y -> exists v, wcell M x y = Some v /\ crit (mem x) (mem y) v)
  /\ (forall x, In x L -> nth_error (st_sizes s) x = Some (tsize (mem x))).

Lemma wcell_sym (M : cmat T) x y : wcell M x y = wcell M y x.
Proof. unfold wcell. rewrite Nat.min_comm, Nat.max_comm. reflexivity. Qed.

Theorem prim_iter_criterion s d M i s' d' M' L mem :
  PInv s M L -> LWInv s M L mem ->
  prim_iter K p meth (s, d, M) i = Ok (s', d', M') ->
  exists a b v sz, In a L /\ In b L /\ a < b
    /\ d_steps d' = d_steps d ++ [step_new a b v sz]
    /\ crit (mem a) (mem b) v
    /\ (forall x y, In x L -> In y L -> x <> y -> exists w, crit (mem x) (mem y) w /\ k_ltb K w v = false)
    /\ PInv s' M' (without a L) /\ LWInv s' M' (without a L) (upd_mem mem a b).
Proof.
  intros HP (HW & HS) H. pose proof HP as (HA & Hwf & HN).
  destruct (@prim_iter_greedy T K p ltb_trans ltb_irrefl meth s d M i s' d' M' L HP H)
    as (a & b & v & sz & Ha & Hb & Hab & Hv & Hmin & Hsteps & HP').
  exists a, b, v, sz. split; [exact Ha|]. split; [exact Hb|]. split; [exact Hab|]. split; [exact Hsteps|].
  destruct (HW a b Ha Hb ltac:(lia)) as (v0 & Hv0 & Hcab).
  assert (v0 = v).
  { unfold wcell in Hv0. rewrite Nat.min_l, Nat.max_r in Hv0 by lia. congruence. } subst v0.
  split; [exact Hcab|].
  split.
  { intros x y Hx Hy Hxy. destruct (HW x y Hx Hy Hxy) as (w & Hw & Hc). exists w. split; [exact Hc|].
    unfold wcell in Hw. apply (Hmin (Nat.min x y) (Nat.max x y) w); [| |lia|exact Hw].
    - destruct (Nat.min_spec x y) as [[_ ->]|[_ ->]]; assumption.
    - destruct (Nat.max_spec x y) as [[_ ->]|[_ ->]]; assumption. }
  split; [exact HP'|].
  (* open the iteration to get at update3 and the merge *)
  unfold prim_iter in H.
  destruct (Nat.lt_ge_cases (length L) 2) as [Hlt|Hge];
    [rewrite (argmin_none K p M HA HN Hlt) in H; cbn [bind opt_unwrap] in H; discriminate|].
  destruct (argmin_some K p ltb_trans ltb_irrefl Hwf HA HN Hge) as (a1 & b1 & v1 & Harg & _).
  rewrite Harg in H. cbn [bind opt_unwrap] in H.
  destruct (vget (st_sizes s) a1) as [sa| |] eqn:Ea; cbn [bind] in H; try discriminate.
  destruct (vget (st_sizes s) b1) as [sb| |] eqn:Eb; cbn [bind] in H; try discriminate.
  destruct (update3 K p meth s M a1 b1 v1 sa sb) as [Mu| |] eqn:Eu; cbn [bind] in H; try discriminate.
  destruct (st_merge s d a1 b1 v1) as [[s2 d2]| |] eqn:Em; cbn [bind] in H; try discriminate.
  inversion H; subst s2 d2 Mu. clear H.
  (* identify (a1,b1,v1) with (a,b,v) through the pushed step *)
  destruct (@st_merge_spec T _ _ _ _ _ _ _ Em) as (sz1 & Hrem & Hsteps1).
  rewrite Hsteps in Hsteps1. apply app_inv_head in Hsteps1. inversion Hsteps1 as [Hst].
  assert (Hid : a1 = a /\ b1 = b /\ v1 = v).
  { assert (Hab1 : a1 < b1).
    { destruct (argmin_some K p ltb_trans ltb_irrefl Hwf HA HN Hge) as (a2 & b2 & v2 & Harg2 & _ & _ & Hab2 & _).
      rewrite Harg in Harg2. inversion Harg2; subst. exact Hab2. }
    unfold step_new in Hst. destruct (Nat.ltb_spec b a), (Nat.ltb_spec b1 a1); try lia. inversion Hst. auto. }
  destruct Hid as (-> & -> & ->).
  assert (Esa : sa = tsize (mem a)).
  { unfold vget in Ea. rewrite (HS a Ha) in Ea. inversion Ea. reflexivity. }
  assert (Esb : sb = tsize (mem b)).
  { unfold vget in Eb. rewrite (HS b Hb) in Eb. inversion Eb. reflexivity. }
  subst sa sb.
  destruct (@update3_spec T K p meth s M M' L a b v (tsize (mem a)) (tsize (mem b)) HA Hwf HN Ha Hb Hab Eu)
    as (Hwf' & Ho' & Hin & Hout).
  destruct (st_merge_sizes _ _ _ _ _ Em) as (z1 & z2 & Z1 & Z2 & Zs).
  rewrite (HS a Ha) in Z1. rewrite (HS b Hb) in Z2. inversion Z1; inversion Z2; subst z1 z2.
  unfold LWInv. rewrite Zs. split.
  - intros x y Hx Hy Hxy. apply without_In in Hx. apply without_In in Hy.
    destruct Hx as [Hx Hxa], Hy as [Hy Hya]. unfold upd_mem.
    assert (Hgen : forall x, In x L -> x <> a -> x <> b ->
              exists v, wcell M' x b = Some v /\ crit (mem x) (Node (mem a) (mem b)) v).
    { intros z Hz Hza Hzb. destruct (Hin z Hz Hza Hzb) as (va & vb & sx & Ca & Cb & Esx & Cn).
      destruct (HW z a Hz Ha Hza) as (va' & Ca' & Cra). destruct (HW z b Hz Hb Hzb) as (vb' & Cb' & Crb).
      rewrite Ca in Ca'. rewrite Cb in Cb'. inversion Ca'; inversion Cb'; subst va' vb'.
      assert (sx = if uses_size_x meth then tsize (mem z) else 0).
      { destruct (uses_size_x meth); [|inversion Esx; reflexivity].
        unfold vget in Esx. rewrite (HS z Hz) in Esx. inversion Esx. reflexivity. }
      subst sx. eexists. split; [exact Cn|]. apply crit_merge; assumption. }
    destruct (Nat.eqb_spec x b) as [->|Hxb], (Nat.eqb_spec y b) as [->|Hyb].
    + contradiction.
    + destruct (Hgen y Hy Hya Hyb) as (w & Cw & Crw). exists w. split; [rewrite wcell_sym; exact Cw|apply crit_sym; exact Crw].
    + exact (Hgen x Hx Hxa Hxb).
    + destruct (HW x y Hx Hy Hxy) as (w & Cw & Crw). exists w. split; [|exact Crw].
      unfold wcell in *. rewrite Hout; [exact Cw| | |].
      * destruct (Nat.lt_trichotomy x y) as [?|[?|?]]; lia.
      * pose proof HA as (_ & Hl & _). apply (linked_bounds Hl) in Hx. apply (linked_bounds Hl) in Hy. lia.
      * intros z Hz Hza Hzb Eq. inversion Eq as [[E1' E2']].
        destruct (Nat.lt_trichotomy x y) as [?|[?|?]], (Nat.lt_trichotomy z b) as [?|[?|?]]; lia.
  - intros x Hx. apply without_In in Hx. destruct Hx as [Hx Hxa]. unfold upd_mem.
    destruct (Nat.eqb_spec x b) as [->|Hxb].
    + cbn [tsize]. apply nth_error_set_nth_eq. pose proof (HS b Hb) as Hsb.
      apply nth_error_Some. congruence.
    + rewrite nth_error_set_nth_neq by exact Hxb. exact (HS x Hx).
Qed.


(* the whole loop: every step pushed is justified by the criterion of the two
   merge trees it joins *)
Theorem prim_fold_criterion (idx : list nat) : forall s d M L mem s' d' M',
  PInv s M L -> LWInv s M L mem ->
  mfold (prim_iter K p meth) idx (s, d, M) = Ok (s', d', M') ->
  exists news tr L' mem',
    d_steps d' = d_steps d ++ news /\ length news = length idx
    /\ mtrace L mem tr L' mem'
    /\ Forall2 (fun st (ab : mtree * mtree) => crit (fst ab) (snd ab) (s_dis st)) news tr
    /\ PInv s' M' L' /\ LWInv s' M' L' mem'.
Proof.
  induction idx as [|i idx IH]; intros s d M L mem s' d' M' HP HW H; cbn [mfold] in H.
  - inversion H; subst. exists [], [], L, mem. rewrite app_nil_r. split; [reflexivity|]. split; [reflexivity|].
    split; [constructor|]. split; [constructor|]. split; assumption.
  - bind_inv H. destruct a as [[s1 d1] M1].
    destruct (@prim_iter_criterion _ _ _ _ _ _ _ _ _ HP HW E) as (a & b & v & sz & Ha & Hb & Hab & Hsteps & Hc & Hgr & HP1 & HW1).
    destruct (IH _ _ _ _ _ _ _ _ HP1 HW1 H) as (news & tr & L' & mem' & Hs' & Hln & Htr & HF & HP' & HW').
    exists (step_new a b v sz :: news), ((mem a, mem b) :: tr), L', mem'.
    split; [rewrite Hs', Hsteps, <- app_assoc; reflexivity|].
    split; [cbn [length]; rewrite Hln; reflexivity|].
    split; [apply mt_cons; assumption|].
    split; [constructor; [|exact HF]|split; assumption].
    unfold step_new. destruct (b <? a); exact Hc.
Qed.

(* the same run seen as a greedy agglomeration: each raw step joins two live
   clusters at their criterion value, and no pair of clusters live at that
   moment has a strictly smaller criterion value *)
Inductive gtrace : list nat -> (nat -> mtree) -> list (step T) -> Prop :=
| g_nil L mem : gtrace L mem []
| g_cons L mem a b v sz rest : In a L -> In b L -> a < b ->
    crit (mem a) (mem b) v ->
    (forall x y, In x L -> In y L -> x <> y -> exists w, crit (mem x) (mem y) w /\ k_ltb K w v = false) ->
    gtrace (without a L) (upd_mem mem a b) rest ->
    gtrace L mem (step_new a b v sz :: rest).

Theorem prim_fold_greedy (idx : list nat) : forall s d M L mem s' d' M',
  PInv s M L -> LWInv s M L mem ->
  mfold (prim_iter K p meth) idx (s, d, M) = Ok (s', d', M') ->
  exists news, d_steps d' = d_steps d ++ news /\ length news = length idx /\ gtrace L mem news.
Proof.
  induction idx as [|i idx IH]; intros s d M L mem s' d' M' HP HW H; cbn [mfold] in H.
  - inversion H; subst. exists []. rewrite app_nil_r. split; [reflexivity|]. split; [reflexivity|constructor].
  - bind_inv H. destruct a as [[s1 d1] M1].
    destruct (@prim_iter_criterion _ _ _ _ _ _ _ _ _ HP HW E) as (a & b & v & sz & Ha & Hb & Hab & Hsteps & Hc & Hgr & HP1 & HW1).
    destruct (IH _ _ _ _ _ _ _ _ HP1 HW1 H) as (news & Hs' & Hln & Hg).
    exists (step_new a b v sz :: news).
    split; [rewrite Hs', Hsteps, <- app_assoc; reflexivity|].
    split; [cbn [length]; rewrite Hln; reflexivity|].
    apply g_cons; assumption.
Qed.

Lemma nth_error_repeat {A} (x : A) n i : i < n -> nth_error (repeat x n) i = Some x.
Proof. revert i; induction n as [|n IH]; intros i Hi; [lia|]. destruct i; cbn; [reflexivity|apply IH; lia]. Qed.

Lemma wcell_some (M : cmat T) x y : wf_mat M -> x <> y -> x < m_obs M -> y < m_obs M ->
  exists v, wcell M x y = Some v.
Proof.
  intros Hwf Hxy Hx Hy. unfold wcell.
  destruct (@mget_cell T p M (Nat.min x y) (Nat.max x y) Hwf ltac:(lia) ltac:(lia)) as (v & Hv & _).
  exists v. exact Hv.
Qed.

(* the whole algorithm: the raw steps (before relabelling and the final sqrt)
   are n-1 merges of a merge history that starts from the singletons, each at
   the criterion value of the two clusters it joins; the heights of the
   returned dendrogram are the post-processed (k_rt) raw heights, reordered by
   the stable sort for the methods that sort *)
Theorem primitive_criterion s d m n s' d' m' M0 :
  primitive_with K p meth s d m n = Ok (s', d', m') ->
  prologue p (square_all K m) n = Ok M0 ->
  (forall x y v, x <> y -> x < m_obs M0 -> y < m_obs M0 -> wcell M0 x y = Some v -> crit (Leaf x) (Leaf y) v) ->
  exists raw tr L' mem',
    mtrace (seq 0 (m_obs M0)) Leaf tr L' mem'
    /\ Forall2 (fun st (ab : mtree * mtree) => crit (fst ab) (snd ab) (s_dis st)) raw tr
    /\ length raw = m_obs M0 - 1
    /\ Permutation (heights d') (map (k_rt K) (map (@s_dis T) raw))
    /\ (requires_sorting meth = false -> heights d' = map (k_rt K) (map (@s_dis T) raw)).
Proof.
  intros H HM0 Hleaf. unfold primitive_with in H. rewrite HM0 in H. cbn [bind] in H.
  destruct (Nat.eqb_spec (m_obs M0) 0) as [Hz|Hz].
  - inversion H; subst. exists [], [], (seq 0 (m_obs M0)), Leaf.
    split; [constructor|]. split; [constructor|]. split; [rewrite Hz; reflexivity|].
    unfold heights. cbn [d_reset d_steps map]. split; [constructor|reflexivity].
  - bind_inv H. destruct a as [[s1 d1] M1]. bind_inv H. destruct a as [u d2]. inversion H; subst s' d' m'. clear H.
    destruct (prologue_wf _ _ _ HM0) as [Hwf _].
    pose proof (@prim_init T K s M0 Hwf) as HP0.
    assert (HW0 : LWInv (st_reset K s (m_obs M0)) M0 (seq 0 (m_obs M0)) Leaf).
    { split.
      - intros x y Hx Hy Hxy. apply in_seq in Hx. apply in_seq in Hy.
        destruct (wcell_some Hwf Hxy ltac:(lia) ltac:(lia)) as (v & Hv).
        exists v. split; [exact Hv|]. apply Hleaf; [exact Hxy|lia|lia|exact Hv].
      - intros x Hx. apply in_seq in Hx. cbn [st_reset st_sizes tsize]. unfold clear_resize, vresize.
        rewrite firstn_nil. cbn [length app]. rewrite Nat.sub_0_r. apply nth_error_repeat. lia. }
    destruct (@prim_fold_criterion _ _ _ _ _ _ _ _ _ HP0 HW0 E) as (news & tr & L' & mem' & Hs & Hln & Htr & HF & _ & _).
    cbn [d_reset d_steps app] in Hs.
    exists news, tr, L', mem'. split; [exact Htr|]. split; [exact HF|].
    assert (Hlen : length news = m_obs M0 - 1) by (rewrite Hln, seq_length; reflexivity).
    split; [exact Hlen|].
    assert (Hh1 : heights d1 = map (@s_dis T) news) by (unfold heights; rewrite Hs; reflexivity).
    rewrite heights_sqrt_all.
    destruct (requires_sorting meth) eqn:Hsort.
    + destruct (@relabel_heights T (k_ltb K) (k_eqb K) _ _ _ _ _ E0) as [_ (l & Hl0 & Hh)].
      destruct (@sort_steps_ok T (k_ltb K) (k_eqb K) (@gt_flip T K) _ _ Hl0) as [_ Hperm].
      split; [|discriminate]. rewrite Hh, <- Hh1. apply Permutation_map. unfold heights.
      apply Permutation_map. apply Permutation_sym. exact Hperm.
    + pose proof (proj2 (@relabel_heights T (k_ltb K) (k_eqb K) _ _ _ _ _ E0)) as Hh. cbn beta iota in Hh.
      rewrite Hh, Hh1. split; [apply Permutation_refl|reflexivity].
Qed.

Theorem primitive_greedy s d m n s' d' m' M0 :
  primitive_with K p meth s d m n = Ok (s', d', m') ->
  prologue p (square_all K m) n = Ok M0 ->
  (forall x y v, x <> y -> x < m_obs M0 -> y < m_obs M0 -> wcell M0 x y = Some v -> crit (Leaf x) (Leaf y) v) ->
  exists raw,
    gtrace (seq 0 (m_obs M0)) Leaf raw
    /\ length raw = m_obs M0 - 1
    /\ Permutation (heights d') (map (k_rt K) (map (@s_dis T) raw))
    /\ (requires_sorting meth = false -> heights d' = map (k_rt K) (map (@s_dis T) raw)).
Proof.
  intros H HM0 Hleaf. unfold primitive_with in H. rewrite HM0 in H. cbn [bind] in H.
  destruct (Nat.eqb_spec (m_obs M0) 0) as [Hz|Hz].
  - inversion H; subst. exists []. split; [constructor|]. split; [rewrite Hz; reflexivity|].
    unfold heights. cbn [d_reset d_steps map]. split; [constructor|reflexivity].
  - bind_inv H. destruct a as [[s1 d1] M1]. bind_inv H. destruct a as [u d2]. inversion H; subst s' d' m'. clear H.
    destruct (prologue_wf _ _ _ HM0) as [Hwf _].
    pose proof (@prim_init T K s M0 Hwf) as HP0.
    assert (HW0 : LWInv (st_reset K s (m_obs M0)) M0 (seq 0 (m_obs M0)) Leaf).
    { split.
      - intros x y Hx Hy Hxy. apply in_seq in Hx. apply in_seq in Hy.
        destruct (wcell_some Hwf Hxy ltac:(lia) ltac:(lia)) as (v & Hv).
        exists v. split; [exact Hv|]. apply Hleaf; [exact Hxy|lia|lia|exact Hv].
      - intros x Hx. apply in_seq in Hx. cbn [st_reset st_sizes tsize]. unfold clear_resize, vresize.
        rewrite firstn_nil. cbn [length app]. rewrite Nat.sub_0_r. apply nth_error_repeat. lia. }
    destruct (@prim_fold_greedy _ _ _ _ _ _ _ _ _ HP0 HW0 E) as (news & Hs & Hln & Hg).
    cbn [d_reset d_steps app] in Hs.
    exists news. split; [exact Hg|].
    split; [rewrite Hln, seq_length; reflexivity|].
    assert (Hh1 : heights d1 = map (@s_dis T) news) by (unfold heights; rewrite Hs; reflexivity).
    rewrite heights_sqrt_all.
    destruct (requires_sorting meth) eqn:Hsort.
    + destruct (@relabel_heights T (k_ltb K) (k_eqb K) _ _ _ _ _ E0) as [_ (l & Hl0 & Hh)].
      destruct (@sort_steps_ok T (k_ltb K) (k_eqb K) (@gt_flip T K) _ _ Hl0) as [_ Hperm].
      split; [|discriminate]. rewrite Hh, <- Hh1. apply Permutation_map. unfold heights.
      apply Permutation_map. apply Permutation_sym. exact Hperm.
    + pose proof (proj2 (@relabel_heights T (k_ltb K) (k_eqb K) _ _ _ _ _ E0)) as Hh. cbn beta iota in Hh.
      rewrite Hh, Hh1. split; [apply Permutation_refl|reflexivity].
Qed.

End LW.
