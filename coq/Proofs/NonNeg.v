(* C12 (part): reported dissimilarities are non-negative when the inputs are -
   for the methods whose formula subtracts (Ward, centroid, median) this is
   not obvious: it holds because every merged pair is closer than, or as close
   as, the cells it is combined with (a global minimum in primitive / generic,
   a reciprocal nearest neighbour in nnchain).

   Generic in a predicate P on the carrier ("non-negative") that the update
   formula preserves under that premise. *)
Require Import KV.Model.Prelude KV.Model.Condensed KV.Model.Active KV.Model.Heap
  KV.Model.UnionFind KV.Model.Dendrogram KV.Model.Methods KV.Model.State KV.Model.Primitive KV.Model.Chain KV.Model.Generic
  KV.Proofs.ResetCanon KV.Proofs.ActiveRefine KV.Proofs.CondensedIdx KV.Proofs.SortProofs KV.Proofs.Monotone
  KV.Proofs.MstCost KV.Proofs.Shape KV.Proofs.PrimitiveGreedy KV.Proofs.Forest KV.Proofs.UnionFindInv
  KV.Proofs.RelabelWF KV.Proofs.PrimitiveWF KV.Proofs.PrimitiveTotal KV.Proofs.UpdateSpec KV.Proofs.ShapeCheck
  KV.Proofs.LWInvariant KV.Proofs.ChainInv KV.Proofs.ChainIter KV.Proofs.ChainCriterion
  KV.Proofs.HeapInv KV.Proofs.GenericInv KV.Proofs.GenericGreedy KV.Proofs.AgreePG.
From Coq Require Import Permutation.

Set Implicit Arguments.

Section NonNeg.
Variable T : Type.
Variable K : kops T.
Variable p : profile.
Variable meth : method.
Hypothesis ltb_irrefl : forall a, k_ltb K a a = false.
Hypothesis ltb_trans : forall a b c, k_ltb K a b = true -> k_ltb K b c = true -> k_ltb K a c = true.

Variable P : T -> Prop.
(* the formula keeps P when the merged pair is not farther than the two cells *)
Hypothesis upd_closed : forall va vb md sa sb sx, size_ok meth sa sb sx ->
  P va -> P vb -> P md -> k_ltb K va md = false -> k_ltb K vb md = false ->
  P (k_upd K va vb md sa sb sx).
Hypothesis rt_closed : forall v, P v -> P (k_rt K v).
Hypothesis sizes_irrelevant : uses_sizes_ab meth = false ->
  forall va vb md sa sb sa' sb' sx, k_upd K va vb md sa sb sx = k_upd K va vb md sa' sb' sx.

Notation ltb := (k_ltb K).

Definition CellsP (M : cmat T) (L : list nat) : Prop :=
  forall x y v, In x L -> In y L -> x <> y -> wcell M x y = Some v -> P v.

(* one merge: the cells between the remaining clusters keep P *)
Lemma cells_step s s' (M M' : cmat T) L a b v :
  merge_facts K meth s s' M M' L a b v -> CellsP M L -> SPos (st_sizes s) L ->
  In a L -> In b L -> a <> b ->
  (forall x w, In x L -> x <> a -> x <> b -> (wcell M x a = Some w \/ wcell M x b = Some w) -> ltb w v = false) ->
  P v /\ CellsP M' (without a L).
Proof.
  intros (Hcab & za & zb & sa & sb & Hza & Hzb & Hsz' & Hsab & Hin & Hsame) HC HSP Ha Hb Hab Hfar.
  assert (Pv : P v) by exact (HC a b v Ha Hb Hab Hcab).
  split; [exact Pv|].
  assert (Hgen : forall x w, In x L -> x <> a -> x <> b -> wcell M' x b = Some w -> P w).
  { intros x w Hx Hxa Hxb Hw. destruct (Hin x Hx Hxa Hxb) as (va & vb & sx & Ca & Cb & Esx & Cn).
    rewrite Cn in Hw. inversion Hw; subst w.
    apply upd_closed.
    - split.
      + intros U. rewrite U in Hsab. destruct Hsab as [-> ->].
        destruct (HSP a Ha) as (qa & Eqa & Pa). destruct (HSP b Hb) as (qb & Eqb & Pb).
        assert (qa = za) by congruence. assert (qb = zb) by congruence. subst. split; assumption.
      + intros U. rewrite U in Esx. destruct (HSP x Hx) as (qx & Eqx & Px). unfold vget in Esx. rewrite Eqx in Esx. inversion Esx; subst. exact Px.
    - exact (HC x a va Hx Ha Hxa Ca).
    - exact (HC x b vb Hx Hb Hxb Cb).
    - exact Pv.
    - exact (Hfar x va Hx Hxa Hxb (or_introl Ca)).
    - exact (Hfar x vb Hx Hxa Hxb (or_intror Cb)). }
  intros x y w Hx Hy Hxy Hw. apply without_In in Hx. apply without_In in Hy.
  destruct Hx as [Hx Hxa], Hy as [Hy Hya].
  destruct (Nat.eq_dec y b) as [->|Hyb]; [exact (Hgen x w Hx Hxa Hxy Hw)|].
  destruct (Nat.eq_dec x b) as [->|Hxb]; [rewrite wcell_sym in Hw; exact (Hgen y w Hy Hya Hyb Hw)|].
  rewrite (Hsame x y Hx Hy Hxy Hxa Hxb Hya Hyb) in Hw. exact (HC x y w Hx Hy Hxy Hw).
Qed.

Lemma spos_step s s' (M M' : cmat T) L a b v :
  merge_facts K meth s s' M M' L a b v -> SPos (st_sizes s) L -> In a L -> In b L ->
  SPos (st_sizes s') (without a L).
Proof.
  intros (_ & za & zb & _ & _ & Hza & Hzb & Hsz' & _) HSP Ha Hb x Hx.
  apply without_In in Hx. destruct Hx as [Hx Hxa]. rewrite Hsz'.
  destruct (Nat.eq_dec x b) as [->|Hxb].
  - exists (za + zb). split; [apply nth_error_set_nth_eq; apply nth_error_Some; congruence|].
    destruct (HSP a Ha) as (q & Hq & Hq0). assert (q = za) by congruence. lia.
  - rewrite nth_error_set_nth_neq by exact Hxb. exact (HSP x Hx).
Qed.

Lemma wcell_mm_ (M : cmat T) x y : wcell M (Nat.min x y) (Nat.max x y) = wcell M x y.
Proof.
  unfold wcell. destruct (Nat.le_ge_cases x y).
  - rewrite (Nat.min_l x y), (Nat.max_r x y) by lia. rewrite Nat.min_l, Nat.max_r by lia. reflexivity.
  - rewrite (Nat.min_r x y), (Nat.max_l x y) by lia. rewrite Nat.min_l, Nat.max_r by lia. reflexivity.
Qed.

Lemma far_of_min (M : cmat T) L a b v :
  (forall x y w, In x L -> In y L -> x < y -> wcell M x y = Some w -> ltb w v = false) -> In a L -> In b L ->
  forall x w, In x L -> x <> a -> x <> b -> (wcell M x a = Some w \/ wcell M x b = Some w) -> ltb w v = false.
Proof.
  intros Hmin Ha Hb x w Hx Hxa Hxb [Hw|Hw].
  - rewrite <- wcell_mm_ in Hw. apply (Hmin (Nat.min x a) (Nat.max x a) w); [| |lia|exact Hw].
    + destruct (Nat.min_spec x a) as [[_ ->]|[_ ->]]; assumption.
    + destruct (Nat.max_spec x a) as [[_ ->]|[_ ->]]; assumption.
  - rewrite <- wcell_mm_ in Hw. apply (Hmin (Nat.min x b) (Nat.max x b) w); [| |lia|exact Hw].
    + destruct (Nat.min_spec x b) as [[_ ->]|[_ ->]]; assumption.
    + destruct (Nat.max_spec x b) as [[_ ->]|[_ ->]]; assumption.
Qed.

(* ---- primitive ---- *)
Lemma prim_fold_P : forall (k : nat) i s d M L s' d' M',
  PInv s M L -> CellsP M L -> SPos (st_sizes s) L ->
  mfold (prim_iter K p meth) (seq i k) (s, d, M) = Ok (s', d', M') ->
  exists news, d_steps d' = d_steps d ++ news /\ Forall (fun st => P (s_dis st)) news.
Proof.
  induction k as [|k IH]; intros i s d M L s' d' M' HP HC HSP H; cbn [seq mfold] in H.
  - inversion H; subst. exists []. rewrite app_nil_r. split; [reflexivity|constructor].
  - destruct (prim_iter K p meth (s, d, M) i) as [[[s1 d1] M1]| |] eqn:E; cbn [bind] in H; try discriminate.
    destruct (@prim_iter_facts T K p meth ltb_irrefl ltb_trans sizes_irrelevant s d M i s1 d1 M1 L HP E)
      as (a & b & v & za & zb & Ha & Hb & Hab & Hv & Hmin & Hza & Hzb & Hsteps & Hobs & HP1 & Hmf).
    destruct (@cells_step s s1 M M1 L a b v Hmf HC HSP Ha Hb ltac:(lia) (@far_of_min M L a b v Hmin Ha Hb)) as [Pv HC1].
    destruct (IH (S i) s1 d1 M1 (without a L) s' d' M' HP1 HC1 (@spos_step s s1 M M1 L a b v Hmf HSP Ha Hb) H) as (news & Hs' & HF).
    exists (step_new a b v (za + zb) :: news).
    split; [rewrite Hs', Hsteps, <- app_assoc; reflexivity|].
    constructor; [|exact HF]. unfold step_new. destruct (b <? a); exact Pv.
Qed.

Lemma final_heights_ (d1 : dend T) (news : list (step T)) (u u' : ufind) (d2 : dend T) :
  d_steps d1 = news ->
  relabel (k_ltb K) (k_eqb K) u d1 (requires_sorting meth) = Ok (u', d2) ->
  Permutation (heights (sqrt_all K d2)) (map (k_rt K) (map (@s_dis T) news)).
Proof.
  intros Hs E. assert (Hh1 : heights d1 = map (@s_dis T) news) by (unfold heights; rewrite Hs; reflexivity).
  rewrite heights_sqrt_all.
  destruct (requires_sorting meth) eqn:Hsort.
  - destruct (@relabel_heights T (k_ltb K) (k_eqb K) _ _ _ _ _ E) as [_ (l & Hl0 & Hh)].
    destruct (@sort_steps_ok T (k_ltb K) (k_eqb K) (@gt_flip T K) _ _ Hl0) as [_ Hperm].
    rewrite Hh, <- Hh1. apply Permutation_map. unfold heights.
    apply Permutation_map. apply Permutation_sym. exact Hperm.
  - pose proof (proj2 (@relabel_heights T (k_ltb K) (k_eqb K) _ _ _ _ _ E)) as Hh. cbn beta iota in Hh.
    rewrite Hh, Hh1. apply Permutation_refl.
Qed.

Lemma heights_P (d1 : dend T) (news : list (step T)) (u u' : ufind) (d2 : dend T) :
  d_steps d1 = news -> Forall (fun st => P (s_dis st)) news ->
  relabel (k_ltb K) (k_eqb K) u d1 (requires_sorting meth) = Ok (u', d2) ->
  Forall P (heights (sqrt_all K d2)).
Proof.
  intros Hs HF E. pose proof (@final_heights_ _ _ _ _ _ Hs E) as HP.
  apply Forall_forall. intros h Hh. apply (Permutation_in _ HP) in Hh.
  apply in_map_iff in Hh. destruct Hh as (v & <- & Hv). apply rt_closed.
  apply in_map_iff in Hv. destruct Hv as (st & <- & Hst). rewrite Forall_forall in HF. exact (HF st Hst).
Qed.

Lemma cells_init (M0 : cmat T) : Forall P (m_data M0) -> CellsP M0 (seq 0 (m_obs M0)).
Proof.
  intros HF x y v _ _ _ Hv. rewrite Forall_forall in HF. apply HF.
  unfold wcell, mcell in Hv. eapply nth_error_In. exact Hv.
Qed.

Lemma spos_init (s : lstate T) n0 : SPos (st_sizes (st_reset K s n0)) (seq 0 n0).
Proof.
  intros x Hx. apply in_seq in Hx. exists 1. split; [|lia]. cbn [st_reset st_sizes]. unfold clear_resize, vresize.
  rewrite firstn_nil. cbn [length app]. rewrite Nat.sub_0_r. apply nth_error_repeat. lia.
Qed.

Theorem primitive_P s d m n s' d' m' :
  Forall P (square_all K m) ->
  primitive_with K p meth s d m n = Ok (s', d', m') -> Forall P (heights d').
Proof.
  intros HF H. unfold primitive_with in H.
  destruct (prologue p (square_all K m) n) as [M0| |] eqn:HM0; cbn [bind] in H; try discriminate.
  destruct (Nat.eqb_spec (m_obs M0) 0) as [Hz|Hz]; [inversion H; subst; constructor|].
  destruct (prologue_wf _ _ _ HM0) as [Hwf Hdata].
  destruct (mfold (prim_iter K p meth) (seq 0 (m_obs M0 - 1)) (st_reset K s (m_obs M0), d_reset d (m_obs M0), M0)) as [[[s1 d1] M1]| |] eqn:Fp;
    cbn [bind] in H; try discriminate.
  destruct (@prim_fold_P (m_obs M0 - 1) 0 _ _ _ _ _ _ _ (@prim_init T K s M0 Hwf)
              (@cells_init M0 ltac:(rewrite Hdata; exact HF)) (spos_init s (m_obs M0)) Fp) as (news & Hs & HFn).
  cbn [d_reset d_steps app] in Hs.
  bind_inv H. destruct a as [u d2]. inversion H; subst s' d' m'.
  exact (@heights_P _ _ _ _ _ Hs HFn E).
Qed.

(* ---- nnchain ---- *)
Section Chain.
Hypothesis ltb_negtrans : forall a b c, k_ltb K a b = false -> k_ltb K b c = false -> k_ltb K a c = false.
Hypothesis reducible : forall va vb md sa sb sx, size_ok meth sa sb sx ->
  k_ltb K va md = false -> k_ltb K vb md = false ->
  k_ltb K (k_upd K va vb md sa sb sx) va = false \/ k_ltb K (k_upd K va vb md sa sb sx) vb = false.

Lemma chain_fold_P n0 : forall (k : nat) i s d M L,
  NInv K n0 s d M L -> CellsP M L -> S k <= length L ->
  exists s' d' M' news,
    mfold (chain_iter K p meth) (seq i k) (s, d, M) = Ok (s', d', M')
    /\ d_steps d' = d_steps d ++ news /\ Forall (fun st => P (s_dis st)) news.
Proof.
  induction k as [|k IH]; intros i s d M L HI HC Hk.
  - exists s, d, M, []. split; [reflexivity|]. rewrite app_nil_r. split; [reflexivity|constructor].
  - cbn [seq mfold].
    destruct (@chain_iter_step_ext T K p meth ltb_irrefl ltb_trans ltb_negtrans reducible n0 s d M L i HI ltac:(lia))
      as (s1 & d1 & M1 & a & b & v & sz & Hstep & Ha & Hb & Hab & Hsteps & HI1 & Hmf & Hfar).
    rewrite Hstep. cbn [bind].
    pose proof HI as (_ & _ & _ & _ & Hnd & _ & Hpos & _).
    destruct (@cells_step s s1 M M1 L a b v Hmf HC Hpos Ha Hb ltac:(lia) Hfar) as [Pv HC1].
    pose proof (without_length a Hnd Ha) as Hwl.
    destruct (IH (S i) s1 d1 M1 (without a L) HI1 HC1 ltac:(lia)) as (s' & d' & M' & news & Hf & Hs' & HF).
    exists s', d', M', (step_new a b v sz :: news).
    split; [exact Hf|]. split; [rewrite Hs', Hsteps, <- app_assoc; reflexivity|].
    constructor; [|exact HF]. unfold step_new. destruct (b <? a); exact Pv.
Qed.

Theorem nnchain_P s d m n s' d' m' :
  Forall P (square_all K m) ->
  nnchain_with K p meth s d m n = Ok (s', d', m') -> Forall P (heights d').
Proof.
  intros HF H. unfold nnchain_with in H.
  destruct (prologue p (square_all K m) n) as [M0| |] eqn:HM0; cbn [bind] in H; try discriminate.
  destruct (Nat.eqb_spec (m_obs M0) 0) as [Hz|Hz]; [inversion H; subst; constructor|].
  destruct (prologue_wf _ _ _ HM0) as [Hwf Hdata].
  set (n0 := m_obs M0) in *.
  assert (HI0 : NInv K n0 (st_with_chain (st_reset K s n0) []) (d_reset d n0) M0 (seq 0 n0)).
  { unfold NInv. cbn [st_with_chain st_reset st_active st_sizes st_chain d_reset d_obs d_steps length].
    split; [apply a_reset_inv|]. split; [exact Hwf|]. split; [reflexivity|].
    split; [rewrite a_reset_canonical; cbn; rewrite map_length, seq_length; reflexivity|].
    split; [apply seq_NoDup|]. unfold clear_resize. split; [rewrite vresize_length; reflexivity|].
    split.
    { intros x Hx. apply in_seq in Hx. exists 1. split; [|lia]. unfold vresize. rewrite firstn_nil. cbn [length app].
      rewrite Nat.sub_0_r. apply nth_error_repeat. lia. }
    split; [reflexivity|]. split; [rewrite seq_length; reflexivity|].
    exists [], []. split; [reflexivity|]. split; [right; split; reflexivity|constructor]. }
  destruct (@chain_fold_P n0 (n0 - 1) 0 _ _ _ _ HI0 (@cells_init M0 ltac:(rewrite Hdata; exact HF)) ltac:(rewrite seq_length; lia))
    as (s1 & d1 & M1 & news & Fc & Hs & HFn).
  rewrite Fc in H. cbn [bind] in H. cbn [d_reset d_steps app] in Hs.
  bind_inv H. destruct a as [u d2]. inversion H; subst s' d' m'.
  exact (@heights_P _ _ _ _ _ Hs HFn E).
Qed.

End Chain.

(* ---- generic ---- *)
Section Gen.
Hypothesis ltb_negtrans : forall a b c, k_ltb K a b = false -> k_ltb K b c = false -> k_ltb K a c = false.
Hypothesis eqb_refl : forall a, k_eqb K a a = true.
Hypothesis eqb_le : forall u v, k_eqb K u v = true -> k_ltb K v u = false.
Hypothesis upd_below_max : forall va vb md sa sb sx,
  k_ltb K va (k_inf K) = true -> k_ltb K vb (k_inf K) = true -> k_ltb K md (k_inf K) = true ->
  k_ltb K (k_upd K va vb md sa sb sx) (k_inf K) = true.
Hypothesis rename_reducible : below_kind_of meth = BelowRename ->
  forall va vb md sa sb sx, (uses_sizes_ab meth = true -> 0 < sa /\ 0 < sb) ->
  k_ltb K va md = false -> k_ltb K vb md = false ->
  k_ltb K (k_upd K va vb md sa sb sx) va = false \/ k_ltb K (k_upd K va vb md sa sb sx) vb = false.
Hypothesis untracked_grows : tracks_candidates meth = false ->
  forall va vb md sa sb sx, k_ltb K (k_upd K va vb md sa sb sx) vb = false.

Lemma gen_fold_P n0 : forall (k : nat) i s d M L,
  GInv K n0 s d M L -> LB K L n0 (st_queue s) M -> CellsP M L -> SPos (st_sizes s) L -> S k <= length L ->
  exists s' d' M' news,
    mfold (gen_iter K p meth) (seq i k) (s, d, M) = Ok (s', d', M')
    /\ d_steps d' = d_steps d ++ news /\ Forall (fun st => P (s_dis st)) news.
Proof.
  induction k as [|k IH]; intros i s d M L HI HLB HC HSP Hk.
  - exists s, d, M, []. split; [reflexivity|]. rewrite app_nil_r. split; [reflexivity|constructor].
  - cbn [seq mfold].
    destruct (@gen_iter_step_ext T K p meth ltb_irrefl ltb_trans ltb_negtrans eqb_refl upd_below_max n0 s d M L i HI ltac:(lia))
      as (s1 & d1 & M1 & a & b & v & sz & Hstep & Ha & Hb & Hab & Hsteps & HI1 & Hmf).
    rewrite Hstep. cbn [bind].
    destruct (@gen_iter_greedy T K p meth ltb_irrefl ltb_trans ltb_negtrans eqb_refl upd_below_max rename_reducible untracked_grows eqb_le
                n0 s d M L i HI HLB HSP ltac:(lia) s1 d1 M1 a b v sz Hstep Hsteps Hab) as (Hgr & HLB1 & _).
    destruct (@cells_step s s1 M M1 L a b v Hmf HC HSP Ha Hb ltac:(lia) (@far_of_min M L a b v Hgr Ha Hb)) as [Pv HC1].
    pose proof HI as (_ & _ & _ & _ & Hnd & _).
    pose proof (without_length a Hnd Ha) as Hwl.
    destruct (IH (S i) s1 d1 M1 (without a L) HI1 HLB1 HC1 (@spos_step s s1 M M1 L a b v Hmf HSP Ha Hb) ltac:(lia))
      as (s' & d' & M' & news & Hf & Hs' & HF).
    exists s', d', M', (step_new a b v sz :: news).
    split; [exact Hf|]. split; [rewrite Hs', Hsteps, <- app_assoc; reflexivity|].
    constructor; [|exact HF]. unfold step_new. destruct (b <? a); exact Pv.
Qed.

Theorem generic_P s d m n s' d' m' :
  Forall (fun v => ltb v (k_inf K) = true) (square_all K m) ->
  Forall P (square_all K m) ->
  generic_with K p meth s d m n = Ok (s', d', m') -> Forall P (heights d').
Proof.
  intros Hall HF H. unfold generic_with in H.
  destruct (prologue p (square_all K m) n) as [M0| |] eqn:HM0; cbn [bind] in H; try discriminate.
  destruct (Nat.eqb_spec (m_obs M0) 0) as [Hz|Hz]; [inversion H; subst; constructor|].
  destruct (prologue_wf _ _ _ HM0) as [Hwf Hdata].
  set (n0 := m_obs M0) in *.
  assert (EM : M0 = {| m_data := square_all K m; m_obs := n0 |}) by (destruct M0; cbn in *; subst; reflexivity).
  assert (Hlen : length (square_all K m) = n0 * (n0 - 1) / 2) by (unfold wf_mat in Hwf; rewrite <- Hdata; exact Hwf).
  destruct (@generic_init T K p ltb_irrefl ltb_trans s d m n0 Hz Hlen Hall) as (s1 & Hinit & HG0).
  pose proof (@generic_init_lb T K p ltb_irrefl ltb_trans s d m n0 Hz Hlen Hall s1 Hinit) as HLB0.
  cbn zeta in Hinit, HG0, HLB0. rewrite <- EM in Hinit, HG0, HLB0.
  destruct (mfold (init_row K p M0) (seq 0 (n0 - 1))
              (h_prio (h_heapify_pre (k_inf K) (st_queue (st_reset K s n0))), st_nearest (st_reset K s n0)))
    as [[dists nearest]| |]; cbn [bind] in Hinit, H; try discriminate.
  destruct (h_heapify_post (k_ltb K) (h_heapify_pre (k_inf K) (st_queue (st_reset K s n0))) dists) as [q1| |];
    cbn [bind] in Hinit, H; try discriminate.
  inversion Hinit as [Es1]. rewrite Es1 in H.
  assert (HSP0 : SPos (st_sizes s1) (seq 0 n0)).
  { rewrite <- Es1. cbn [st_with_nearest st_with_queue st_sizes]. apply spos_init. }
  destruct (@gen_fold_P n0 (n0 - 1) 0 _ _ _ _ HG0 HLB0 (@cells_init M0 ltac:(rewrite Hdata; exact HF)) HSP0 ltac:(rewrite seq_length; lia))
    as (s2 & d1 & M1 & news & Fg & Hs & HFn).
  rewrite Fg in H. cbn [bind] in H. cbn [d_reset d_steps app] in Hs.
  bind_inv H. destruct a as [u d2]. inversion H; subst s' d' m'.
  exact (@heights_P _ _ _ _ _ Hs HFn E).
Qed.

End Gen.

End NonNeg.
