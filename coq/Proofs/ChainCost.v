(* C14 for nnchain_with: under the chain invariant (strict weak order +
   reducible update formula) the number of matrix accesses of the counting
   model Model/Cost.v is at most 6 n^2 + 10 n, hence within 10 n^2 + 50 n.

   Part A relates the counting model to the plain model (erasure) and bounds the
   count of one iteration by the growth of the stored chain; Part B sums the
   bounds with the potential 2 * |live| * |chain|. *)
Require Import KV.Model.Prelude KV.Model.Condensed KV.Model.Active KV.Model.Heap
  KV.Model.UnionFind KV.Model.Dendrogram KV.Model.Methods KV.Model.State KV.Model.Chain KV.Model.Cost
  KV.Proofs.ResetCanon KV.Proofs.ActiveRefine KV.Proofs.CondensedIdx KV.Proofs.SortProofs KV.Proofs.Monotone
  KV.Proofs.MstCost KV.Proofs.Shape KV.Proofs.PrimitiveGreedy KV.Proofs.Forest KV.Proofs.UnionFindInv
  KV.Proofs.RelabelWF KV.Proofs.PrimitiveWF KV.Proofs.PrimitiveTotal KV.Proofs.UpdateSpec KV.Proofs.ShapeCheck
  KV.Proofs.LWInvariant KV.Proofs.ChainInv KV.Proofs.ChainIter.

Set Implicit Arguments.

(* ---- list facts ---- *)
Lemma filter_disjoint_len {A} (f g : A -> bool) (l : list A) :
  (forall x, f x = true -> g x = false) -> length (filter f l) + length (filter g l) <= length l.
Proof.
  intros H. induction l as [|x l IH]; [reflexivity|]. cbn [filter].
  destruct (f x) eqn:Ef; [rewrite (H x Ef); cbn [length]; lia|]. destruct (g x); cbn [length]; lia.
Qed.

Lemma filter_disjoint3_len {A} (f g h : A -> bool) (l : list A) :
  (forall x, f x = true -> g x = false /\ h x = false) -> (forall x, g x = true -> h x = false) ->
  length (filter f l) + length (filter g l) + length (filter h l) <= length l.
Proof.
  intros H1 H2. induction l as [|x l IH]; [reflexivity|]. cbn [filter].
  destruct (f x) eqn:Ef.
  - destruct (H1 x Ef) as [-> ->]. cbn [length]. lia.
  - destruct (g x) eqn:Eg; [rewrite (H2 x Eg); cbn [length]; lia|]. destruct (h x); cbn [length]; lia.
Qed.

Lemma filter_len_le_all {A} (f : A -> bool) (l : list A) : length (filter f l) <= length l.
Proof. induction l as [|x l IH]; [reflexivity|]. cbn [filter]. destruct (f x); cbn [length]; lia. Qed.

Lemma tl_length_le {A} (l : list A) : length (tl l) <= length l.
Proof. destruct l; cbn; lia. Qed.

Lemma removelast_length {A} (l : list A) : length (removelast l) = length l - 1.
Proof.
  destruct l as [|y l0]; [reflexivity|].
  destruct (@exists_last A (y :: l0) ltac:(discriminate)) as (l' & x & E). rewrite E.
  rewrite removelast_last, app_length. cbn. lia.
Qed.

Lemma iter_arith (cnt cnt0 cnt1 c2 l len len' g u : N) : (cnt0 <= cnt + 1 + 2 * l ->
  cnt1 <= cnt0 + g * (2 * l) -> c2 <= cnt1 + 1 -> g + len <= len' + 3 -> u <= l ->
  c2 + 2 * u + 2 * l * len <= cnt + 2 * l * (len' + 3) + 4 * l + 2)%N.
Proof.
  intros H1 H2 H3 H4 H5.
  assert (Hm : (2 * l * (g + len) <= 2 * l * (len' + 3))%N) by (apply N.mul_le_mono_l; exact H4).
  lia.
Qed.

Section ChainCost.
Variable T : Type.
Variable K : kops T.
Variable p : profile.

Local Open Scope N_scope.

(* ---- Part A: erasure ---- *)
Lemma nn_scan_c_erase (M : cmat T) (r c : nat -> nat) (xs : list nat) : forall mn who cnt mn' who' cnt',
  mfold (nn_scan_c K p M r c) xs (mn, who, cnt) = Ok (mn', who', cnt') ->
  mfold (nn_scan K p M r c) xs (mn, who) = Ok (mn', who') /\ cnt' <= cnt + 2 * N.of_nat (length xs).
Proof.
  induction xs as [|x xs IH]; intros mn who cnt mn' who' cnt' H; cbn [mfold] in H |- *.
  - inversion H; subst. split; [reflexivity|]. cbn [length]. lia.
  - unfold nn_scan_c at 1 in H. unfold nn_scan at 1.
    destruct (mget p M (r x) (c x)) as [v| |]; cbn [bind] in H |- *; try discriminate.
    destruct (k_ltb K v mn).
    + destruct (IH _ _ _ _ _ _ H) as [E B]. split; [exact E|]. cbn [length]. lia.
    + destruct (IH _ _ _ _ _ _ H) as [E B]. split; [exact E|]. cbn [length]. lia.
Qed.

(* a returned range is the filtered live list *)
Lemma a_range_ok_inv (a : active) (L : list nat) lo hi xs : AInv a L ->
  a_range a lo hi = Ok xs -> xs = filter (in_range (lo_of a lo) (hi_of a hi)) L.
Proof.
  intros HA H.
  assert (Hlo : (lo_of a lo <= length (a_next a))%nat).
  { destruct (Nat.le_gt_cases (lo_of a lo) (length (a_next a))) as [?|Hgt]; [assumption|exfalso].
    unfold a_range in H. fold (lo_of a lo) in H. unfold assert_ in H.
    destruct (Nat.leb_spec (lo_of a lo) (length (a_next a))); [lia|]. cbn [bind] in H. discriminate. }
  assert (Hhi : (hi_of a hi <= length (a_next a))%nat).
  { destruct (Nat.le_gt_cases (hi_of a hi) (length (a_next a))) as [?|Hgt]; [assumption|exfalso].
    unfold a_range in H. fold (lo_of a lo) in H. fold (hi_of a hi) in H. unfold assert_ in H.
    destruct (Nat.leb_spec (lo_of a lo) (length (a_next a))); [|lia]. cbn [bind] in H.
    destruct (Nat.leb_spec (hi_of a hi) (length (a_next a))); [lia|]. cbn [bind] in H. discriminate. }
  rewrite (a_range_spec lo hi HA Hlo Hhi) in H. inversion H. reflexivity.
Qed.

Variable L : list nat.
Variable s : lstate T.
Hypothesis HA : AInv (st_active s) L.

(* one nearest-neighbour scan around b touches at most the live clusters *)
Lemma scan_len_le b xs1 xs2 :
  a_below (st_active s) b = Ok xs1 -> a_above (st_active s) b = Ok xs2 ->
  (length xs1 + length xs2 <= length L)%nat.
Proof.
  unfold a_below, a_above. intros H1 H2.
  destruct (a_range (st_active s) (Incl b) Unb) as [l2| |] eqn:E2; cbn [bind] in H2; try discriminate.
  inversion H2; subst xs2. rewrite (@a_range_ok_inv _ _ _ _ _ HA H1), (@a_range_ok_inv _ _ _ _ _ HA E2).
  pose proof (tl_length_le (filter (in_range (lo_of (st_active s) (Incl b)) (hi_of (st_active s) Unb)) L)).
  pose proof (@filter_disjoint_len nat (in_range (lo_of (st_active s) Unb) (hi_of (st_active s) (Excl b)))
                (in_range (lo_of (st_active s) (Incl b)) (hi_of (st_active s) Unb)) L) as Hd.
  cbn [lo_of hi_of] in *. specialize (Hd ltac:(intros x Hx; unfold in_range in *;
    apply andb_true_iff in Hx; destruct Hx as [_ Hx]; apply Nat.ltb_lt in Hx;
    apply andb_false_iff; left; apply Nat.leb_gt; exact Hx)). lia.
Qed.

Variable M : cmat T.

Lemma chain_grow_c_erase : forall fuel chain a b mn cnt c1 a1 b1 mn1 cnt1,
  chain_grow_c K p fuel s M chain a b mn cnt = Ok (c1, a1, b1, mn1, cnt1) ->
  chain_grow K p fuel s M chain a b mn = Ok (c1, a1, b1, mn1)
  /\ exists g : nat, length c1 = (length chain + g)%nat
       /\ cnt1 <= cnt + N.of_nat g * (2 * N.of_nat (length L)).
Proof.
  induction fuel as [|fuel IH]; intros chain a b mn cnt c1 a1 b1 mn1 cnt1 H; [discriminate|].
  cbn [chain_grow_c] in H. cbn [chain_grow].
  destruct (a_below (st_active s) b) as [xs1| |] eqn:E1; cbn [bind] in H |- *; try discriminate.
  destruct (mfold (nn_scan_c K p M (fun x => x) (fun _ => b)) xs1 (mn, a, cnt)) as [[[m1 w1] k1]| |] eqn:F1;
    cbn [bind] in H; try discriminate.
  destruct (@nn_scan_c_erase _ _ _ _ _ _ _ _ _ _ F1) as [G1 B1]. rewrite G1. cbn [bind].
  destruct (a_above (st_active s) b) as [xs2| |] eqn:E2; cbn [bind] in H |- *; try discriminate.
  destruct (mfold (nn_scan_c K p M (fun _ => b) (fun x => x)) xs2 (m1, w1, k1)) as [[[m2 w2] k2]| |] eqn:F2;
    cbn [bind] in H; try discriminate.
  destruct (@nn_scan_c_erase _ _ _ _ _ _ _ _ _ _ F2) as [G2 B2]. rewrite G2. cbn [bind].
  pose proof (@scan_len_le _ _ _ E1 E2) as Hlen.
  assert (Bk : k2 <= cnt + 2 * N.of_nat (length L)) by lia.
  destruct (vlast (chain ++ [b]) 1) as [a'| |]; cbn [bind] in H |- *; try discriminate.
  destruct (vlast (chain ++ [b]) 2) as [prev| |]; cbn [bind] in H |- *; try discriminate.
  destruct (w2 =? prev)%nat.
  - inversion H; subst. split; [reflexivity|]. exists 1%nat. rewrite app_length. cbn [length]. split; [reflexivity|]. lia.
  - destruct (IH _ _ _ _ _ _ _ _ _ _ H) as (G & g & Hg & Bg). split; [exact G|].
    exists (S g). rewrite Hg, app_length. cbn [length]. split; [lia|]. lia.
Qed.

Lemma chain_start_c_erase cnt c0 a0 b0 mn0 cnt0 :
  chain_start_c K p s M cnt = Ok (c0, a0, b0, mn0, cnt0) ->
  chain_start K p s M = Ok (c0, a0, b0, mn0)
  /\ cnt0 <= cnt + 1 + 2 * N.of_nat (length L)
  /\ (length (st_chain s) <= length c0 + 3)%nat.
Proof.
  unfold chain_start_c, chain_start. intros H.
  destruct (Nat.ltb_spec (length (st_chain s)) 4) as [Hshort|Hlong].
  - destruct (a_iter (st_active s)) as [live| |]; cbn [bind] in H |- *; try discriminate.
    destruct (opt_unwrap (hd_error live)) as [a| |]; cbn [bind] in H |- *; try discriminate.
    destruct (opt_unwrap (nth_error live 1)) as [b| |]; cbn [bind] in H |- *; try discriminate.
    destruct (mget p M a b) as [mn| |]; cbn [bind] in H |- *; try discriminate.
    destruct (a_above (st_active s) b) as [xs| |] eqn:E2; cbn [bind] in H |- *; try discriminate.
    destruct (mfold (nn_scan_c K p M (fun _ => a) (fun x => x)) xs (mn, b, cnt + 1)) as [[[m2 w2] k2]| |] eqn:F2;
      cbn [bind] in H; try discriminate.
    destruct (@nn_scan_c_erase _ _ _ _ _ _ _ _ _ _ F2) as [G2 B2]. rewrite G2. cbn [bind].
    inversion H; subst. split; [reflexivity|]. split; [|cbn [length]; lia].
    assert (Hxs : (length xs <= length L)%nat).
    { unfold a_above in E2. destruct (a_range (st_active s) (Incl b) Unb) as [l2| |] eqn:E; cbn [bind] in E2; try discriminate.
      inversion E2; subst xs. rewrite (@a_range_ok_inv _ _ _ _ _ HA E).
      pose proof (tl_length_le (filter (in_range (lo_of (st_active s) (Incl b)) (hi_of (st_active s) Unb)) L)).
      pose proof (filter_len_le_all (in_range (lo_of (st_active s) (Incl b)) (hi_of (st_active s) Unb)) L). lia. }
    lia.
  - cbn zeta in H |- *.
    destruct (vlast (removelast (removelast (st_chain s))) 1) as [b| |]; cbn [bind] in H |- *; try discriminate.
    destruct (vlast (removelast (removelast (removelast (st_chain s)))) 1) as [a| |]; cbn [bind] in H |- *; try discriminate.
    destruct (if (a <? b)%nat then mget p M a b else mget p M b a) as [mn| |]; cbn [bind] in H |- *; try discriminate.
    inversion H; subst. split; [reflexivity|]. split; [lia|].
    rewrite !removelast_length. lia.
Qed.

Lemma st_merge_chain (s0 s' : lstate T) (d d' : dend T) c1 c2 x :
  st_merge s0 d c1 c2 x = Ok (s', d') -> st_chain s' = st_chain s0.
Proof.
  unfold st_merge. intros H.
  destruct (vget (st_sizes s0) c1); cbn [bind] in H; try discriminate.
  destruct (vget (st_sizes s0) c2); cbn [bind] in H; try discriminate.
  destruct (vset (st_sizes s0) c2 (a + a0)%nat); cbn [bind] in H; try discriminate.
  destruct (a_remove (st_active s0) c1); cbn [bind] in H; try discriminate.
  destruct (vget a1 c2); cbn [bind] in H; try discriminate.
  destruct (d_push d (step_new c1 c2 x a3)); cbn [bind] in H; try discriminate.
  inversion H; subst. reflexivity.
Qed.

(* one iteration: same result as the plain model; the count grows by at most
   2|L| per element the stored chain gained (+3 popped), plus 4|L| + 2 *)
Theorem chain_iter_c_erase meth d cnt i s' d' M' cnt' :
  chain_iter_c K p meth (s, d, M, cnt) i = Ok (s', d', M', cnt') ->
  chain_iter K p meth (s, d, M) i = Ok (s', d', M')
  /\ cnt' + 2 * N.of_nat (length L) * N.of_nat (length (st_chain s))
     <= cnt + 2 * N.of_nat (length L) * (N.of_nat (length (st_chain s')) + 3) + 4 * N.of_nat (length L) + 2.
Proof.
  unfold chain_iter_c, chain_iter. intros H.
  destruct (chain_start_c K p s M cnt) as [[[[[c0 a0] b0] mn0] cnt0]| |] eqn:Es; cbn [bind] in H; try discriminate.
  destruct (chain_start_c_erase _ Es) as (Gs & Bs & Ls). rewrite Gs. cbn [bind].
  destruct (chain_grow_c K p (chain_fuel M) s M c0 a0 b0 mn0 cnt0) as [[[[[c1 a1] b1] mn1] cnt1]| |] eqn:Eg; cbn [bind] in H; try discriminate.
  destruct (chain_grow_c_erase _ _ _ _ _ _ Eg) as (Gg & g & Lg & Bg). rewrite Gg. cbn [bind].
  remember (if (b1 <? a1)%nat then (b1, a1) else (a1, b1)) as ab eqn:Hab. destruct ab as [a b].
  assert (Hle : (a <= b)%nat) by (destruct (Nat.ltb_spec b1 a1); inversion Hab; lia).
  destruct (if uses_size_x meth then mget p M a b else Ok mn1) as [dist| |]; cbn [bind] in H |- *; try discriminate.
  destruct (sizes_ab meth (st_with_chain s c1) a b) as [[sa sb]| |]; cbn [bind] in H |- *; try discriminate.
  cbn [st_with_chain st_active] in H.
  destruct (a_below (st_active s) a) as [xs1| |] eqn:E1; cbn [bind] in H; try discriminate.
  destruct (a_between (st_active s) a b) as [xs2| |] eqn:E2; cbn [bind] in H; try discriminate.
  destruct (a_above (st_active s) b) as [xs3| |] eqn:E3; cbn [bind] in H; try discriminate.
  destruct (update3 K p meth (st_with_chain s c1) M a b dist sa sb) as [Mu| |]; cbn [bind] in H |- *; try discriminate.
  destruct (st_merge (st_with_chain s c1) d a b mn1) as [[s2 d2]| |] eqn:Em; cbn [bind] in H |- *; try discriminate.
  inversion H; subst s' d' M' cnt'. clear H. split; [reflexivity|].
  rewrite (st_merge_chain _ _ _ _ _ Em). cbn [st_with_chain st_chain].
  (* the three update ranges are disjoint parts of the live list *)
  assert (Hupd : (length xs1 + length xs2 + length xs3 <= length L)%nat).
  { unfold a_below in E1. unfold a_between in E2. unfold a_above in E3.
    destruct (a_range (st_active s) (Incl a) (Excl b)) as [l2| |] eqn:R2; cbn [bind] in E2; try discriminate.
    destruct (a_range (st_active s) (Incl b) Unb) as [l3| |] eqn:R3; cbn [bind] in E3; try discriminate.
    inversion E2; inversion E3; subst xs2 xs3.
    rewrite (@a_range_ok_inv _ _ _ _ _ HA E1), (@a_range_ok_inv _ _ _ _ _ HA R2), (@a_range_ok_inv _ _ _ _ _ HA R3).
    cbn [lo_of hi_of].
    pose proof (tl_length_le (filter (in_range a b) L)).
    pose proof (tl_length_le (filter (in_range b (length (a_next (st_active s)))) L)).
    assert (Hd : (length (filter (in_range (a_start (st_active s)) a) L) + length (filter (in_range a b) L)
                  + length (filter (in_range b (length (a_next (st_active s)))) L) <= length L)%nat).
    { apply filter_disjoint3_len.
      - intros x Hx. unfold in_range in *. apply andb_true_iff in Hx. destruct Hx as [_ Hx]. apply Nat.ltb_lt in Hx.
        split; apply andb_false_iff; left; apply Nat.leb_gt; lia.
      - intros x Hx. unfold in_range in *. apply andb_true_iff in Hx. destruct Hx as [_ Hx]. apply Nat.ltb_lt in Hx.
        apply andb_false_iff; left; apply Nat.leb_gt; lia. }
    lia. }
  assert (Hc2 : (if uses_size_x meth then cnt1 + 1 else cnt1) <= cnt1 + 1) by (destruct (uses_size_x meth); lia).
  rewrite Lg.
  apply (@iter_arith cnt cnt0 cnt1 (if uses_size_x meth then cnt1 + 1 else cnt1) (N.of_nat (length L))
           (N.of_nat (length (st_chain s))) (N.of_nat (length c0 + g)) (N.of_nat g)
           (N.of_nat (length xs1 + length xs2 + length xs3)) Bs Bg Hc2); lia.
Qed.

End ChainCost.

(* ---- Part B: summing up with the potential 2 * |live| * |chain| ---- *)
Section ChainBound.
Variable T : Type.
Variable K : kops T.
Variable p : profile.
Variable meth : method.
Hypothesis ltb_irrefl : forall a, k_ltb K a a = false.
Hypothesis ltb_trans : forall a b c, k_ltb K a b = true -> k_ltb K b c = true -> k_ltb K a c = true.
Hypothesis ltb_negtrans : forall a b c, k_ltb K a b = false -> k_ltb K b c = false -> k_ltb K a c = false.
Hypothesis reducible : forall va vb md sa sb sx, size_ok meth sa sb sx ->
  k_ltb K va md = false -> k_ltb K vb md = false ->
  k_ltb K (k_upd K va vb md sa sb sx) va = false \/ k_ltb K (k_upd K va vb md sa sb sx) vb = false.

Local Open Scope N_scope.

Lemma ninv_chain_len n0 s d M L : NInv K n0 s d M L -> (length (st_chain s) <= length L + 2)%nat.
Proof.
  intros (_ & _ & _ & _ & _ & _ & _ & _ & _ & junk & rest & Hch & Hjunk & Hc).
  rewrite Hch, rev_length, app_length.
  assert (Hr : (length rest <= length L)%nat).
  { apply NoDup_incl_length; [exact (cinv_nodup Hc)|]. intros c Hc'. exact (cinv_live Hc c Hc'). }
  destruct Hjunk as [->|[-> ->]]; cbn [length]; lia.
Qed.

Definition P (l : N) : N := 6 * l * (l + 1) + 4 * l.

Lemma P_step l : (1 <= l) -> P l = P (l - 1) + 12 * l + 4.
Proof. intros H. unfold P. replace l with (l - 1 + 1) at 1 2 3 by lia. lia. Qed.

Lemma chain_fold_cost n0 : forall (k : nat) i s d M L cnt s' d' M' cnt',
  NInv K n0 s d M L -> (S k <= length L)%nat ->
  mfold (chain_iter_c K p meth) (seq i k) (s, d, M, cnt) = Ok (s', d', M', cnt') ->
  exists L', NInv K n0 s' d' M' L' /\ (length L' + k = length L)%nat
    /\ cnt' + 2 * N.of_nat (length L) * N.of_nat (length (st_chain s)) + P (N.of_nat (length L'))
       <= cnt + 2 * N.of_nat (length L') * N.of_nat (length (st_chain s')) + P (N.of_nat (length L)).
Proof.
  induction k as [|k IH]; intros i s d M L cnt s' d' M' cnt' HI Hk H; cbn [seq mfold] in H.
  - inversion H; subst. exists L. split; [exact HI|]. split; [lia|lia].
  - destruct (chain_iter_c K p meth (s, d, M, cnt) i) as [[[[s1 d1] M1] cnt1]| |] eqn:E; cbn [bind] in H; try discriminate.
    pose proof HI as (HA & _ & _ & _ & Hnd & _).
    destruct (@chain_iter_c_erase T K p L s HA M meth d cnt i s1 d1 M1 cnt1 E) as (Hplain & Hb).
    destruct (@chain_iter_step T K p meth ltb_irrefl ltb_trans ltb_negtrans reducible n0 s d M L i HI ltac:(lia))
      as (s1' & d1' & M1' & a & b & v & sz & Hstep & Ha & _ & _ & _ & HI1).
    rewrite Hplain in Hstep. inversion Hstep; subst s1' d1' M1'. clear Hstep.
    pose proof (without_length a Hnd Ha) as Hwl.
    destruct (IH (S i) s1 d1 M1 (without a L) cnt1 s' d' M' cnt' HI1 ltac:(lia) H) as (L' & HI' & Hl' & Hb').
    exists L'. split; [exact HI'|]. split; [lia|].
    pose proof (ninv_chain_len HI1) as Hlen1.
    set (l := N.of_nat (length L)) in *. set (l1 := N.of_nat (length (without a L))) in *.
    assert (El : l = l1 + 1) by (unfold l, l1; lia).
    assert (Hlen1' : N.of_nat (length (st_chain s1)) <= l1 + 2) by (unfold l1; lia).
    rewrite (@P_step l ltac:(lia)). replace (l - 1) with l1 by lia.
    clearbody l l1. subst l.
    generalize dependent (N.of_nat (length (st_chain s1))). intros len1 Hb Hb' Hlen1'.
    generalize dependent (N.of_nat (length (st_chain s))). intros len Hb.
    generalize dependent (N.of_nat (length (st_chain s'))). intros len' Hb'.
    generalize dependent (P (N.of_nat (length L'))). intros PL' Hb'.
    generalize dependent (N.of_nat (length L')). intros l' Hb'.
    generalize dependent (P l1). intros Pl1 Hb'.
    nia.
Qed.

(* the whole call *)
Theorem nnchain_cost (s : lstate T) (d : dend T) (m : list T) (n : N) s' d' m' cnt :
  (n < two32) -> wf_shape n (N.of_nat (length m)) ->
  nnchain_with_c K p meth s d m n = Ok (s', d', m', cnt) ->
  cnt <= 6 * n * n + 10 * n.
Proof.
  intros Hn Hshape H. unfold nnchain_with_c, prologue in H.
  assert (Hshape' : wf_shape n (N.of_nat (length (square_all K m)))) by (unfold square_all; rewrite map_length; exact Hshape).
  rewrite (shape_check_ok p n _ Hn Hshape') in H. cbn [bind] in H.
  unfold obs_to_nat in H. destruct (N.ltb_spec (if (n <=? 1) then 0 else n) two32) as [_|Hbig];
    [|destruct (N.leb_spec n 1); unfold two32 in *; lia]. cbn [bind m_obs m_data] in H.
  set (n0 := N.to_nat (if (n <=? 1) then 0 else n)) in *.
  destruct (Nat.eqb_spec n0 0) as [Hz|Hz]; [inversion H; subst; lia|].
  set (M := {| m_data := square_all K m; m_obs := n0 |}) in *.
  assert (Hwf : wf_mat M).
  { unfold wf_mat, M. cbn [m_data m_obs]. unfold wf_shape in Hshape'. unfold n0 in *.
    destruct (N.leb_spec n 1); [cbn in Hz; lia|].
    apply Nat2N.inj. rewrite Hshape'. rewrite Nat2N.inj_div, Nat2N.inj_mul, Nat2N.inj_sub, N2Nat.id. reflexivity. }
  assert (HI0 : NInv K n0 (st_with_chain (st_reset K s n0) []) (d_reset d n0) M (seq 0 n0)).
  { unfold NInv. cbn [st_with_chain st_reset st_active st_sizes st_chain d_reset d_obs d_steps length].
    split; [apply a_reset_inv|]. split; [exact Hwf|]. split; [reflexivity|].
    split; [rewrite a_reset_canonical; cbn; rewrite map_length, seq_length; reflexivity|].
    split; [apply seq_NoDup|]. unfold clear_resize. split; [rewrite vresize_length; reflexivity|].
    split.
    { intros x Hx. apply in_seq in Hx. exists 1%nat. split; [|lia]. unfold vresize. rewrite firstn_nil. cbn [length app].
      rewrite Nat.sub_0_r. apply nth_error_repeat. lia. }
    split; [reflexivity|]. split; [rewrite seq_length; reflexivity|].
    exists [], []. split; [reflexivity|]. split; [right; split; reflexivity|constructor]. }
  destruct (mfold (chain_iter_c K p meth) (seq 0 (n0 - 1)) (st_with_chain (st_reset K s n0) [], d_reset d n0, M, 0))
    as [[[[s1 d1] M1] cnt1]| |] eqn:Efold; cbn [bind] in H; try discriminate.
  destruct (relabel (k_ltb K) (k_eqb K) (st_set s1) d1 (requires_sorting meth)) as [[u d2]| |]; cbn [bind] in H; try discriminate.
  inversion H; subst s' d' m' cnt. clear H.
  destruct (@chain_fold_cost n0 (n0 - 1) 0 _ _ _ _ _ _ _ _ _ HI0 ltac:(rewrite seq_length; lia) Efold)
    as (L' & HI' & Hl' & Hb).
  rewrite seq_length in Hl', Hb. cbn [st_with_chain st_chain length] in Hb.
  pose proof (ninv_chain_len HI') as Hlen'.
  assert (El' : length L' = 1%nat) by lia. rewrite El' in Hb, Hlen'.
  assert (En : N.of_nat n0 = n) by (unfold n0; destruct (N.leb_spec n 1); [cbn in Hz; lia|lia]).
  rewrite En in Hb. unfold P in Hb.
  assert (Hlen2 : N.of_nat (length (st_chain s1)) <= 3) by lia. clear Hlen'.
  generalize dependent (N.of_nat (length (st_chain s1))). intros len' Hb Hlen2. nia.
Qed.

End ChainBound.
