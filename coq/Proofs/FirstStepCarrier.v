(* nnchain_first_step_selection on a carrier whose `<` is a strict weak order only on a subset
   `ok` (IEEE floats: the non-NaN values): run on the subset type, transfer through C10's
   abstraction theorem (as in SubCarrier.v). Instances: binary64, binary32. *)
Require Import KV.Model.Prelude KV.Model.Condensed KV.Model.Active KV.Model.Dendrogram KV.Model.Methods KV.Model.State
  KV.Model.Linkage KV.Model.History KV.Model.Chain KV.Run.F64 KV.Run.F32
  KV.Proofs.ShapeCheck KV.Proofs.PrimitiveGreedy KV.Proofs.PrimitiveWF KV.Proofs.UpdateSpec KV.Proofs.SortProofs
  KV.Proofs.OrderOnly KV.Proofs.SubCarrier KV.Proofs.FloatOrder KV.Proofs.FloatInstances KV.Proofs.FirstStepInstances.
From Coq Require Import Floats.
From Flocq Require Import Core.FLX IEEE754.BinarySingleNaN.

Set Implicit Arguments.

Section Sub.
Variable T : Type.
Variable F : fops T.
Variable ok : T -> bool.
Hypothesis ok_max : ok (f_max F) = true.
Hypothesis ok_inf : ok (f_inf F) = true.
Hypothesis ltb_irrefl : forall a, f_ltb F a a = false.
Hypothesis ltb_trans : forall a b c, f_ltb F a b = true -> f_ltb F b c = true -> f_ltb F a c = true.
Hypothesis ltb_negtrans : forall a b c, ok a = true -> ok b = true -> ok c = true ->
  f_ltb F a b = false -> f_ltb F b c = false -> f_ltb F a c = false.
Hypothesis eqb_nlt : forall a b, f_eqb F a b = true -> f_ltb F b a = false.

Notation sub := (SubCarrier.sub ok).
Notation g := (@SubCarrier.g T ok).
Notation FS := (SubCarrier.FS F ok ok_max ok_inf).

Lemma sq_id meth (A : Type) (FA : fops A) (m : list A) : meth = Single \/ meth = Complete -> square_all (kops_of FA meth) m = m.
Proof. intros [->| ->]; unfold square_all; cbn [kops_of k_sq on_squares]; apply map_id. Qed.

Lemma wcell_map (M1 : cmat sub) x y :
  wcell {| m_data := map g (m_data M1); m_obs := m_obs M1 |} x y = option_map g (wcell M1 x y).
Proof. unfold wcell, mcell. cbn [m_data m_obs]. rewrite nth_error_map. destruct (nth_error (m_data M1) _); reflexivity. Qed.

Theorem nnchain_first_step_carrier (p : profile) meth s d (m : list T) (n : N) s' d' m' M0 (a b : nat) (v : T) :
  meth = Single \/ meth = Complete ->
  nnchain_with (kops_of F meth) p meth s d m n = Ok (s', d', m') ->
  prologue p m n = Ok M0 ->
  Forall (fun w => ok w = true) m ->
  a < b -> b < m_obs M0 ->
  wcell M0 a b = Some v ->
  (forall x y w, x < y -> y < m_obs M0 -> (x, y) <> (a, b) -> wcell M0 x y = Some w -> f_ltb F v w = true) ->
  exists t, nth_error (d_steps d') 0 = Some t /\ s_c1 t = a /\ s_c2 t = b /\ s_size t = 2 /\ s_dis t = v.
Proof.
  intros Hmeth Hrun HM0 Hok Hab Hb Hv Huniq.
  destruct (@lift_list T ok m Hok) as (m1 & Hm1).
  pose proof (@order_only sub T g (fun _ => True) FS F p
                (fun x y _ _ => eq_refl) (fun x y _ _ => eq_refl) (conj I eq_refl) (conj I eq_refl)
                ANnchain meth m1 n (st_new sub) (d_new sub 0) s d Hmeth
                ltac:(apply Forall_forall; intros; exact I)) as Hoo.
  cbn [run_with] in Hoo. rewrite Hm1, Hrun in Hoo. cbn [out_of] in Hoo.
  destruct (nnchain_with (kops_of FS meth) p meth (st_new sub) (d_new sub 0) m1 n) as [[[ss ds] ms]| |] eqn:Hrun1;
    cbn [out_of map_out] in Hoo; try discriminate.
  injection Hoo as Hd Hm.
  assert (HM1 : exists M1, prologue p m1 n = Ok M1 /\ M0 = {| m_data := map g (m_data M1); m_obs := m_obs M1 |}).
  { unfold prologue in HM0 |- *. rewrite <- Hm1, map_length in HM0.
    destruct (shape_check p n (N.of_nat (length m1))) as [q| |]; cbn [bind] in *; try discriminate.
    destruct (obs_to_nat q) as [q'| |]; cbn [bind] in *; try discriminate.
    eexists. split; [reflexivity|]. inversion HM0; subst. cbn [m_data m_obs]. reflexivity. }
  destruct HM1 as (M1 & HM1 & HM01).
  assert (Hobs : m_obs M0 = m_obs M1) by (rewrite HM01; reflexivity).
  rewrite HM01, wcell_map in Hv. destruct (wcell M1 a b) as [v1|] eqn:Hv1; [|discriminate]. cbn [option_map] in Hv. inversion Hv as [Ev].
  destruct (@nnchain_first_step_selection sub FS p
              (fun x => ltb_irrefl (g x)) (fun x y z => ltb_trans (g x) (g y) (g z))
              (fun x y z => @ltb_negtrans (g x) (g y) (g z) (proj2_sig x) (proj2_sig y) (proj2_sig z))
              (fun x y => eqb_nlt (g x) (g y))
              meth (st_new sub) (d_new sub 0) m1 n ss ds ms M1 a b v1 Hmeth Hrun1
              ltac:(rewrite (@sq_id meth sub FS m1 Hmeth); exact HM1) Hab ltac:(lia) Hv1) as (t & Et & E1 & E2 & E3 & E4).
  - intros x y w Hxy Hy Hne Hw.
    pose proof (Huniq x y (g w) Hxy ltac:(lia) Hne ltac:(rewrite HM01, wcell_map, Hw; reflexivity)) as H.
    rewrite <- Ev in H. exact H.
  - exists (map_step g t). rewrite Hd. unfold map_dend. cbn [d_steps]. rewrite nth_error_map, Et. split; [reflexivity|].
    cbn [map_step s_c1 s_c2 s_dis s_size]. split; [exact E1|]. split; [exact E2|]. split; [exact E3|].
    rewrite E4. destruct Hmeth as [->| ->]; reflexivity.
Qed.

End Sub.

Theorem nnchain_first_step_f64 (p : profile) meth s d (m : list PrimFloat.float) (n : N) s' d' m' M0 (a b : nat) v :
  meth = Single \/ meth = Complete ->
  nnchain_with (kops_of F64 meth) p meth s d m n = Ok (s', d', m') ->
  prologue p m n = Ok M0 ->
  Forall (fun w => PrimFloat.is_nan w = false) m ->
  a < b -> b < m_obs M0 ->
  wcell M0 a b = Some v ->
  (forall x y w, x < y -> y < m_obs M0 -> (x, y) <> (a, b) -> wcell M0 x y = Some w -> PrimFloat.ltb v w = true) ->
  exists t, nth_error (d_steps d') 0 = Some t /\ s_c1 t = a /\ s_c2 t = b /\ s_size t = 2 /\ s_dis t = v.
Proof.
  intros Hmeth H HM0 Hnan.
  apply (@nnchain_first_step_carrier _ F64 ok64 eq_refl eq_refl f64_ltb_irrefl f64_ltb_trans
           ltac:(intros x y z Hx Hy Hz; apply f64_ltb_negtrans; unfold ok64 in *;
                 [destruct (PrimFloat.is_nan x)|destruct (PrimFloat.is_nan y)|destruct (PrimFloat.is_nan z)]; (reflexivity || discriminate))
           f64_eqb_not_lt p meth s d m n s' d' m' M0 a b v Hmeth H HM0).
  eapply Forall_impl; [|exact Hnan]. intros w Hw. unfold ok64. rewrite Hw. reflexivity.
Qed.

Theorem nnchain_first_step_f32 (p : profile) meth s d (m : list f32) (n : N) s' d' m' M0 (a b : nat) v :
  meth = Single \/ meth = Complete ->
  nnchain_with (kops_of F32 meth) p meth s d m n = Ok (s', d', m') ->
  prologue p m n = Ok M0 ->
  Forall (fun w => BinarySingleNaN.is_nan w = false) m ->
  a < b -> b < m_obs M0 ->
  wcell M0 a b = Some v ->
  (forall x y w, x < y -> y < m_obs M0 -> (x, y) <> (a, b) -> wcell M0 x y = Some w -> Bltb v w = true) ->
  exists t, nth_error (d_steps d') 0 = Some t /\ s_c1 t = a /\ s_c2 t = b /\ s_size t = 2 /\ s_dis t = v.
Proof.
  intros Hmeth H HM0 Hnan.
  apply (@nnchain_first_step_carrier _ F32 ok32 eq_refl eq_refl (@Bltb_irrefl 24 128) (@Bltb_trans 24 128)
           ltac:(intros x y z Hx Hy Hz; apply (@Bltb_negtrans 24 128); unfold ok32 in *;
                 [destruct (BinarySingleNaN.is_nan x)|destruct (BinarySingleNaN.is_nan y)|destruct (BinarySingleNaN.is_nan z)]; (reflexivity || discriminate))
           (@Beqb_not_lt 24 128) p meth s d m n s' d' m' M0 a b v Hmeth H HM0).
  eapply Forall_impl; [|exact Hnan]. intros w Hw. unfold ok32. rewrite Hw. reflexivity.
Qed.

(* what the user calls: linkage(.., Method::Complete) runs nnchain *)
Theorem linkage_complete_first_step_f64 (p : profile) s d (m : list PrimFloat.float) (n : N) s' d' m' M0 (a b : nat) v :
  run_with F64 p ALinkage Complete s d m n = Ok (s', d', m') ->
  prologue p m n = Ok M0 ->
  Forall (fun w => PrimFloat.is_nan w = false) m ->
  a < b -> b < m_obs M0 ->
  wcell M0 a b = Some v ->
  (forall x y w, x < y -> y < m_obs M0 -> (x, y) <> (a, b) -> wcell M0 x y = Some w -> PrimFloat.ltb v w = true) ->
  exists t, nth_error (d_steps d') 0 = Some t /\ s_c1 t = a /\ s_c2 t = b /\ s_size t = 2 /\ s_dis t = v.
Proof. intros H. exact (@nnchain_first_step_f64 p Complete s d m n s' d' m' M0 a b v (or_intror eq_refl) H). Qed.

Theorem linkage_complete_first_step_f32 (p : profile) s d (m : list f32) (n : N) s' d' m' M0 (a b : nat) v :
  run_with F32 p ALinkage Complete s d m n = Ok (s', d', m') ->
  prologue p m n = Ok M0 ->
  Forall (fun w => BinarySingleNaN.is_nan w = false) m ->
  a < b -> b < m_obs M0 ->
  wcell M0 a b = Some v ->
  (forall x y w, x < y -> y < m_obs M0 -> (x, y) <> (a, b) -> wcell M0 x y = Some w -> Bltb v w = true) ->
  exists t, nth_error (d_steps d') 0 = Some t /\ s_c1 t = a /\ s_c2 t = b /\ s_size t = 2 /\ s_dis t = v.
Proof. intros H. exact (@nnchain_first_step_f32 p Complete s d m n s' d' m' M0 a b v (or_intror eq_refl) H). Qed.
