(* Invariants of the labelled union-find of src/union.rs. *)
Require Import KV.Model.Prelude KV.Model.Active KV.Model.UnionFind KV.Proofs.ResetCanon
  KV.Proofs.ActiveRefine KV.Proofs.Monotone.

Set Implicit Arguments.

(* r is the root reached from x by following parents *)
Inductive reaches (P : list nat) : nat -> nat -> Prop :=
| r_root r : nth_error P r = Some r -> reaches P r r
| r_step x px r : nth_error P x = Some px -> px <> x -> reaches P px r -> reaches P x r.

Lemma reaches_root P x r : reaches P x r -> nth_error P r = Some r.
Proof. induction 1; assumption. Qed.

Lemma reaches_det P x r1 r2 : reaches P x r1 -> reaches P x r2 -> r1 = r2.
Proof.
  intros H. revert r2. induction H as [r Hr|x px r Hx Hne Hr IH]; intros r2 H2.
  - inversion H2 as [? Hr2|? px2 ? Hx2 Hne2 Hr2]; subst; [reflexivity|]. congruence.
  - inversion H2 as [? Hr2|? px2 ? Hx2 Hne2 Hr2]; subst; [congruence|].
    rewrite Hx in Hx2. inversion Hx2; subst. apply IH. exact Hr2.
Qed.

(* n observations, k unions done: labels below n+k are roots or point to a
   strictly larger label below n+k; labels from n+k on are untouched roots *)
Definition UInv (n k : nat) (u : ufind) : Prop :=
  length (u_parents u) = 2 * n - 1 /\ u_next u = n + k /\ n + k <= 2 * n - 1
  /\ forall x, x < 2 * n - 1 -> exists px, nth_error (u_parents u) x = Some px
        /\ (px = x \/ (x < px /\ px < n + k)).

Theorem u_reset_inv (u : ufind) (n : nat) : 1 <= n -> UInv n 0 (u_reset u n).
Proof.
  intros Hn. rewrite u_reset_canonical. unfold UInv, u_canonical, u_size. cbn [u_parents u_next].
  destruct (Nat.eqb_spec n 0); [lia|]. rewrite map_length, seq_length.
  split; [lia|]. split; [lia|]. split; [lia|]. intros x Hx. exists x. split; [|left; reflexivity].
  rewrite nth_error_map, (nth_error_nth' _ 0) by (rewrite seq_length; lia).
  rewrite seq_nth by lia. reflexivity.
Qed.

Section WithInv.
Variables (n k : nat) (u : ufind).
Hypothesis HI : UInv n k u.

Let P := u_parents u.

Lemma uinv_lookup x : x < 2 * n - 1 ->
  exists px, nth_error P x = Some px /\ (px = x \/ (x < px /\ px < n + k)).
Proof. destruct HI as (_ & _ & _ & H). apply H. Qed.

(* every label has a root; the model's root search finds it within its fuel *)
Lemma root_exists : forall m x, 2 * n - 1 - x <= m -> x < 2 * n - 1 ->
  exists r, reaches P x r /\ x <= r /\ r < 2 * n - 1 /\ (r = x \/ r < n + k)
    /\ forall fuel, m < fuel -> u_root fuel u x = Ok r.
Proof.
  induction m as [|m IH]; intros x Hm Hx; [lia|].
  destruct (@uinv_lookup x Hx) as (px & Hpx & [->|[H1 H2]]).
  - exists x. split; [constructor; exact Hpx|]. repeat split; try lia.
    intros fuel Hf. destruct fuel as [|f]; [lia|]. cbn [u_root]. unfold u_parent, vget. fold P.
    rewrite Hpx. cbn [bind]. rewrite Nat.eqb_refl. reflexivity.
  - destruct HI as (_ & _ & Hk & _).
    destruct (IH px ltac:(lia) ltac:(lia)) as (r & Hr & B1 & B2 & B3 & Hfuel).
    exists r. split; [apply r_step with px; [exact Hpx|lia|exact Hr]|]. repeat split; try lia.
    intros fuel Hf. destruct fuel as [|f]; [lia|]. cbn [u_root]. unfold u_parent, vget. fold P.
    rewrite Hpx. cbn [bind]. destruct (Nat.eqb_spec px x); [lia|]. apply Hfuel. lia.
Qed.

End WithInv.

(* redirecting a non-root y straight to its root changes no root *)
Lemma reaches_redirect P y ry : reaches P y ry -> y < length P ->
  forall x r, reaches P x r -> reaches (set_nth P y ry) x r.
Proof.
  intros Hy Hlen x r H. induction H as [r Hr|x px r Hx Hne Hr IH].
  - destruct (Nat.eq_dec r y) as [->|Hne].
    + (* y is itself a root: ry = y *)
      assert (ry = y) by (eapply reaches_det; [exact Hy|constructor; exact Hr]). subst ry.
      constructor. apply nth_error_set_nth_eq. exact Hlen.
    + constructor. rewrite nth_error_set_nth_neq by exact Hne. exact Hr.
  - destruct (Nat.eq_dec x y) as [->|Hxy].
    + (* x = y: new parent is ry, which is the root of y, hence r *)
      assert (r = ry).
      { eapply reaches_det; [|exact Hy]. apply r_step with px; assumption. }
      subst r. destruct (Nat.eq_dec ry y) as [->|Hry].
      * constructor. apply nth_error_set_nth_eq. exact Hlen.
      * apply r_step with ry; [apply nth_error_set_nth_eq; exact Hlen|exact Hry|].
        constructor. rewrite nth_error_set_nth_neq by exact Hry. eapply reaches_root. exact Hy.
    + apply r_step with px; [rewrite nth_error_set_nth_neq by exact Hxy; exact Hx|exact Hne|exact IH].
Qed.

Lemma redirect_inv n k u y ry : UInv n k u -> reaches (u_parents u) y ry -> y < 2 * n - 1 ->
  y <= ry -> (ry = y \/ ry < n + k) ->
  UInv n k {| u_parents := set_nth (u_parents u) y ry; u_next := u_next u |}.
Proof.
  intros (Hl & Hn & Hk & Hp) Hy Hyl Hle Hb. unfold UInv. cbn [u_parents u_next].
  rewrite set_nth_length. split; [assumption|]. split; [assumption|]. split; [assumption|].
  intros x Hx. destruct (Nat.eq_dec x y) as [->|Hxy].
  - exists ry. split; [apply nth_error_set_nth_eq; lia|].
    destruct Hb as [->|Hb]; [left; reflexivity|]. destruct (Nat.eq_dec ry y); [left; assumption|right; lia].
  - destruct (Hp x Hx) as (px & Hpx & Hc). exists px. split; [|exact Hc].
    rewrite nth_error_set_nth_neq by exact Hxy. exact Hpx.
Qed.

(* path compression: same roots, invariant kept, never panics *)
Lemma compress_spec n k : forall m u c root,
  UInv n k u -> 2 * n - 1 - c <= m -> c < 2 * n - 1 -> reaches (u_parents u) c root ->
  forall fuel, m < fuel ->
  exists u', u_compress fuel u c root = Ok u' /\ UInv n k u'
    /\ (forall x r, reaches (u_parents u) x r -> reaches (u_parents u') x r).
Proof.
  induction m as [|m IH]; intros u c root HI Hm Hc Hr fuel Hf; [lia|].
  destruct fuel as [|f]; [lia|]. cbn [u_compress]. unfold u_parent, vget.
  destruct (@uinv_lookup n k u HI c Hc) as (px & Hpx & Hcase). rewrite Hpx. cbn [bind].
  destruct (Nat.eqb_spec px c) as [->|Hne].
  - exists u. split; [reflexivity|]. split; [exact HI|]. auto.
  - destruct Hcase as [->|[H1 H2]]; [contradiction|].
    pose proof HI as (Hl & Hn & Hk & _).
    unfold vset. destruct (Nat.ltb_spec c (length (u_parents u))); [|lia]. cbn [bind].
    destruct (@root_exists n k u HI (2 * n - 1 - c) c ltac:(lia) Hc) as (r0 & Hr0 & B1 & B2 & B3 & _).
    assert (r0 = root) by (eapply reaches_det; eassumption). subst r0.
    set (u1 := {| u_parents := set_nth (u_parents u) c root; u_next := u_next u |}).
    assert (HI1 : UInv n k u1) by (apply redirect_inv; assumption).
    assert (Hpres : forall x r, reaches (u_parents u) x r -> reaches (u_parents u1) x r).
    { intros x r Hx. apply reaches_redirect; [exact Hr|lia|exact Hx]. }
    (* px still reaches root in u1 *)
    assert (Hpxr : reaches (u_parents u1) px root).
    { apply Hpres. inversion Hr as [? Hrr|? px' ? Hx' Hne' Hr']; subst; [congruence|].
      rewrite Hpx in Hx'. inversion Hx'; subst. exact Hr'. }
    destruct (IH u1 px root HI1 ltac:(lia) ltac:(lia) Hpxr f ltac:(lia)) as (u' & Hc' & HI' & Hp').
    exists u'. split; [exact Hc'|]. split; [exact HI'|]. intros x r Hx. apply Hp'. apply Hpres. exact Hx.
Qed.

(* find: returns the root, keeps every root, keeps the invariant *)
Theorem find_spec n k u c : UInv n k u -> c < 2 * n - 1 ->
  exists r u', u_find u c = Ok (r, u') /\ reaches (u_parents u) c r /\ UInv n k u'
    /\ c <= r /\ r < 2 * n - 1 /\ (r = c \/ r < n + k)
    /\ (forall x rx, reaches (u_parents u) x rx -> reaches (u_parents u') x rx).
Proof.
  intros HI Hc. pose proof HI as (Hl & Hn & Hk & _).
  destruct (@root_exists n k u HI (2 * n - 1 - c) c ltac:(lia) Hc) as (r & Hr & B1 & B2 & B3 & Hfuel).
  unfold u_find, u_fuel. rewrite Hfuel by lia. cbn [bind].
  destruct (@compress_spec n k (2 * n - 1 - c) u c r HI ltac:(lia) Hc Hr (S (length (u_parents u))) ltac:(lia))
    as (u' & Hc' & HI' & Hp').
  rewrite Hc'. cbn [bind]. exists r, u'.
  split; [reflexivity|]. split; [exact Hr|]. split; [exact HI'|]. split; [exact B1|]. split; [exact B2|]. split; [exact B3|exact Hp'].
Qed.

(* union of two distinct roots below n+k creates the label n+k *)
Theorem union_spec n k u r1 r2 : UInv n k u -> S (n + k) <= 2 * n - 1 ->
  r1 < n + k -> r2 < n + k -> r1 <> r2 ->
  nth_error (u_parents u) r1 = Some r1 -> nth_error (u_parents u) r2 = Some r2 ->
  exists u', u_union u r1 r2 = Ok u' /\ UInv n (S k) u'
    /\ (forall x r, reaches (u_parents u) x r ->
          reaches (u_parents u') x (if (r =? r1) || (r =? r2) then n + k else r)).
Proof.
  intros HI Hroom H1 H2 Hne R1 R2. pose proof HI as (Hl & Hn & Hk & Hp).
  destruct (@find_spec n k u r1 HI ltac:(lia)) as (a & u1 & F1 & Ra & HI1 & _ & _ & _ & P1).
  assert (a = r1) by (eapply reaches_det; [exact Ra|constructor; exact R1]). subst a.
  destruct (@find_spec n k u1 r2 HI1 ltac:(lia)) as (b & u2 & F2 & Rb & HI2 & _ & _ & _ & P2).
  assert (b = r2) by (eapply reaches_det; [exact Rb|apply P1; constructor; exact R2]). subst b.
  unfold u_union. rewrite F1. cbn [bind]. rewrite F2. cbn [bind].
  destruct (Nat.eqb_spec r1 r2); [contradiction|].
  pose proof HI2 as (Hl2 & Hn2 & _ & Hp2).
  unfold assert_. destruct (Nat.ltb_spec (u_next u2) (length (u_parents u2))); [|lia]. cbn [bind].
  unfold vset. destruct (Nat.ltb_spec r1 (length (u_parents u2))); [|lia]. cbn [bind].
  rewrite set_nth_length. destruct (Nat.ltb_spec r2 (length (u_parents u2))); [|lia]. cbn [bind].
  eexists. split; [reflexivity|]. rewrite Hn2.
  set (P2' := u_parents u2). set (nk := n + k).
  assert (Rr1 : nth_error P2' r1 = Some r1) by (eapply reaches_root; apply P2; apply P1; constructor; exact R1).
  assert (Rr2 : nth_error P2' r2 = Some r2) by (eapply reaches_root; apply P2; apply P1; constructor; exact R2).
  assert (Rnk : nth_error P2' nk = Some nk).
  { destruct (Hp2 nk ltac:(unfold nk; lia)) as (px & Hpx & [->|[C1 C2]]); [exact Hpx|unfold nk in *; lia]. }
  assert (HlP : length P2' = 2 * n - 1) by exact Hl2.
  assert (Hnk : nk = n + k) by reflexivity.
  split.
  - unfold UInv. cbn [u_parents u_next]. rewrite !set_nth_length. fold P2'.
    split; [exact HlP|]. split; [lia|]. split; [lia|].
    intros x Hx. destruct (Nat.eq_dec x r2) as [->|Hx2].
    + exists nk. split; [apply nth_error_set_nth_eq; rewrite set_nth_length; lia|]. right. unfold nk. lia.
    + rewrite nth_error_set_nth_neq by exact Hx2. destruct (Nat.eq_dec x r1) as [->|Hx1].
      * exists nk. split; [apply nth_error_set_nth_eq; lia|]. right. unfold nk. lia.
      * rewrite nth_error_set_nth_neq by exact Hx1. destruct (Hp2 x Hx) as (px & Hpx & Hc).
        exists px. split; [exact Hpx|]. destruct Hc as [->|[C1 C2]]; [left; reflexivity|right; lia].
  - intros x r Hx. apply P1 in Hx. apply P2 in Hx. cbn [u_parents]. fold P2'. fold P2' in Hx.
    induction Hx as [r Hr|x px r Hx Hnx Hr IH].
    + destruct (Nat.eqb_spec r r1) as [->|Hq1]; cbn [orb].
      * apply r_step with nk; [rewrite nth_error_set_nth_neq by auto; apply nth_error_set_nth_eq; lia|unfold nk; lia|].
        constructor. rewrite !nth_error_set_nth_neq by (unfold nk; lia). exact Rnk.
      * destruct (Nat.eqb_spec r r2) as [->|Hq2].
        -- apply r_step with nk; [apply nth_error_set_nth_eq; rewrite set_nth_length; lia|unfold nk; lia|].
           constructor. rewrite !nth_error_set_nth_neq by (unfold nk; lia). exact Rnk.
        -- constructor. rewrite !nth_error_set_nth_neq by auto. exact Hr.
    + assert (x <> r1) by (intros ->; congruence). assert (x <> r2) by (intros ->; congruence).
      apply r_step with px; [rewrite !nth_error_set_nth_neq by auto; exact Hx|exact Hnx|exact IH].
Qed.
