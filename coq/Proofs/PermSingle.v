(* C11 for Method::Single, every entry point, ties included: renumbering the
   observations renumbers the hierarchy.  Consequence of the cut theorems
   (MstCuts.v, SingleCuts.v): at every threshold the partition cut from the
   returned dendrogram is the set of components of the threshold graph, and a
   consistent permutation of rows and columns is an isomorphism of those
   graphs. *)
Require Import KV.Model.Prelude KV.Model.Condensed KV.Model.Dendrogram KV.Model.Methods KV.Model.State
  KV.Model.Primitive KV.Model.Mst KV.Model.Chain KV.Model.Generic
  KV.Proofs.CondensedIdx KV.Proofs.PrimitiveGreedy KV.Proofs.UpdateSpec KV.Proofs.SortProofs KV.Proofs.RelabelWF KV.Proofs.PrimThreshold KV.Proofs.MstPrim KV.Proofs.MstCuts
  KV.Proofs.CriteriaRun KV.Proofs.SingleCuts.
From Coq Require Import Relations.

Set Implicit Arguments.

Section PermGraph.
Variable T : Type.
Variable ltb : T -> T -> bool.
Variables d0 d0' : nat -> nat -> T.
Variable V : list nat.
Variable pi : nat -> nat.
Hypothesis pi_in : forall x, In x V -> In (pi x) V.
Hypothesis pi_inj : forall x y, In x V -> In y V -> pi x = pi y -> x = y.
Hypothesis pi_surj : forall y, In y V -> exists x, In x V /\ pi x = y.
Hypothesis cells : forall x y, In x V -> In y V -> d0' x y = d0 (pi x) (pi y).

Lemma conn_inV t a c : conn ltb d0 V t a c -> a = c \/ (In a V /\ In c V).
Proof.
  induction 1 as [a b (Ha & Hb & _)| | a b _ IH | a b c _ IH1 _ IH2].
  - right. split; assumption.
  - left. reflexivity.
  - destruct IH as [->|[H1 H2]]; [left; reflexivity|right; split; assumption].
  - destruct IH1 as [->|[H1 H2]]; [exact IH2|]. destruct IH2 as [<-|[H3 H4]]; [right; split; assumption|right; split; assumption].
Qed.

Lemma conn_perm t x y : In x V -> In y V ->
  (conn ltb d0' V t x y <-> conn ltb d0 V t (pi x) (pi y)).
Proof.
  intros Hx Hy. split.
  - clear Hx Hy. induction 1 as [a b (Ha & Hb & Hle)| | |].
    + apply rst_step. split; [apply pi_in; exact Ha|]. split; [apply pi_in; exact Hb|]. rewrite <- (@cells _ _ Ha Hb). exact Hle.
    + apply rst_refl.
    + apply rst_sym. assumption.
    + eapply rst_trans; eassumption.
  - intros H. remember (pi x) as a eqn:Ea. remember (pi y) as b eqn:Eb.
    revert x y Hx Hy Ea Eb. induction H as [a b (Ha & Hb & Hle)| a | a b _ IH | a c b H1 IH1 H2 IH2]; intros x y Hx Hy Ea Eb.
    + apply rst_step. split; [exact Hx|]. split; [exact Hy|]. rewrite (@cells _ _ Hx Hy), <- Ea, <- Eb. exact Hle.
    + assert (x = y) by (apply pi_inj; [exact Hx|exact Hy|congruence]). subst y. apply rst_refl.
    + apply rst_sym. exact (IH y x Hy Hx Eb Ea).
    + destruct (conn_inV H1) as [->|[_ Hc]].
      * exact (IH2 x y Hx Hy Ea Eb).
      * destruct (@pi_surj _ Hc) as (z & Hz & Ez).
        eapply rst_trans; [exact (IH1 x z Hx Hz Ea (eq_sym Ez))|exact (IH2 z y Hz Hy (eq_sym Ez) Eb)].
Qed.

End PermGraph.

(* what the cut theorems give for a returned dendrogram *)
Definition cutprop {T} (K : kops T) (d : dend T) (M0 : cmat T) : Prop :=
  forall t : T, exists j, j <= m_obs M0 - 1 /\ cut_at K t j (heights d)
    /\ forall x y, x < m_obs M0 -> y < m_obs M0 ->
        (labi (m_obs M0) (d_steps d) j x = labi (m_obs M0) (d_steps d) j y
         <-> conn (k_ltb K) (cell_or (k_inf K) M0) (seq 0 (m_obs M0)) t x y).

Theorem cuts_perm {T} (K : kops T) (d d' : dend T) (M0 M0' : cmat T) (pi : nat -> nat) :
  cutprop K d M0 -> cutprop K d' M0' -> m_obs M0' = m_obs M0 ->
  (forall x, x < m_obs M0 -> pi x < m_obs M0) ->
  (forall x y, x < m_obs M0 -> y < m_obs M0 -> pi x = pi y -> x = y) ->
  (forall y, y < m_obs M0 -> exists x, x < m_obs M0 /\ pi x = y) ->
  (forall x y, x < m_obs M0 -> y < m_obs M0 -> cell_or (k_inf K) M0' x y = cell_or (k_inf K) M0 (pi x) (pi y)) ->
  forall t : T, exists j j', cut_at K t j (heights d) /\ cut_at K t j' (heights d')
    /\ forall x y, x < m_obs M0 -> y < m_obs M0 ->
        (labi (m_obs M0) (d_steps d') j' x = labi (m_obs M0) (d_steps d') j' y
         <-> labi (m_obs M0) (d_steps d) j (pi x) = labi (m_obs M0) (d_steps d) j (pi y)).
Proof.
  intros HC HC' Hobs Hin Hinj Hsurj Hcells t.
  destruct (HC t) as (j & _ & Hcut & Hp). destruct (HC' t) as (j' & _ & Hcut' & Hp'). rewrite Hobs in Hp'.
  exists j, j'. split; [exact Hcut|]. split; [exact Hcut'|].
  intros x y Hx Hy. rewrite (Hp' x y Hx Hy), (Hp (pi x) (pi y) (Hin x Hx) (Hin y Hy)).
  apply (@conn_perm T (k_ltb K) (cell_or (k_inf K) M0) (cell_or (k_inf K) M0') (seq 0 (m_obs M0)) pi).
  - intros z Hz. apply in_seq in Hz. apply in_seq. pose proof (Hin z ltac:(lia)). lia.
  - intros a b Ha Hb. apply in_seq in Ha. apply in_seq in Hb. apply Hinj; lia.
  - intros b Hb. apply in_seq in Hb. destruct (Hsurj b ltac:(lia)) as (a & Ha & E). exists a. split; [apply in_seq; lia|exact E].
  - intros a b Ha Hb. apply in_seq in Ha. apply in_seq in Hb. apply Hcells; lia.
  - apply in_seq. lia.
  - apply in_seq. lia.
Qed.

Section Runs.
Variable T : Type.
Variable F : fops T.
Variable p : profile.
Hypothesis ltb_irrefl : forall a, f_ltb F a a = false.
Hypothesis ltb_trans : forall a b c, f_ltb F a b = true -> f_ltb F b c = true -> f_ltb F a c = true.
Hypothesis ltb_negtrans : forall a b c, f_ltb F a b = false -> f_ltb F b c = false -> f_ltb F a c = false.
Hypothesis eqb_nlt : forall a b, f_eqb F a b = true -> f_ltb F b a = false.
Hypothesis eqb_refl : forall a, f_eqb F a a = true.

Notation K := (kops_of F Single).

(* every entry point run with Method::Single has the cut property *)
Lemma cutprop_of_run (a : Linkage.algo) s d (m : list T) n s' d' m' M0 :
  Linkage.run_with F p a Single s d m n = Ok (s', d', m') ->
  prologue p m n = Ok M0 -> 1 <= m_obs M0 ->
  Forall (fun v => f_ltb F v (f_inf F) = true) m ->
  Forall (fun v => f_ltb F v (f_inf F) = true) m ->
  cutprop K d' M0.
Proof.
  intros H HM0 Hn Hmax Hinf t.
  assert (Hmst : forall s d, mst_with K p s d m n = Ok (s', d', m') ->
            exists j, j <= m_obs M0 - 1 /\ cut_at K t j (heights d')
              /\ forall x y, x < m_obs M0 -> y < m_obs M0 ->
                  (labi (m_obs M0) (d_steps d') j x = labi (m_obs M0) (d_steps d') j y
                   <-> conn (k_ltb K) (cell_or (k_inf K) M0) (seq 0 (m_obs M0)) t x y)).
  { intros s0 d0 Hrun.
    assert (Hfin : forall x y, x <> y -> x < m_obs M0 -> y < m_obs M0 -> k_ltb K (dcell K M0 x y) (k_inf K) = true).
    { intros x y Hxy Hx Hy. destruct (PrimitiveWF.prologue_wf _ _ _ HM0) as [Hwf Hdata].
      destruct (@LWInvariant.wcell_some T p M0 x y Hwf Hxy Hx Hy) as (v & Hv).
      unfold dcell. rewrite Hv. cbn [kops_of k_ltb k_inf]. rewrite Forall_forall in Hinf. apply Hinf.
      rewrite <- Hdata. unfold wcell, mcell in Hv. eapply nth_error_In. exact Hv. }
    destruct (@mst_cuts_all T K p ltb_irrefl ltb_trans ltb_negtrans eqb_nlt _ _ _ _ _ _ _ M0 Hrun HM0 Hfin t) as (j & Hj & Hcut & Hp).
    exists j. split; [exact Hj|]. split; [exact Hcut|].
    assert (EV : 0 :: seq 1 (m_obs M0 - 1) = seq 0 (m_obs M0)) by (destruct (m_obs M0); [lia|cbn; rewrite Nat.sub_0_r; reflexivity]).
    rewrite EV in Hp. exact Hp. }
  destruct a; cbn [Linkage.run_with Linkage.linkage_with] in H.
  - exact (Hmst _ _ H).
  - exact (Hmst _ _ H).
  - exact (@nnchain_single_cuts_all T F p ltb_irrefl ltb_trans ltb_negtrans eqb_nlt _ _ _ _ _ _ _ M0 H HM0 Hn t).
  - exact (@generic_single_cuts_all T F p ltb_irrefl ltb_trans ltb_negtrans eqb_nlt eqb_refl _ _ _ _ _ _ _ M0 Hmax H HM0 Hn t).
  - exact (@primitive_single_cuts_all T F p ltb_irrefl ltb_trans ltb_negtrans eqb_nlt _ _ _ _ _ _ _ M0 H HM0 Hn t).
Qed.

(* renumbering the observations: at every threshold the two returned
   dendrograms cut into corresponding partitions - any two entry points, ties
   included *)
Theorem single_perm_invariant (a a' : Linkage.algo) (pi : nat -> nat)
  s1 d1 s2 d2 (m m' : list T) n sr dr mr sr' dr' mr' M0 M0' :
  Linkage.run_with F p a Single s1 d1 m n = Ok (sr, dr, mr) ->
  Linkage.run_with F p a' Single s2 d2 m' n = Ok (sr', dr', mr') ->
  prologue p m n = Ok M0 -> prologue p m' n = Ok M0' -> m_obs M0' = m_obs M0 -> 1 <= m_obs M0 ->
  Forall (fun v => f_ltb F v (f_inf F) = true) m -> Forall (fun v => f_ltb F v (f_inf F) = true) m ->
  Forall (fun v => f_ltb F v (f_inf F) = true) m' -> Forall (fun v => f_ltb F v (f_inf F) = true) m' ->
  (forall x, x < m_obs M0 -> pi x < m_obs M0) ->
  (forall x y, x < m_obs M0 -> y < m_obs M0 -> pi x = pi y -> x = y) ->
  (forall y, y < m_obs M0 -> exists x, x < m_obs M0 /\ pi x = y) ->
  (forall x y, x < m_obs M0 -> y < m_obs M0 -> cell_or (f_inf F) M0' x y = cell_or (f_inf F) M0 (pi x) (pi y)) ->
  forall t : T, exists j j', cut_at K t j (heights dr) /\ cut_at K t j' (heights dr')
    /\ forall x y, x < m_obs M0 -> y < m_obs M0 ->
        (labi (m_obs M0) (d_steps dr') j' x = labi (m_obs M0) (d_steps dr') j' y
         <-> labi (m_obs M0) (d_steps dr) j (pi x) = labi (m_obs M0) (d_steps dr) j (pi y)).
Proof.
  intros H H' HM0 HM0' Hobs Hn Hmax Hinf Hmax' Hinf' Hin Hinj Hsurj Hcells.
  apply (@cuts_perm T K dr dr' M0 M0' pi
           (@cutprop_of_run a s1 d1 m n sr dr mr M0 H HM0 Hn Hmax Hinf)
           (@cutprop_of_run a' s2 d2 m' n sr' dr' mr' M0' H' HM0' ltac:(lia) Hmax' Hinf') Hobs Hin Hinj Hsurj Hcells).
Qed.

End Runs.
