(* Instances of the minimum-spanning-tree theorem (MstWeightsRun.v).
   Over the rationals the order-theoretic minimality is minimal total weight
   (DominatedSum.v): the heights returned by primitive / nnchain with
   Method::Single sum to no more than the weights of any spanning tree. *)
Require Import KV.Model.Prelude KV.Model.Condensed KV.Model.Dendrogram KV.Model.Methods KV.Model.State
  KV.Model.Primitive KV.Model.Chain
  KV.Proofs.SortProofs KV.Proofs.Criteria KV.Proofs.CriteriaRun KV.Proofs.Shape KV.Proofs.SpanningTrees KV.Proofs.MstWeights KV.Proofs.MstWeightsRun
  KV.Proofs.DominatedSum.
From Coq Require Import QArith Permutation.

Set Implicit Arguments.

Lemma count_le_cnt (t : Q) (l : list Q) : count_le (f_ltb QF) t l = cnt t l.
Proof.
  unfold count_le, cnt. f_equal. apply filter_ext. intros v. cbn [QF f_ltb]. apply negb_involutive.
Qed.

Lemma min_total_of_mst_weights (d0 : nat -> nat -> Q) (n : nat) (hs : list Q) :
  mst_weights (f_ltb QF) d0 n hs ->
  exists E, spanning (seq 0 n) E /\ Permutation hs (map (wt d0) E)
    /\ forall E', spanning (seq 0 n) E' -> (Qsum hs <= Qsum (map (wt d0) E'))%Q.
Proof.
  intros (E & Hsp & Hperm & Hmin). exists E. split; [exact Hsp|]. split; [exact Hperm|].
  intros E' HE'.
  assert (L1 : length hs = length E) by (rewrite (Permutation_length Hperm), map_length; reflexivity).
  assert (L2 : length E = length E') by (destruct Hsp as [H1 _], HE' as [H2 _]; lia).
  apply (@dominated_sum (length E) hs (map (wt d0) E')); [exact L1|rewrite map_length; symmetry; exact L2|].
  intros t _. rewrite <- !count_le_cnt. exact (Hmin E' HE' t).
Qed.

Section QRuns.
Variable p : profile.
Variable rt : Q -> Q.
Notation F := (QFr rt).
Notation K := (kops_of F Single).

Theorem primitive_single_min_total_Q s d (m : list Q) n s' d' m' M0 :
  primitive_with K p Single s d m n = Ok (s', d', m') -> prologue p m n = Ok M0 -> (1 <= m_obs M0)%nat ->
  exists E, spanning (seq 0 (m_obs M0)) E /\ Permutation (heights d') (map (wt (cell_or 0%Q M0)) E)
    /\ forall E', spanning (seq 0 (m_obs M0)) E' -> (Qsum (heights d') <= Qsum (map (wt (cell_or 0%Q M0)) E'))%Q.
Proof.
  intros H HM0 Hn. apply min_total_of_mst_weights.
  exact (@primitive_weights_mst Q F p qlt_irrefl qlt_trans qlt_negtrans s d m n s' d' m' M0 H HM0 Hn).
Qed.

Theorem nnchain_single_min_total_Q s d (m : list Q) n s' d' m' M0 :
  nnchain_with K p Single s d m n = Ok (s', d', m') -> prologue p m n = Ok M0 -> (1 <= m_obs M0)%nat ->
  exists E, spanning (seq 0 (m_obs M0)) E /\ Permutation (heights d') (map (wt (cell_or 0%Q M0)) E)
    /\ forall E', spanning (seq 0 (m_obs M0)) E' -> (Qsum (heights d') <= Qsum (map (wt (cell_or 0%Q M0)) E'))%Q.
Proof.
  intros H HM0 Hn. apply min_total_of_mst_weights.
  exact (@nnchain_weights_mst Q F p qlt_irrefl qlt_trans qlt_negtrans s d m n s' d' m' M0 H HM0 Hn).
Qed.

End QRuns.
