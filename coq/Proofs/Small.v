(* Small facts shared by several properties: behaviour for n <= 1, the
   dispatch of linkage. *)
Require Import KV.Model.Prelude KV.Model.Condensed KV.Model.Active KV.Model.Heap
  KV.Model.UnionFind KV.Model.Dendrogram KV.Model.Methods KV.Model.State
  KV.Model.Primitive KV.Model.Mst KV.Model.Chain KV.Model.Generic KV.Model.Linkage.

Set Implicit Arguments.

Section Small.
Variable T : Type.
Variable F : fops T.
Variable p : profile.

Lemma prologue_small (n : N) : (n <= 1)%N -> prologue p (@nil T) n = Ok {| m_data := []; m_obs := 0 |}.
Proof.
  intros H. unfold prologue, shape_check. cbn [length N.of_nat N.eqb].
  destruct (N.leb_spec n 1); [|lia]. reflexivity.
Qed.

(* n = 0 and n = 1 (empty matrix): every `_with` entry point returns normally
   with the empty dendrogram (observation count 0), leaving the scratch state
   untouched, for every method, float type, profile and prior state. *)
Theorem empty_small (a : algo) (meth : method) (s : lstate T) (d : dend T) (n : N) :
  (n <= 1)%N ->
  run_with F p a meth s d [] n = Ok (s, {| d_steps := []; d_obs := 0 |}, []).
Proof.
  intros H.
  assert (P := prologue_small H).
  destruct a; cbn [run_with]; try (destruct meth); cbn [linkage_with chain_capable];
    unfold mst_with, nnchain_with, generic_with, primitive_with, square_all; cbn [map];
    rewrite P; reflexivity.
Qed.

Theorem empty_small_fresh (a : algo) (meth : method) (n : N) :
  (n <= 1)%N ->
  run_fresh F p a meth [] n = Ok (st_new T, {| d_steps := []; d_obs := 0 |}, []).
Proof.
  intros H. unfold run_fresh.
  assert (E : d_new_ok n = true).
  { unfold d_new_ok. apply N.leb_le. lia. }
  rewrite E. apply empty_small. exact H.
Qed.

(* linkage = mst for single, nnchain for the other four chain-capable methods,
   generic for centroid and median *)
Theorem linkage_dispatch (meth : method) (s : lstate T) (d : dend T) (m : list T) (n : N) :
  linkage_with F p meth s d m n =
  match meth with
  | Single => mst_with (kops_of F Single) p s d m n
  | Complete | Average | Weighted | Ward => nnchain_with (kops_of F meth) p meth s d m n
  | Centroid | Median => generic_with (kops_of F meth) p meth s d m n
  end.
Proof. destruct meth; reflexivity. Qed.

End Small.
