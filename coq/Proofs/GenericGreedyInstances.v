(* Instances of GenericGreedy.generic_greedy (C03 + C02 for generic_with):
   - single / complete over any carrier with a strict weak order and a
     reflexive `==` that implies "not greater";
   - all seven methods in exact rational arithmetic with the infinite sentinel
     (QInf.v).  Ward's rename branch below `a` is reducible only because the
     merged pair's dissimilarity bounds the two old cells - the popped pair
     is a global minimum (threaded through GenericGreedy.gen_update_lb). *)
Require Import KV.Model.Prelude KV.Model.Condensed KV.Model.Dendrogram KV.Model.Methods KV.Model.State KV.Model.Generic
  KV.Proofs.ShapeCheck KV.Proofs.RelabelWF KV.Proofs.PrimitiveGreedy KV.Proofs.PrimitiveWF KV.Proofs.UpdateSpec KV.Proofs.SortProofs KV.Proofs.LWInvariant
  KV.Proofs.Criteria KV.Proofs.CriteriaRun KV.Proofs.ChainInstances KV.Proofs.GenericInv KV.Proofs.GenericCriterion KV.Proofs.QInf
  KV.Proofs.GenericGreedy.
From Coq Require Import QArith Qabs Permutation Lqa.

Set Implicit Arguments.
Local Close Scope Q_scope.

Section Sel.
Variable T : Type.
Variable F : fops T.
Variable p : profile.
Hypothesis ltb_irrefl : forall a, f_ltb F a a = false.
Hypothesis ltb_trans : forall a b c, f_ltb F a b = true -> f_ltb F b c = true -> f_ltb F a c = true.
Hypothesis ltb_negtrans : forall a b c, f_ltb F a b = false -> f_ltb F b c = false -> f_ltb F a c = false.
Hypothesis eqb_refl : forall a, f_eqb F a a = true.
Hypothesis eqb_le : forall u v, f_eqb F u v = true -> f_ltb F v u = false.

Lemma sel_asym u v : f_ltb F u v = true -> f_ltb F v u = false.
Proof.
  intros H. destruct (f_ltb F v u) eqn:C; [|reflexivity].
  pose proof (@ltb_trans _ _ _ H C) as E. rewrite ltb_irrefl in E. discriminate.
Qed.

Definition sel_crit (meth : method) (M0 : cmat T) : mtree -> mtree -> T -> Prop :=
  match meth with
  | Complete => is_max_over (f_ltb F) (cell_or (f_inf F) M0)
  | _ => is_min_over (f_ltb F) (cell_or (f_inf F) M0)
  end.

Theorem generic_selection_greedy meth s d (m : list T) (n : N) s' d' m' M0 :
  meth = Single \/ meth = Complete ->
  Forall (fun v => f_ltb F v (f_inf F) = true) m ->
  generic_with (kops_of F meth) p meth s d m n = Ok (s', d', m') ->
  prologue p m n = Ok M0 ->
  exists raw,
    gtrace (kops_of F meth) (sel_crit meth M0) (seq 0 (m_obs M0)) Leaf raw
    /\ length raw = m_obs M0 - 1
    /\ Permutation (heights d') (map (@s_dis T) raw).
Proof.
  intros Hm Hall H HM0.
  assert (Hsq : square_all (kops_of F meth) m = m).
  { unfold square_all. destruct Hm as [-> | ->]; cbn [kops_of k_sq on_squares]; apply map_id. }
  assert (Hleaf : forall x y v, x <> y -> x < m_obs M0 -> y < m_obs M0 -> wcell M0 x y = Some v -> sel_crit meth M0 (Leaf x) (Leaf y) v).
  { intros x y v Hxy Hx Hy Hv.
    destruct Hm as [-> | ->]; cbn [sel_crit]; (split;
      [exists x, y; cbn [leaves]; split; [left; reflexivity|]; split; [left; reflexivity|]; unfold cell_or; rewrite Hv; reflexivity
      |intros x' y' [<-|[]] [<-|[]]; unfold cell_or; rewrite Hv; apply ltb_irrefl]). }
  destruct (@generic_greedy T (kops_of F meth) p meth ltb_irrefl ltb_trans ltb_negtrans eqb_refl) with
    (crit := sel_crit meth M0) (s := s) (d := d) (m := m) (n := n) (s' := s') (d' := d') (m' := m') (M0 := M0)
    as (raw & Hg & Hlen & Hperm & _).
  - intros va vb md sa sb sx Ha Hb _. destruct Hm as [-> | ->]; cbn [kops_of k_upd k_ltb k_inf] in *; cbn.
    + destruct (f_ltb F va vb); assumption.
    + destruct (f_ltb F vb va); assumption.
  - intros _ va vb md sa sb sx _ _ _. destruct Hm as [-> | ->]; cbn [kops_of k_upd k_ltb]; cbn.
    + destruct (f_ltb F va vb); [left|right]; apply ltb_irrefl.
    + destruct (f_ltb F vb va); [left|right]; apply ltb_irrefl.
  - intros Ht va vb md sa sb sx. destruct Hm as [-> | ->]; [discriminate|]. cbn [kops_of k_upd k_ltb]; cbn.
    destruct (f_ltb F vb va) eqn:C; [exact (@sel_asym _ _ C)|apply ltb_irrefl].
  - exact eqb_le.
  - destruct Hm as [-> | ->]; cbn [sel_crit]; [apply min_sym|apply max_sym]; apply cell_or_sym.
  - intros X A B va vb md Ha Hb _. destruct Hm as [-> | ->]; cbn [sel_crit kops_of k_upd] in *.
    + exact (@min_merge T (f_ltb F) ltb_trans ltb_negtrans _ X A B va vb Ha Hb).
    + exact (@max_merge T (f_ltb F) ltb_trans ltb_negtrans _ X A B va vb Ha Hb).
  - intros _ va vb md sa sb sa' sb' sx. destruct Hm as [-> | ->]; reflexivity.
  - rewrite Hsq. destruct Hm as [-> | ->]; exact Hall.
  - exact H.
  - rewrite Hsq. exact HM0.
  - exact Hleaf.
  - exists raw. split; [exact Hg|]. split; [exact Hlen|].
    destruct Hm as [-> | ->]; cbn [kops_of k_rt on_squares] in Hperm; rewrite map_id in Hperm; exact Hperm.
Qed.

End Sel.

(* ---- exact rationals with the infinite sentinel ---- *)
Lemma qi_eqb_le u v : qi_eqb u v = true -> qi_ltb v u = false.
Proof.
  destruct u as [x|], v as [y|]; cbn [qi_eqb qi_ltb]; try discriminate; try reflexivity.
  intros E. apply Qeq_bool_iff in E. apply qltb_false_iff. rewrite E. apply Qle_refl.
Qed.

Lemma qi_asym u v : qi_ltb u v = true -> qi_ltb v u = false.
Proof.
  intros H. destruct (qi_ltb v u) eqn:C; [|reflexivity].
  pose proof (@qi_trans _ _ _ H C) as E. rewrite qi_irrefl in E. discriminate.
Qed.

Section QIGreedy.
Variable p : profile.
Variable rt : Q -> Q.
Variable meth : method.

Notation KI := (kops_of (QI rt) meth).

Lemma ward_reducible_any va vb md sa sb sx : (0 < sa)%nat -> (0 < sb)%nat ->
  f_ltb QF va md = false -> f_ltb QF vb md = false ->
  f_ltb QF (upd_of QF Ward va vb md sa sb sx) va = false \/ f_ltb QF (upd_of QF Ward va vb md sa sb sx) vb = false.
Proof.
  intros Ha Hb Hma Hmb. destruct sx as [|sx'].
  - (* no third cluster size: the formula is the size-weighted mean *)
    apply qltb_false_iff in Hma, Hmb. rewrite !qltb_false_iff. cbn. fold (qn sa) (qn sb). change (inject_Z 0) with 0%Q.
    pose proof (qn_pos' Ha) as Pa. pose proof (qn_pos' Hb) as Pb.
    assert (Pab : (0 < qn sa + qn sb + 0)%Q) by lra.
    destruct (Qlt_le_dec vb va) as [Hlt|Hle].
    + right. apply Qle_shift_div_l; [exact Pab|]. nra.
    + left. apply Qle_shift_div_l; [exact Pab|]. nra.
  - apply ward_reducible; try assumption. lia.
Qed.

Lemma KI_rename_reducible : below_kind_of meth = BelowRename ->
  forall va vb md sa sb sx, (uses_sizes_ab meth = true -> 0 < sa /\ 0 < sb) ->
  k_ltb KI va md = false -> k_ltb KI vb md = false ->
  k_ltb KI (k_upd KI va vb md sa sb sx) va = false \/ k_ltb KI (k_upd KI va vb md sa sb sx) vb = false.
Proof.
  intros Hk va vb md sa sb sx Hs Hma Hmb. cbn [kops_of k_ltb k_upd QI f_ltb] in *.
  destruct meth; try discriminate.
  - cbn. destruct (qi_ltb va vb); [left|right]; apply qi_irrefl.
  - cbn. destruct (qi_ltb vb va); [left|right]; apply qi_irrefl.
  - destruct va as [a|]; [|left; reflexivity]. destruct vb as [b|]; [|right; destruct a; reflexivity].
    change (upd_of (QI rt) Average (Some a) (Some b) md sa sb sx) with (Some (upd_of QF Average a b 0%Q sa sb sx)).
    cbn [qi_ltb]. destruct (Hs eq_refl). apply average_reducible; assumption.
  - destruct va as [a|]; [|left; reflexivity]. destruct vb as [b|]; [|right; reflexivity].
    change (upd_of (QI rt) Weighted (Some a) (Some b) md sa sb sx) with (Some (upd_of QF Weighted a b 0%Q sa sb sx)).
    cbn [qi_ltb]. apply weighted_reducible.
  - destruct va as [a|]; [|left; reflexivity]. destruct vb as [b|]; [|right; reflexivity].
    destruct md as [c|]; [|discriminate].
    rewrite upd_QI. cbn [qi_ltb] in *. destruct (Hs eq_refl). apply ward_reducible_any; assumption.
Qed.

Lemma KI_untracked_grows : tracks_candidates meth = false ->
  forall va vb md sa sb sx, k_ltb KI (k_upd KI va vb md sa sb sx) vb = false.
Proof.
  intros Ht va vb md sa sb sx. destruct meth; try discriminate. cbn [kops_of k_ltb k_upd QI f_ltb]. cbn.
  destruct (qi_ltb vb va) eqn:C; [exact (@qi_asym _ _ C)|apply qi_irrefl].
Qed.

(* every merge of `generic`, whatever the method, is a global
   minimum of the closed-form criterion over all pairs of live clusters *)
Theorem generic_QI_greedy s d (mq : list Q) (n : N) s' d' m' M0 :
  generic_with KI p meth s d (map Some mq) n = Ok (s', d', m') ->
  prologue p (square_all KI (map Some mq)) n = Ok M0 ->
  exists raw,
    gtrace KI (critI meth M0) (seq 0 (m_obs M0)) Leaf raw
    /\ length raw = m_obs M0 - 1
    /\ Permutation (heights d') (map (k_rt KI) (map (@s_dis qi) raw))
    /\ (requires_sorting meth = false -> heights d' = map (k_rt KI) (map (@s_dis qi) raw)).
Proof.
  intros H HM0.
  apply (@generic_greedy qi KI p meth qi_irrefl qi_trans qi_negtrans qi_eqb_refl (@KI_upd_below rt meth)
           KI_rename_reducible KI_untracked_grows qi_eqb_le (critI meth M0)
           ltac:(intros A B v (q & -> & Hc); exists q; split; [reflexivity|apply crit_of_sym; exact Hc])
           ltac:(intros X A B va vb md (qa & -> & Ha) (qb & -> & Hb) (qm & -> & Hm);
                 cbn [kops_of k_upd]; rewrite upd_QI; eexists; split; [reflexivity|]; apply crit_of_merge; assumption)
           ltac:(intros E va vb md sa sb sa' sb' sx; cbn [kops_of k_upd]; destruct meth; try discriminate; reflexivity)
           s d (map Some mq) n s' d' m' M0 (squares_some rt meth mq) H HM0).
  intros x y v Hxy Hx Hy Hv.
  destruct (prologue_wf _ _ _ HM0) as [_ Hdata].
  assert (Hsome : exists q, v = Some q).
  { apply below_none. pose proof (squares_some rt meth mq) as Hall. rewrite Forall_forall in Hall.
    apply (Hall v). rewrite <- Hdata. unfold wcell, mcell in Hv. eapply nth_error_In. exact Hv. }
  destruct Hsome as (q & ->). exists q. split; [reflexivity|].
  apply crit_of_leaf; [exact Hxy|]. rewrite wcell_Mq, Hv. reflexivity.
Qed.

End QIGreedy.
