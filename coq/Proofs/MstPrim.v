(* C04 for mst_with (= linkage with the single method): the loop of
   src/spanning.rs is Prim's algorithm - every recorded step attaches an
   outside observation at the weight of a minimum edge crossing the cut between
   the tree built so far and the rest - and hence (PrimThreshold) the recorded
   pairs of weight <= t generate exactly the connected components of the
   threshold graph, for every t. *)
Require Import KV.Model.Prelude KV.Model.Condensed KV.Model.Active KV.Model.Heap
  KV.Model.UnionFind KV.Model.Dendrogram KV.Model.Methods KV.Model.State KV.Model.Mst
  KV.Proofs.ResetCanon KV.Proofs.ActiveRefine KV.Proofs.CondensedIdx KV.Proofs.SortProofs KV.Proofs.Monotone
  KV.Proofs.MstCost KV.Proofs.PrimitiveGreedy KV.Proofs.PrimitiveWF KV.Proofs.UpdateSpec KV.Proofs.PrimThreshold.
From Coq Require Import Permutation Sorted.

Set Implicit Arguments.

Section MstPrim.
Variable T : Type.
Variable K : kops T.
Variable p : profile.
Hypothesis ltb_irrefl : forall a, k_ltb K a a = false.
Hypothesis ltb_trans : forall a b c, k_ltb K a b = true -> k_ltb K b c = true -> k_ltb K a c = true.
Hypothesis ltb_negtrans : forall a b c, k_ltb K a b = false -> k_ltb K b c = false -> k_ltb K a c = false.

Variable M : cmat T.
Hypothesis Hwf : wf_mat M.

(* the input dissimilarity as a total symmetric function *)
Definition dcell (x y : nat) : T := match wcell M x y with Some v => v | None => k_inf K end.

Lemma dcell_sym x y : dcell x y = dcell y x.
Proof. unfold dcell, wcell. rewrite Nat.min_comm, Nat.max_comm. reflexivity. Qed.

(* every entry is strictly below the +infinity sentinel *)
Hypothesis below_inf : forall x y, x <> y -> x < m_obs M -> y < m_obs M -> k_ltb K (dcell x y) (k_inf K) = true.

Definition mn (v slot : T) : T := if k_ltb K v slot then v else slot.

Lemma mget_dcell r c : r < c -> c < m_obs M -> mget p M r c = Ok (dcell r c).
Proof.
  intros Hrc Hc. destruct (mget_cell p Hwf Hrc Hc) as (v & Hv & Hg). rewrite Hg.
  unfold dcell, wcell. rewrite Nat.min_l, Nat.max_r by lia. rewrite Hv. reflexivity.
Qed.

(* the scan: per-vertex minimum and running arg-minimum *)
Lemma scan_spec (r c : nat -> nat) (cl : nat) (xs : list nat) :
  (forall x, In x xs -> mget p M (r x) (c x) = Ok (dcell x cl)) -> NoDup xs ->
  forall mins mo md mins' mo' md',
  mfold (mst_scan K p M r c) xs (mins, mo, md) = Ok (mins', mo', md') ->
  (forall x, In x xs -> exists old, nth_error mins x = Some old /\ nth_error mins' x = Some (mn (dcell x cl) old))
  /\ (forall x, ~ In x xs -> nth_error mins' x = nth_error mins x)
  /\ (forall x old, In x xs -> nth_error mins x = Some old -> k_ltb K (mn (dcell x cl) old) md' = false)
  /\ k_ltb K md md' = false
  /\ ((mo' = mo /\ md' = md) \/ (In mo' xs /\ exists old, nth_error mins mo' = Some old /\ md' = mn (dcell mo' cl) old)).
Proof.
  intros Hget Hnd. induction xs as [|x xs IH]; intros mins mo md mins' mo' md' H; cbn [mfold] in H.
  - inversion H; subst. split; [intros x []|]. split; [reflexivity|]. split; [intros x old []|].
    split; [apply ltb_irrefl|left; split; reflexivity].
  - inversion Hnd as [|x0 xs0 Hnx Hnd']; subst.
    unfold mst_scan at 1 in H. unfold vget at 1 in H.
    destruct (nth_error mins x) as [slot|] eqn:Eslot; cbn [bind] in H; [|discriminate].
    rewrite (Hget x (or_introl eq_refl)) in H. cbn [bind] in H.
    fold (mn (dcell x cl) slot) in H. set (slot' := mn (dcell x cl) slot) in *.
    assert (Hxlen : x < length mins) by (apply nth_error_Some; congruence).
    set (mins1 := set_nth mins x slot') in *.
    destruct (k_ltb K slot' md) eqn:Cmp.
    + (* candidate improves *)
      destruct (IH (fun y Hy => Hget y (or_intror Hy)) Hnd' mins1 x slot' mins' mo' md' H) as (I1 & I2 & I3 & I4 & I5).
      split; [|split; [|split; [|split]]].
      * intros y [<-|Hy].
        -- exists slot. split; [exact Eslot|]. rewrite (I2 x Hnx). apply nth_error_set_nth_eq. exact Hxlen.
        -- destruct (I1 y Hy) as (old & Ho & Hn). exists old. split; [|exact Hn].
           rewrite <- Ho. symmetry. apply nth_error_set_nth_neq. intros ->. contradiction.
      * intros y Hy. rewrite I2 by (intros Hin; apply Hy; right; exact Hin).
        apply nth_error_set_nth_neq. intros ->. apply Hy. left. reflexivity.
      * intros y old [<-|Hy] Ho.
        -- rewrite Eslot in Ho. inversion Ho; subst old. exact I4.
        -- apply (I3 y old Hy). unfold mins1. rewrite nth_error_set_nth_neq by (intros ->; contradiction). exact Ho.
      * apply ltb_negtrans with slot'; [|exact I4].
        destruct (k_ltb K md slot') eqn:C2; [|reflexivity]. pose proof (@ltb_trans _ _ _ C2 Cmp) as C3. rewrite ltb_irrefl in C3. discriminate.
      * destruct I5 as [[-> ->]|(Hin & old & Ho & Hm)].
        -- right. split; [left; reflexivity|]. exists slot. split; [exact Eslot|reflexivity].
        -- right. split; [right; exact Hin|]. exists old. split; [|exact Hm].
           unfold mins1 in Ho. rewrite nth_error_set_nth_neq in Ho by (intros ->; contradiction). exact Ho.
    + destruct (IH (fun y Hy => Hget y (or_intror Hy)) Hnd' mins1 mo md mins' mo' md' H) as (I1 & I2 & I3 & I4 & I5).
      split; [|split; [|split; [|split]]].
      * intros y [<-|Hy].
        -- exists slot. split; [exact Eslot|]. rewrite (I2 x Hnx). apply nth_error_set_nth_eq. exact Hxlen.
        -- destruct (I1 y Hy) as (old & Ho & Hn). exists old. split; [|exact Hn].
           rewrite <- Ho. symmetry. apply nth_error_set_nth_neq. intros ->. contradiction.
      * intros y Hy. rewrite I2 by (intros Hin; apply Hy; right; exact Hin).
        apply nth_error_set_nth_neq. intros ->. apply Hy. left. reflexivity.
      * intros y old [<-|Hy] Ho.
        -- rewrite Eslot in Ho. inversion Ho; subst old. exact (@ltb_negtrans _ _ _ Cmp I4).
        -- apply (I3 y old Hy). unfold mins1. rewrite nth_error_set_nth_neq by (intros ->; contradiction). exact Ho.
      * exact I4.
      * destruct I5 as [[-> ->]|(Hin & old & Ho & Hm)].
        -- left. split; reflexivity.
        -- right. split; [right; exact Hin|]. exists old. split; [|exact Hm].
           unfold mins1 in Ho. rewrite nth_error_set_nth_neq in Ho by (intros ->; contradiction). exact Ho.
Qed.

(* mx is the minimum of d(t,x) over the tree vertices t in `old` (or the
   sentinel when there are none yet) *)
Definition Imin (old : list nat) (x : nat) (mx : T) : Prop :=
  (old = [] /\ mx = k_inf K)
  \/ ((exists t, In t old /\ mx = dcell t x) /\ forall t, In t old -> k_ltb K (dcell t x) mx = false).

Lemma Imin_step old cl x mx : x <> cl -> x < m_obs M -> cl < m_obs M ->
  Imin old x mx -> Imin (cl :: old) x (mn (dcell x cl) mx).
Proof.
  intros Hne Hx Hcl [[-> ->]|[(t & Ht & ->) Hall]]; right; unfold mn.
  - rewrite (below_inf Hne Hx Hcl). split.
    + exists cl. split; [left; reflexivity|apply dcell_sym].
    + intros t [<-|[]]. rewrite dcell_sym. apply ltb_irrefl.
  - destruct (k_ltb K (dcell x cl) (dcell t x)) eqn:C; split.
    + exists cl. split; [left; reflexivity|apply dcell_sym].
    + intros t' [<-|Ht']; [rewrite dcell_sym; apply ltb_irrefl|].
      destruct (k_ltb K (dcell t' x) (dcell x cl)) eqn:C2; [|reflexivity].
      pose proof (@ltb_trans _ _ _ C2 C) as C3. rewrite (Hall t' Ht') in C3. discriminate.
    + exists t. split; [right; exact Ht|reflexivity].
    + intros t' [<-|Ht']; [rewrite dcell_sym; exact C|apply Hall; exact Ht'].
Qed.

Lemma st_merge_min (s s' : lstate T) (d d' : dend T) c1 c2 x :
  st_merge s d c1 c2 x = Ok (s', d') -> st_min s' = st_min s.
Proof.
  unfold st_merge. intros H.
  destruct (vget (st_sizes s) c1); cbn [bind] in H; try discriminate.
  destruct (vget (st_sizes s) c2); cbn [bind] in H; try discriminate.
  destruct (vset (st_sizes s) c2 (a + a0)); cbn [bind] in H; try discriminate.
  destruct (a_remove (st_active s) c1); cbn [bind] in H; try discriminate.
  destruct (vget a1 c2); cbn [bind] in H; try discriminate.
  destruct (d_push d (step_new c1 c2 x a3)); cbn [bind] in H; try discriminate.
  inversion H; subst. reflexivity.
Qed.

(* loop invariant *)
Definition QInv (s : lstate T) (cluster : nat) (L old : list nat) : Prop :=
  MInv s cluster L /\ length (a_next (st_active s)) = m_obs M
  /\ (forall t, In t old -> t < m_obs M)
  /\ (forall x, In x L -> exists mx, nth_error (st_min s) x = Some mx /\ Imin old x mx).

Theorem mst_iter_prim s d cluster i s' d' cluster' L old :
  QInv s cluster L old ->
  mst_iter K p M (s, d, cluster) i = Ok (s', d', cluster') ->
  exists v sz,
    In cluster' L
    /\ d_steps d' = d_steps d ++ [step_new cluster' cluster v sz]
    /\ (exists t, In t (cluster :: old) /\ v = dcell t cluster')
    /\ (forall t y, In t (cluster :: old) -> In y L -> k_ltb K (dcell t y) v = false)
    /\ QInv s' cluster' (without cluster' L) (cluster :: old).
Proof.
  intros ((HA & Hnc & Hc) & HN & Hold & Hmins) H.
  pose proof HA as (Hlen & Hl & Hdead).
  assert (HB : forall z, In z L -> a_start (st_active s) <= z /\ z < m_obs M).
  { intros z Hz. apply (linked_bounds Hl) in Hz. lia. }
  assert (Hstart : a_start (st_active s) <= length (a_next (st_active s))) by exact (proj1 (linked_bounds Hl)).
  assert (HndL : NoDup L).
  { pose proof (linked_sorted Hl) as Hsorted. clear - Hsorted.
    induction Hsorted as [|x t Hs IH Hall]; constructor; [|exact IH].
    intros Hin. rewrite Forall_forall in Hall. apply Hall in Hin. lia. }
  unfold mst_iter in H. rewrite (a_iter_spec HA) in H. cbn [bind] in H.
  rewrite (@a_range_spec _ _ Unb (Excl cluster) HA) in H by (cbn [lo_of hi_of]; lia).
  rewrite (@a_range_spec _ _ (Incl cluster) Unb HA) in H by (cbn [lo_of hi_of]; lia).
  cbn [bind lo_of hi_of] in H.
  set (xs1 := filter (in_range (a_start (st_active s)) cluster) L) in *.
  set (xs2 := filter (in_range cluster (length (a_next (st_active s)))) L) in *.
  assert (X1 : forall z, In z xs1 <-> In z L /\ z < cluster).
  { intros z. unfold xs1. rewrite filter_In. unfold in_range. split.
    - intros [Hz Hr]. apply andb_true_iff in Hr. destruct Hr as [_ Hr]. apply Nat.ltb_lt in Hr. auto.
    - intros [Hz Hr]. split; [exact Hz|]. apply andb_true_iff. split; [apply Nat.leb_le; apply HB; exact Hz|apply Nat.ltb_lt; exact Hr]. }
  assert (X2 : forall z, In z xs2 <-> In z L /\ cluster < z).
  { intros z. unfold xs2. rewrite filter_In. unfold in_range. split.
    - intros [Hz Hr]. apply andb_true_iff in Hr. destruct Hr as [Hr _]. apply Nat.leb_le in Hr.
      split; [exact Hz|]. assert (z <> cluster) by (intros ->; contradiction). lia.
    - intros [Hz Hr]. split; [exact Hz|]. apply andb_true_iff.
      split; [apply Nat.leb_le; lia|apply Nat.ltb_lt; rewrite HN; apply HB; exact Hz]. }
  destruct (hd_error L) as [l0|] eqn:Hhd; cbn [opt_unwrap bind] in H; [|discriminate].
  assert (Hl0 : In l0 L) by (destruct L; cbn in Hhd; [discriminate|inversion Hhd; left; reflexivity]).
  destruct (vget (st_min s) l0) as [md0| |] eqn:Em; cbn [bind] in H; try discriminate.
  destruct (mfold (mst_scan K p M (fun x => x) (fun _ => cluster)) xs1 (st_min s, l0, md0)) as [[[mins1 mo1] md1]| |] eqn:E1;
    cbn [bind] in H; try discriminate.
  destruct (mfold (mst_scan K p M (fun _ => cluster) (fun x => x)) xs2 (mins1, mo1, md1)) as [[[mins2 mo2] md2]| |] eqn:E2;
    cbn [bind] in H; try discriminate.
  destruct (st_merge (st_with_min s mins2) d mo2 cluster md2) as [[s2 d2]| |] eqn:E3; cbn [bind] in H; try discriminate.
  inversion H; subst s' d' cluster'. clear H.
  rewrite HN in Hc.
  (* the two scans *)
  destruct (@scan_spec (fun x => x) (fun _ => cluster) cluster xs1
              ltac:(intros x Hx; apply X1 in Hx; cbn beta; exact (mget_dcell (proj2 Hx) Hc))
              (NoDup_filter _ HndL) _ _ _ _ _ _ E1) as (A1 & A2 & A3 & A4 & A5).
  destruct (@scan_spec (fun _ => cluster) (fun x => x) cluster xs2
              ltac:(intros x Hx; apply X2 in Hx; cbn beta; rewrite (dcell_sym x cluster); exact (mget_dcell (proj2 Hx) (proj2 (HB x (proj1 Hx)))))
              (NoDup_filter _ HndL) _ _ _ _ _ _ E2) as (B1 & B2 & B3 & B4 & B5).
  (* new value of every live slot *)
  assert (Hdisj : forall z, In z xs1 -> ~ In z xs2) by (intros z H1 H2; apply X1 in H1; apply X2 in H2; lia).
  assert (Hnew : forall x, In x L -> exists mx, nth_error (st_min s) x = Some mx /\ Imin old x mx
                   /\ nth_error mins2 x = Some (mn (dcell x cluster) mx)).
  { intros x Hx. destruct (Hmins x Hx) as (mx & Hmx & HI). exists mx. split; [exact Hmx|]. split; [exact HI|].
    assert (x <> cluster) by (intros ->; contradiction).
    destruct (Nat.lt_trichotomy x cluster) as [Hlt|[?|Hgt]]; [|contradiction|].
    - assert (Hx1 : In x xs1) by (apply X1; auto).
      destruct (A1 x Hx1) as (o & Ho & Hn). rewrite Hmx in Ho. inversion Ho; subst o.
      rewrite (B2 x (Hdisj x Hx1)). exact Hn.
    - assert (Hx2 : In x xs2) by (apply X2; auto).
      destruct (B1 x Hx2) as (o & Ho & Hn).
      rewrite A2 in Ho by (intros Hin; exact (Hdisj x Hin Hx2)). rewrite Hmx in Ho. inversion Ho; subst o. exact Hn. }
  (* every new slot is not below the reported minimum *)
  assert (Hlow : forall x mx, In x L -> nth_error (st_min s) x = Some mx -> k_ltb K (mn (dcell x cluster) mx) md2 = false).
  { intros x mx Hx Hmx. assert (x <> cluster) by (intros ->; contradiction).
    destruct (Nat.lt_trichotomy x cluster) as [Hlt|[?|Hgt]]; [|contradiction|].
    - assert (Hx1 : In x xs1) by (apply X1; auto).
      exact (@ltb_negtrans _ _ _ (A3 x mx Hx1 Hmx) B4).
    - assert (Hx2 : In x xs2) by (apply X2; auto).
      apply (B3 x mx Hx2). rewrite A2 by (intros Hin; exact (Hdisj x Hin Hx2)). exact Hmx. }
  (* the reported pair is a live vertex with its new slot *)
  assert (Hwho : In mo2 L /\ exists mx, nth_error (st_min s) mo2 = Some mx /\ md2 = mn (dcell mo2 cluster) mx).
  { assert (Hcase1 : (mo1 = l0 /\ md1 = md0) \/ (In mo1 L /\ exists mx, nth_error (st_min s) mo1 = Some mx /\ md1 = mn (dcell mo1 cluster) mx)).
    { destruct A5 as [[-> ->]|(Hin & o & Ho & Hm)]; [left; split; reflexivity|].
      right. split; [apply X1 in Hin; exact (proj1 Hin)|]. exists o. split; assumption. }
    assert (Hcase2 : (mo2 = l0 /\ md2 = md0) \/ (In mo2 L /\ exists mx, nth_error (st_min s) mo2 = Some mx /\ md2 = mn (dcell mo2 cluster) mx)).
    { destruct B5 as [[-> ->]|(Hin & o & Ho & Hm)]; [exact Hcase1|].
      right. split; [apply X2 in Hin; exact (proj1 Hin)|]. exists o. split; [|exact Hm].
      rewrite A2 in Ho; [exact Ho|]. intros Hin1. exact (Hdisj _ Hin1 Hin). }
    destruct Hcase2 as [[-> ->]|Hc2]; [|exact Hc2].
    split; [exact Hl0|]. exists md0. unfold vget in Em.
    destruct (nth_error (st_min s) l0) as [q|] eqn:Eq; inversion Em; subst q. split; [reflexivity|].
    pose proof (Hlow l0 md0 Hl0 Eq) as Hq. unfold mn in *.
    destruct (k_ltb K (dcell l0 cluster) md0) eqn:C; [congruence|reflexivity]. }
  destruct Hwho as (Hmo & mxo & Hmxo & Hmd2).
  destruct (@st_merge_spec T _ _ _ _ _ _ _ E3) as (sz & Hrem & Hsteps). cbn [st_with_min st_active] in Hrem.
  destruct (@a_remove_spec _ _ mo2 HA ltac:(rewrite HN; exact (proj2 (HB mo2 Hmo)))) as (a' & Ha' & HA' & Hlen').
  rewrite Ha' in Hrem. inversion Hrem as [Eact].
  pose proof (st_merge_min _ _ _ _ _ E3) as Hmin2. cbn [st_with_min st_min] in Hmin2.
  exists md2, sz. split; [exact Hmo|]. split; [exact Hsteps|].
  assert (Hmo_ne : mo2 <> cluster) by (intros ->; contradiction).
  destruct (Hmins mo2 Hmo) as (mx' & Hmx' & HI'). rewrite Hmxo in Hmx'. inversion Hmx'; subst mx'.
  pose proof (Imin_step Hmo_ne (proj2 (HB mo2 Hmo)) Hc HI') as HIo. rewrite <- Hmd2 in HIo.
  split.
  { destruct HIo as [[Hnil _]|[Hex _]]; [discriminate|exact Hex]. }
  split.
  { intros t y Ht Hy. destruct (Hmins y Hy) as (my & Hmy & HIy).
    assert (Hy_ne : y <> cluster) by (intros ->; contradiction).
    pose proof (Imin_step Hy_ne (proj2 (HB y Hy)) Hc HIy) as [[Hnil _]|[_ Hall]]; [discriminate|].
    exact (@ltb_negtrans _ _ _ (Hall t Ht) (Hlow y my Hy Hmy)). }
  unfold QInv. split; [|split; [|split]].
  - unfold MInv. rewrite <- Eact. split; [exact HA'|]. split.
    + intros Hin. apply without_In in Hin. destruct Hin as [_ Hne]. apply Hne. reflexivity.
    + rewrite Hlen', HN. exact (proj2 (HB mo2 Hmo)).
  - rewrite <- Eact, Hlen'. exact HN.
  - intros t [<-|Ht]; [exact Hc|apply Hold; exact Ht].
  - intros x Hx. apply without_In in Hx. destruct Hx as [Hx Hxne].
    destruct (Hnew x Hx) as (mx & Hmx & HIx & Hn2). exists (mn (dcell x cluster) mx).
    split; [rewrite Hmin2; exact Hn2|].
    apply Imin_step; [intros ->; contradiction|exact (proj2 (HB x Hx))|exact Hc|exact HIx].
Qed.

(* the whole loop is a Prim trace *)
Theorem mst_fold_prim (idx : list nat) : forall s d cluster L old s' d' cluster',
  QInv s cluster L old -> NoDup L -> length idx = length L ->
  mfold (mst_iter K p M) idx (s, d, cluster) = Ok (s', d', cluster') ->
  exists news, d_steps d' = d_steps d ++ news /\ length news = length idx
    /\ ptrace (k_ltb K) dcell (cluster :: old) cluster L news.
Proof.
  induction idx as [|i idx IH]; intros s d cluster L old s' d' cluster' HQ Hnd Hlen H; cbn [mfold] in H.
  - inversion H; subst. exists []. rewrite app_nil_r. split; [reflexivity|]. split; [reflexivity|].
    destruct L; [constructor|discriminate].
  - bind_inv H. destruct a as [[s1 d1] c1].
    destruct (@mst_iter_prim _ _ _ _ _ _ _ _ _ HQ E) as (v & sz & Hin & Hsteps & Hatt & Hcut & HQ1).
    assert (Hnd1 : NoDup (without c1 L)) by (unfold without; apply NoDup_filter; exact Hnd).
    pose proof (without_length c1 Hnd Hin) as Hwl. cbn [length] in Hlen.
    destruct (IH _ _ _ _ _ _ _ _ HQ1 Hnd1 ltac:(lia) H) as (news & Hs' & Hln & Htr).
    exists (step_new c1 cluster v sz :: news).
    split; [rewrite Hs', Hsteps, <- app_assoc; reflexivity|].
    split; [cbn [length]; rewrite Hln; reflexivity|].
    apply p_cons; assumption.
Qed.

End MstPrim.

Lemma without0_seq k : without 0 (seq 0 k) = seq 1 (k - 1).
Proof.
  destruct k as [|k]; [reflexivity|]. cbn [seq]. unfold without at 1. cbn [filter Nat.eqb negb].
  rewrite Nat.sub_succ, Nat.sub_0_r. apply without_above. intros z Hz. apply in_seq in Hz. lia.
Qed.

(* mst_with: the raw steps are a Prim trace over the input matrix; the returned
   heights are a permutation of the raw weights (stable sort) *)
Section MstRun.
Variable T : Type.
Variable K : kops T.
Variable p : profile.
Hypothesis ltb_irrefl : forall a, k_ltb K a a = false.
Hypothesis ltb_trans : forall a b c, k_ltb K a b = true -> k_ltb K b c = true -> k_ltb K a c = true.
Hypothesis ltb_negtrans : forall a b c, k_ltb K a b = false -> k_ltb K b c = false -> k_ltb K a c = false.

Theorem mst_prim s d m n s' d' m' M0 :
  mst_with K p s d m n = Ok (s', d', m') ->
  prologue p m n = Ok M0 ->
  (forall x y, x <> y -> x < m_obs M0 -> y < m_obs M0 -> k_ltb K (dcell K M0 x y) (k_inf K) = true) ->
  exists raw,
    ptrace (k_ltb K) (dcell K M0) [0] 0 (seq 1 (m_obs M0 - 1)) raw
    /\ length raw = m_obs M0 - 1
    /\ Permutation (heights d') (map (@s_dis T) raw).
Proof.
  intros H HM0 Hinf. unfold mst_with in H. rewrite HM0 in H. cbn [bind] in H.
  destruct (Nat.eqb_spec (m_obs M0) 0) as [Hz|Hz].
  - inversion H; subst. exists []. rewrite Hz. cbn [Nat.sub seq]. split; [constructor|]. split; [reflexivity|].
    unfold heights. cbn [d_reset d_steps map]. constructor.
  - destruct (prologue_wf _ _ _ HM0) as [Hwf _].
    set (n0 := m_obs M0) in *.
    pose proof (@a_reset_inv (st_active s) n0) as HA0.
    assert (H0lt : 0 < length (a_next (a_reset (st_active s) n0))).
    { rewrite a_reset_canonical. cbn. rewrite map_length, seq_length. lia. }
    destruct (@a_remove_spec _ _ 0 HA0 H0lt) as (act & Hrem & HAr & Hlenr).
    cbn [st_reset st_active] in H. rewrite Hrem in H. cbn [bind] in H.
    bind_inv H. destruct a as [[s1 d1] c1]. bind_inv H. destruct a as [u d2]. inversion H; subst s' d' m'. clear H.
    pose proof (without0_seq n0) as Hseq.
    rewrite Hseq in HAr.
    assert (Hlen0 : length (a_next act) = n0).
    { rewrite Hlenr, a_reset_canonical. cbn. rewrite map_length, seq_length. reflexivity. }
    assert (HQ0 : QInv K M0 (st_with_active (st_reset K s n0) act) 0 (seq 1 (n0 - 1)) []).
    { unfold QInv, MInv. cbn [st_with_active st_active st_min st_reset].
      split; [split; [exact HAr|split; [intros Hin; apply in_seq in Hin; lia|lia]]|].
      split; [exact Hlen0|]. split; [intros t []|].
      intros x Hx. apply in_seq in Hx. exists (k_inf K). split; [|left; split; reflexivity].
      unfold clear_resize, vresize. rewrite firstn_nil. cbn [length app]. rewrite Nat.sub_0_r.
      clear - Hx. assert (Hx' : x < n0) by lia. revert Hx'. generalize n0. clear Hx.
      induction x as [|x IH]; intros k Hk; (destruct k as [|k]; [lia|]); cbn [repeat nth_error]; [reflexivity|apply IH; lia]. }
    destruct (@mst_fold_prim T K p ltb_irrefl ltb_trans ltb_negtrans M0 Hwf Hinf _ _ _ _ _ _ _ _ _ HQ0
                (seq_NoDup _ _) ltac:(rewrite !seq_length; reflexivity) E) as (news & Hs & Hln & Htr).
    cbn [d_reset d_steps app] in Hs.
    exists news. split; [exact Htr|]. split; [rewrite Hln, seq_length; reflexivity|].
    destruct (@relabel_heights T (k_ltb K) (k_eqb K) _ _ _ _ _ E0) as [_ (l & Hl0 & Hh)].
    destruct (@sort_steps_ok T (k_ltb K) (k_eqb K) (@gt_flip T K) _ _ Hl0) as [_ Hperm].
    rewrite Hh. rewrite Hs in Hperm. apply Permutation_map. apply Permutation_sym. exact Hperm.
Qed.

(* ... hence, for every threshold t, the recorded pairs of weight <= t generate
   exactly the connected components of the graph that joins two observations
   whose input dissimilarity is <= t *)
Theorem mst_threshold_components s d m n s' d' m' M0 :
  mst_with K p s d m n = Ok (s', d', m') ->
  prologue p m n = Ok M0 ->
  (forall x y, x <> y -> x < m_obs M0 -> y < m_obs M0 -> k_ltb K (dcell K M0 x y) (k_inf K) = true) ->
  exists raw,
    length raw = m_obs M0 - 1
    /\ Permutation (heights d') (map (@s_dis T) raw)
    /\ forall t x y, link (k_ltb K) t raw x y <-> conn (k_ltb K) (dcell K M0) (0 :: seq 1 (m_obs M0 - 1)) t x y.
Proof.
  intros H HM0 Hinf. destruct (@mst_prim _ _ _ _ _ _ _ _ H HM0 Hinf) as (raw & Htr & Hlen & Hperm).
  exists raw. split; [exact Hlen|]. split; [exact Hperm|].
  intros t x y. apply (threshold_components ltb_negtrans (dcell_sym K M0) t Htr).
Qed.

End MstRun.
