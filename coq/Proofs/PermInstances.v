(* Instances of PermPrimitive.primitive_perm_invariant:
   - the five arithmetic methods over any carrier whose + and x commute
     (IEEE: bit for bit) and whose `<` is transitive and irreflexive;
   - single / complete over a carrier whose order is total (two values neither
     of which is below the other are equal);
   - the arithmetic methods in exact rational arithmetic with the infinite
     sentinel. *)
Require Import KV.Model.Prelude KV.Model.Condensed KV.Model.Active KV.Model.Dendrogram KV.Model.Methods KV.Model.State
  KV.Model.Primitive
  KV.Proofs.ActiveRefine KV.Proofs.UpdateSpec KV.Proofs.SortProofs KV.Proofs.LWInvariant KV.Proofs.Symmetry
  KV.Proofs.Criteria KV.Proofs.CriteriaRun KV.Proofs.QInf KV.Proofs.AgreePG KV.Proofs.PermPrimitive.
From Coq Require Import QArith Permutation.

Set Implicit Arguments.
Local Close Scope Q_scope.

Lemma kops_sizes_irrelevant {T} (F : fops T) meth : uses_sizes_ab meth = false ->
  forall va vb md sa sb sa' sb' sx,
  k_upd (kops_of F meth) va vb md sa sb sx = k_upd (kops_of F meth) va vb md sa' sb' sx.
Proof. intros E va vb md sa sb sa' sb' sx. cbn [kops_of k_upd]. destruct meth; try discriminate; reflexivity. Qed.

Section Arith.
Variable T : Type.
Variable F : fops T.
Variable p : profile.
Hypothesis ltb_irrefl : forall a, f_ltb F a a = false.
Hypothesis ltb_trans : forall a b c, f_ltb F a b = true -> f_ltb F b c = true -> f_ltb F a c = true.
Hypothesis add_comm : forall x y, f_add F x y = f_add F y x.
Hypothesis mul_comm : forall x y, f_mul F x y = f_mul F y x.

Theorem arith_primitive_perm_invariant meth (pi : nat -> nat) s1 d1 s2 d2 m m' n sp dp mp sp' dp' mp' M0 M0' :
  meth = Average \/ meth = Weighted \/ meth = Ward \/ meth = Centroid \/ meth = Median ->
  prologue p (square_all (kops_of F meth) m) n = Ok M0 ->
  prologue p (square_all (kops_of F meth) m') n = Ok M0' ->
  m_obs M0' = m_obs M0 ->
  bij pi (seq 0 (m_obs M0)) (seq 0 (m_obs M0)) ->
  (forall x y, x < m_obs M0 -> y < m_obs M0 -> x <> y -> wcell M0' x y = wcell M0 (pi x) (pi y)) ->
  primitive_with (kops_of F meth) p meth s1 d1 m n = Ok (sp, dp, mp) ->
  primitive_with (kops_of F meth) p meth s2 d2 m' n = Ok (sp', dp', mp') ->
  tie_free_from (kops_of F meth) p meth 0 (m_obs M0 - 1) (st_reset (kops_of F meth) s1 (m_obs M0)) (d_reset d1 (m_obs M0)) M0 ->
  heights dp' = heights dp
  /\ exists tr' tr Lf' Lf memf' memf,
       mtrace (seq 0 (m_obs M0)) Leaf tr' Lf' memf' /\ mtrace (seq 0 (m_obs M0)) Leaf tr Lf memf
       /\ Forall2 (pair_corr pi) tr' tr /\ length tr = m_obs M0 - 1.
Proof.
  intros Hm. apply (@primitive_perm_invariant T (kops_of F meth) p meth ltb_irrefl ltb_trans (kops_sizes_irrelevant F meth)).
  intros va vb md sa sb sx. cbn [kops_of k_upd]. apply (@upd_symmetric T F add_comm mul_comm). exact Hm.
Qed.

End Arith.

Section Sel.
Variable T : Type.
Variable F : fops T.
Variable p : profile.
Hypothesis ltb_irrefl : forall a, f_ltb F a a = false.
Hypothesis ltb_trans : forall a b c, f_ltb F a b = true -> f_ltb F b c = true -> f_ltb F a c = true.
Hypothesis ltb_total : forall a b, f_ltb F a b = false -> f_ltb F b a = false -> a = b.

Lemma sel_upd_sym meth : meth = Single \/ meth = Complete ->
  forall va vb md sa sb sx, k_upd (kops_of F meth) va vb md sa sb sx = k_upd (kops_of F meth) vb va md sb sa sx.
Proof.
  intros Hm va vb md sa sb sx. cbn [kops_of k_upd].
  assert (Hasym : forall u v, f_ltb F u v = true -> f_ltb F v u = false).
  { intros u v H. destruct (f_ltb F v u) eqn:C; [|reflexivity].
    pose proof (@ltb_trans _ _ _ H C) as E. rewrite ltb_irrefl in E. discriminate. }
  destruct Hm as [-> | ->]; cbn.
  - destruct (f_ltb F va vb) eqn:C1.
    + rewrite (Hasym _ _ C1). reflexivity.
    + destruct (f_ltb F vb va) eqn:C2; [reflexivity|]. symmetry. exact (ltb_total _ _ C1 C2).
  - destruct (f_ltb F vb va) eqn:C1.
    + rewrite (Hasym _ _ C1). reflexivity.
    + destruct (f_ltb F va vb) eqn:C2; [reflexivity|]. exact (ltb_total _ _ C1 C2).
Qed.

Theorem selection_primitive_perm_invariant meth (pi : nat -> nat) s1 d1 s2 d2 m m' n sp dp mp sp' dp' mp' M0 M0' :
  meth = Single \/ meth = Complete ->
  prologue p (square_all (kops_of F meth) m) n = Ok M0 ->
  prologue p (square_all (kops_of F meth) m') n = Ok M0' ->
  m_obs M0' = m_obs M0 ->
  bij pi (seq 0 (m_obs M0)) (seq 0 (m_obs M0)) ->
  (forall x y, x < m_obs M0 -> y < m_obs M0 -> x <> y -> wcell M0' x y = wcell M0 (pi x) (pi y)) ->
  primitive_with (kops_of F meth) p meth s1 d1 m n = Ok (sp, dp, mp) ->
  primitive_with (kops_of F meth) p meth s2 d2 m' n = Ok (sp', dp', mp') ->
  tie_free_from (kops_of F meth) p meth 0 (m_obs M0 - 1) (st_reset (kops_of F meth) s1 (m_obs M0)) (d_reset d1 (m_obs M0)) M0 ->
  heights dp' = heights dp
  /\ exists tr' tr Lf' Lf memf' memf,
       mtrace (seq 0 (m_obs M0)) Leaf tr' Lf' memf' /\ mtrace (seq 0 (m_obs M0)) Leaf tr Lf memf
       /\ Forall2 (pair_corr pi) tr' tr /\ length tr = m_obs M0 - 1.
Proof.
  intros Hm. apply (@primitive_perm_invariant T (kops_of F meth) p meth ltb_irrefl ltb_trans (kops_sizes_irrelevant F meth)).
  exact (@sel_upd_sym meth Hm).
Qed.

End Sel.

(* exact rationals with the infinite sentinel *)
Lemma qi_add_comm rt x y : f_add (QI rt) x y = f_add (QI rt) y x.
Proof.
  destruct x as [[a b]|], y as [[c d]|]; cbn; try reflexivity. unfold Qplus. cbn [Qnum Qden].
  f_equal. f_equal; [apply Z.add_comm|apply Pos.mul_comm].
Qed.
Lemma qi_mul_comm rt x y : f_mul (QI rt) x y = f_mul (QI rt) y x.
Proof.
  destruct x as [[a b]|], y as [[c d]|]; cbn; try reflexivity. unfold Qmult. cbn [Qnum Qden].
  f_equal. f_equal; [apply Z.mul_comm|apply Pos.mul_comm].
Qed.

Theorem QI_primitive_perm_invariant (p : profile) (rt : Q -> Q) meth (pi : nat -> nat) s1 d1 s2 d2 m m' n sp dp mp sp' dp' mp' M0 M0' :
  meth = Average \/ meth = Weighted \/ meth = Ward \/ meth = Centroid \/ meth = Median ->
  prologue p (square_all (kops_of (QI rt) meth) m) n = Ok M0 ->
  prologue p (square_all (kops_of (QI rt) meth) m') n = Ok M0' ->
  m_obs M0' = m_obs M0 ->
  bij pi (seq 0 (m_obs M0)) (seq 0 (m_obs M0)) ->
  (forall x y, x < m_obs M0 -> y < m_obs M0 -> x <> y -> wcell M0' x y = wcell M0 (pi x) (pi y)) ->
  primitive_with (kops_of (QI rt) meth) p meth s1 d1 m n = Ok (sp, dp, mp) ->
  primitive_with (kops_of (QI rt) meth) p meth s2 d2 m' n = Ok (sp', dp', mp') ->
  tie_free_from (kops_of (QI rt) meth) p meth 0 (m_obs M0 - 1) (st_reset (kops_of (QI rt) meth) s1 (m_obs M0)) (d_reset d1 (m_obs M0)) M0 ->
  heights dp' = heights dp
  /\ exists tr' tr Lf' Lf memf' memf,
       mtrace (seq 0 (m_obs M0)) Leaf tr' Lf' memf' /\ mtrace (seq 0 (m_obs M0)) Leaf tr Lf memf
       /\ Forall2 (pair_corr pi) tr' tr /\ length tr = m_obs M0 - 1.
Proof.
  apply (@arith_primitive_perm_invariant qi (QI rt) p qi_irrefl qi_trans (qi_add_comm rt) (qi_mul_comm rt)).
Qed.
