(* C06 for Method::Single, all five entry points: whenever the heights returned
   by one of them are pairwise distinct (strictly increasing), every other entry
   point returns the same labelled dendrogram - the same labels and sizes in the
   same step order, heights equivalent position by position.

   Both results cut into the threshold components at every threshold (C04 cut
   theorems) and both have the minimum-spanning-tree weight counts (C04 weight
   theorems), so their sorted height lists are equivalent position by position;
   with distinct heights the cut positions are the prefix lengths, so all prefix
   partitions coincide, and a well-formed dendrogram is determined by its
   prefix partitions (DendUnique.v). *)
Require Import KV.Model.Prelude KV.Model.Condensed KV.Model.Dendrogram KV.Model.Methods KV.Model.State
  KV.Model.Primitive KV.Model.Mst KV.Model.Chain KV.Model.Generic KV.Model.Linkage
  KV.Proofs.CondensedIdx KV.Proofs.PrimitiveGreedy KV.Proofs.UpdateSpec KV.Proofs.SortProofs KV.Proofs.Monotone KV.Proofs.RelabelWF
  KV.Proofs.PrimThreshold KV.Proofs.MstPrim KV.Proofs.MstCuts KV.Proofs.MstWF KV.Proofs.PrimitiveWF KV.Proofs.Shape KV.Proofs.ShapeCheck
  KV.Proofs.CriteriaRun KV.Proofs.SingleCuts KV.Proofs.PermSingle KV.Proofs.SpanningTrees KV.Proofs.MstWeights KV.Proofs.MstWeightsRun
  KV.Proofs.DendUnique.
From Coq Require Import Relations Permutation Sorting.Sorted.

Set Implicit Arguments.

Section Counts.
Variable T : Type.
Variable ltb : T -> T -> bool.
Hypothesis ltb_irrefl : forall a, ltb a a = false.
Hypothesis ltb_negtrans : forall a b c, ltb a b = false -> ltb b c = false -> ltb a c = false.

Notation le := (fun a b : T => ltb b a = false).
Definition eqv (a b : T) : Prop := ltb a b = false /\ ltb b a = false.

Lemma count_pos t l : 0 < count_le ltb t l -> exists e, In e l /\ ltb t e = false.
Proof.
  unfold count_le. induction l as [|a l IH]; cbn [filter length]; [lia|].
  destruct (ltb t a) eqn:E; cbn [negb].
  - intros H. destruct (IH H) as (e & He & Hle). exists e. split; [right; exact He|exact Hle].
  - intros _. exists a. split; [left; reflexivity|exact E].
Qed.

Lemma count_cons t a l : count_le ltb t (a :: l) = (if ltb t a then 0 else 1) + count_le ltb t l.
Proof. unfold count_le. cbn [filter]. destruct (ltb t a); reflexivity. Qed.

Lemma eqv_le_iff a a' t : eqv a a' -> ltb t a = ltb t a'.
Proof.
  intros [H1 H2]. destruct (ltb t a) eqn:E1, (ltb t a') eqn:E2; try reflexivity.
  - (* t < a, not t < a' : a' <= t < a, but not a' < a *) pose proof (ltb_negtrans E2 H2). congruence.
  - pose proof (ltb_negtrans E1 H1). congruence.
Qed.

(* sorted lists with the same count function are equivalent position by position *)
Lemma sorted_counts_equiv : forall l l' : list T,
  StronglySorted le l -> StronglySorted le l' ->
  (forall t, count_le ltb t l = count_le ltb t l') -> Forall2 eqv l l'.
Proof.
  induction l as [|a r IH]; intros l' Hs Hs' Hc.
  - destruct l' as [|a' r']; [constructor|]. exfalso. pose proof (Hc a') as H. rewrite count_cons, ltb_irrefl in H.
    unfold count_le in H. cbn [filter length] in H. lia.
  - destruct l' as [|a' r'].
    { exfalso. pose proof (Hc a) as H. rewrite count_cons, ltb_irrefl in H. unfold count_le in H at 2. cbn [filter length] in H. lia. }
    inversion Hs as [|? ? Hsr Hall]; subst. inversion Hs' as [|? ? Hsr' Hall']; subst.
    assert (Haa' : eqv a a').
    { split.
      - (* a' <= a *)
        assert (H : 0 < count_le ltb a (a' :: r')) by (rewrite <- Hc, count_cons, ltb_irrefl; lia).
        destruct (count_pos _ _ H) as (e & [<-|He] & Hle); [exact Hle|].
        rewrite Forall_forall in Hall'. exact (ltb_negtrans Hle (Hall' e He)).
      - assert (H : 0 < count_le ltb a' (a :: r)) by (rewrite Hc, count_cons, ltb_irrefl; lia).
        destruct (count_pos _ _ H) as (e & [<-|He] & Hle); [exact Hle|].
        rewrite Forall_forall in Hall. exact (ltb_negtrans Hle (Hall e He)). }
    constructor; [exact Haa'|]. apply IH; [exact Hsr|exact Hsr'|].
    intros t. pose proof (Hc t) as H. rewrite !count_cons, (eqv_le_iff t Haa') in H. lia.
Qed.

End Counts.

Section AgreeSingle.
Variable T : Type.
Variable F : fops T.
Variable p : profile.
Hypothesis ltb_irrefl : forall a, f_ltb F a a = false.
Hypothesis ltb_trans : forall a b c, f_ltb F a b = true -> f_ltb F b c = true -> f_ltb F a c = true.
Hypothesis ltb_negtrans : forall a b c, f_ltb F a b = false -> f_ltb F b c = false -> f_ltb F a c = false.
Hypothesis eqb_nlt : forall a b, f_eqb F a b = true -> f_ltb F b a = false.
Hypothesis eqb_refl : forall a, f_eqb F a a = true.

Notation K := (kops_of F Single).
Notation ltb := (f_ltb F).

(* what every entry point run with Method::Single delivers *)
Record good (M0 : cmat T) (d' : dend T) : Prop := {
  g_wf : wf_dend (m_obs M0) (d_steps d');
  g_cut : cutprop K d' M0;
  g_mst : mst_weights ltb (cell_or (f_inf F) M0) (m_obs M0) (heights d');
  g_sorted : StronglySorted (fun a b => ltb b a = false) (heights d')
}.

Lemma strongly_of_sorted (d' : dend T) : Sorted (Monotone.le_t K) (heights d') ->
  StronglySorted (fun a b => ltb b a = false) (heights d').
Proof.
  intros Hs. apply Sorted_StronglySorted.
  - intros a b c H1 H2. exact (@ltb_negtrans _ _ _ H2 H1).
  - induction Hs as [|a l Hs IH Hd]; constructor; [exact IH|].
    destruct Hd; constructor. apply (@le_t_ge T K ltb_irrefl ltb_trans eqb_nlt). assumption.
Qed.

Lemma good_of_run (a : algo) s d (m : list T) n s' d' m' M0 : (n < two32)%N ->
  run_with F p a Single s d m n = Ok (s', d', m') ->
  prologue p m n = Ok M0 -> 1 <= m_obs M0 ->
  Forall (fun v => f_ltb F v (f_inf F) = true) m ->
  good M0 d'.
Proof.
  intros Hn32 H HM0 Hn Hfin.
  pose proof (@cutprop_of_run T F p ltb_irrefl ltb_trans ltb_negtrans eqb_nlt eqb_refl a s d m n s' d' m' M0 H HM0 Hn Hfin Hfin) as Hcut.
  destruct (@run_shape T F p a Single s d m n s' d' m' Hn32 H) as [Hobs _].
  destruct (@prologue_obs T p m n M0 HM0 Hn32) as [HobsM _].
  assert (Hfin' : forall x y, x <> y -> x < m_obs M0 -> y < m_obs M0 -> k_ltb K (dcell K M0 x y) (k_inf K) = true).
  { intros x y Hxy Hx Hy. destruct (PrimitiveWF.prologue_wf _ _ _ HM0) as [Hwf Hdata].
    destruct (@LWInvariant.wcell_some T p M0 x y Hwf Hxy Hx Hy) as (v & Hv).
    unfold dcell. rewrite Hv. cbn [kops_of k_ltb k_inf]. rewrite Forall_forall in Hfin. apply Hfin.
    rewrite <- Hdata. unfold wcell, mcell in Hv. eapply nth_error_In. exact Hv. }
  assert (Hmstcase : forall s0 d0, mst_with K p s0 d0 m n = Ok (s', d', m') -> good M0 d').
  { intros s0 d0 Hrun. constructor.
    - rewrite HobsM, <- Hobs. exact (@mst_wf T K p _ _ _ _ _ _ _ Hrun).
    - exact Hcut.
    - exact (@mst_weights_mst T K p ltb_irrefl ltb_trans ltb_negtrans _ _ _ _ _ _ _ M0 Hrun HM0 Hn Hfin').
    - apply strongly_of_sorted. exact (@mst_monotone T K p _ _ _ _ _ _ _ Hrun). }
  destruct a; cbn [run_with linkage_with] in H.
  - exact (Hmstcase _ _ H).
  - exact (Hmstcase _ _ H).
  - pose proof (@nnchain_single_trace T F p ltb_irrefl ltb_trans ltb_negtrans _ _ _ _ _ _ _ M0 H HM0 Hn) as Htr. constructor.
    + exact (proj1 (@wf_of_single_trace T F M0 d' Hn Htr)).
    + exact Hcut.
    + exact (@weights_of_single_trace T F ltb_negtrans M0 d' Hn Htr).
    + apply strongly_of_sorted. exact (@nnchain_monotone T K p (@rt_single T F) Single _ _ _ _ _ _ _ eq_refl H).
  - pose proof (@generic_single_trace T F p ltb_irrefl ltb_trans ltb_negtrans eqb_refl eqb_nlt _ _ _ _ _ _ _ M0 Hfin H HM0 Hn) as Htr. constructor.
    + exact (proj1 (@wf_of_single_trace T F M0 d' Hn Htr)).
    + exact Hcut.
    + exact (@weights_of_single_trace T F ltb_negtrans M0 d' Hn Htr).
    + apply strongly_of_sorted. exact (@generic_monotone T K p (@rt_single T F) Single _ _ _ _ _ _ _ eq_refl H).
  - pose proof (@primitive_single_trace T F p ltb_irrefl ltb_trans ltb_negtrans _ _ _ _ _ _ _ M0 H HM0 Hn) as Htr. constructor.
    + exact (proj1 (@wf_of_single_trace T F M0 d' Hn Htr)).
    + exact Hcut.
    + exact (@weights_of_single_trace T F ltb_negtrans M0 d' Hn Htr).
    + apply strongly_of_sorted. exact (@primitive_monotone T K p (@rt_single T F) Single _ _ _ _ _ _ _ eq_refl H).
Qed.

(* pairwise distinct heights *)
Definition strictly (hs : list T) : Prop :=
  forall i k a b, i < k -> nth_error hs i = Some a -> nth_error hs k = Some b -> ltb a b = true.

Theorem agree_of_good (M0 : cmat T) (D1 D2 : dend T) : 1 <= m_obs M0 ->
  good M0 D1 -> good M0 D2 -> strictly (heights D1) ->
  forall i t t', nth_error (d_steps D1) i = Some t -> nth_error (d_steps D2) i = Some t' ->
    s_c1 t = s_c1 t' /\ s_c2 t = s_c2 t' /\ s_size t = s_size t' /\ eqv ltb (s_dis t) (s_dis t').
Proof.
  intros Hn G1 G2 Hstrict.
  set (n0 := m_obs M0) in *.
  pose proof (g_wf G1) as W1. pose proof (g_wf G2) as W2.
  (* equal counts, hence equivalent heights position by position *)
  assert (Hcnt : forall t, count_le ltb t (heights D1) = count_le ltb t (heights D2)).
  { intros t. destruct (g_mst G1) as (E1 & S1 & P1 & M1). destruct (g_mst G2) as (E2 & S2 & P2 & M2).
    pose proof (M1 E2 S2 t) as A. pose proof (M2 E1 S1 t) as B.
    rewrite <- (count_le_perm ltb t P2) in A. rewrite <- (count_le_perm ltb t P1) in B. lia. }
  pose proof (@sorted_counts_equiv T ltb ltb_irrefl ltb_negtrans _ _ (g_sorted G1) (g_sorted G2) Hcnt) as Heq.
  assert (Hlen : length (heights D1) = length (heights D2)) by (clear - Heq; induction Heq; cbn [length]; congruence).
  assert (Hnth : forall i a b, nth_error (heights D1) i = Some a -> nth_error (heights D2) i = Some b -> eqv ltb a b).
  { clear - Heq. induction Heq as [|x y l l' Hxy _ IH]; intros i a b Ha Hb; [destruct i; discriminate|].
    destruct i as [|i]; cbn [nth_error] in Ha, Hb; [inversion Ha; inversion Hb; subst; exact Hxy|exact (IH i a b Ha Hb)]. }
  assert (L1 : length (heights D1) = n0 - 1) by (unfold heights; rewrite map_length; exact (proj1 W1)).
  assert (L2 : length (heights D2) = n0 - 1) by lia.
  (* the prefix partitions coincide *)
  assert (Hparts : same_parts n0 (d_steps D1) (d_steps D2)).
  { intros j x y Hj Hx Hy. destruct j as [|j]; [cbn [labi]; tauto|].
    (* threshold: the height of step j of D1 *)
    destruct (nth_error (heights D1) j) as [t|] eqn:Et; [|apply nth_error_None in Et; lia].
    destruct (nth_error (heights D2) j) as [t2|] eqn:Et2; [|apply nth_error_None in Et2; lia].
    pose proof (Hnth j t t2 Et Et2) as [Q1 Q2].
    assert (Hpos : forall (D : dend T) (G : good M0 D),
              (forall k h, nth_error (heights D) k = Some h -> (k < S j <-> ltb t h = false)) ->
              forall x y, x < n0 -> y < n0 ->
                (labi n0 (d_steps D) (S j) x = labi n0 (d_steps D) (S j) y
                 <-> conn (k_ltb K) (cell_or (k_inf K) M0) (seq 0 n0) t x y)).
    { intros D G Hchar x0 y0 Hx0 Hy0. destruct (g_cut G t) as (j' & Hj' & Hcut & Hp).
      assert (j' = S j).
      { pose proof (g_wf G) as [WL _]. assert (LD : length (heights D) = n0 - 1) by (unfold heights; rewrite map_length; exact WL).
        destruct (Nat.lt_trichotomy j' (S j)) as [Hlt|[He|Hgt]]; [|exact He|].
        - (* position j' < S j is <= t, so must be below the cut *)
          destruct (nth_error (heights D) j') as [h|] eqn:Eh; [|apply nth_error_None in Eh; lia].
          pose proof (proj1 (Hchar j' h Eh) Hlt) as Hle. pose proof (proj2 (Hcut j' h Eh) Hle). lia.
        - destruct (nth_error (heights D) (S j)) as [h|] eqn:Eh; [|apply nth_error_None in Eh; lia].
          pose proof (proj1 (Hcut (S j) h Eh) Hgt) as Hle. unfold le_t in Hle. pose proof (proj2 (Hchar (S j) h Eh) Hle). lia. }
      subst j'. exact (Hp x0 y0 Hx0 Hy0). }
    assert (C2 : forall k h, nth_error (heights D2) k = Some h -> (k < S j <-> ltb t h = false)).
    { (* D2: positions <= j are <= t, later ones are above *)
      intros k h Hk. split.
      + intros Hkj. destruct (nth_error (heights D1) k) as [h1|] eqn:E1; [|apply nth_error_None in E1; assert (k < length (heights D2)) by (apply nth_error_Some; congruence); lia].
        pose proof (Hnth k h1 h E1 Hk) as [R1 R2].
        destruct (Nat.eq_dec k j) as [->|Hne].
        * rewrite Et2 in Hk. inversion Hk; subst h. exact Q1.
        * pose proof (Hstrict k j h1 t ltac:(lia) E1 Et) as Hlt.
          (* h ~ h1 < t *)
          destruct (ltb t h) eqn:C; [|reflexivity]. exfalso.
          (* t < h, h <= h1 (R2: ltb h1 h = false means h <= h1)... *)
          pose proof (@ltb_trans _ _ _ Hlt C) as C2. congruence.
      + intros Hle. destruct (Nat.lt_ge_cases k (S j)) as [Hlt|Hge]; [exact Hlt|exfalso].
        destruct (nth_error (heights D1) k) as [h1|] eqn:E1; [|apply nth_error_None in E1; assert (k < length (heights D2)) by (apply nth_error_Some; congruence); lia].
        pose proof (Hnth k h1 h E1 Hk) as [R1 R2].
        pose proof (Hstrict j k t h1 ltac:(lia) Et E1) as Hlt.
        (* t < h1 ~ h <= t *)
        pose proof (@ltb_negtrans _ _ _ Hle R2) as C. congruence. }
    assert (C1 : forall k h, nth_error (heights D1) k = Some h -> (k < S j <-> ltb t h = false)).
    { intros k h Hk. split.
      + intros Hkj. destruct (Nat.eq_dec k j) as [->|Hne].
        * rewrite Et in Hk. inversion Hk; subst h. apply ltb_irrefl.
        * pose proof (Hstrict k j h t ltac:(lia) Hk Et) as Hlt.
          destruct (ltb t h) eqn:C; [|reflexivity]. pose proof (@ltb_trans _ _ _ Hlt C) as C3. rewrite ltb_irrefl in C3. discriminate.
      + intros Hle. destruct (Nat.lt_ge_cases k (S j)) as [Hlt|Hge]; [exact Hlt|exfalso].
        pose proof (Hstrict j k t h ltac:(lia) Et Hk) as Hlt. congruence. }
    rewrite (Hpos D1 G1 C1 x y Hx Hy), (Hpos D2 G2 C2 x y Hx Hy). reflexivity. }
  intros i t t' Ht Ht'.
  destruct (@dend_unique T n0 (d_steps D1) (d_steps D2) Hn W1 W2 Hparts i t t' Ht Ht') as (E1 & E2 & E3).
  split; [exact E1|]. split; [exact E2|]. split; [exact E3|].
  apply (Hnth i); unfold heights; rewrite nth_error_map; [rewrite Ht|rewrite Ht']; reflexivity.
Qed.

(* any two entry points, Method::Single, same input *)
Theorem single_same_dendrogram (a1 a2 : algo) s1 d1 s2 d2 (m : list T) n sr1 dr1 mr1 sr2 dr2 mr2 M0 :
  (n < two32)%N ->
  run_with F p a1 Single s1 d1 m n = Ok (sr1, dr1, mr1) ->
  run_with F p a2 Single s2 d2 m n = Ok (sr2, dr2, mr2) ->
  prologue p m n = Ok M0 -> 1 <= m_obs M0 ->
  Forall (fun v => f_ltb F v (f_inf F) = true) m ->
  strictly (heights dr1) ->
  length (d_steps dr1) = length (d_steps dr2)
  /\ forall i t t', nth_error (d_steps dr1) i = Some t -> nth_error (d_steps dr2) i = Some t' ->
       s_c1 t = s_c1 t' /\ s_c2 t = s_c2 t' /\ s_size t = s_size t' /\ eqv ltb (s_dis t) (s_dis t').
Proof.
  intros Hn32 H1 H2 HM0 Hn Hfin Hstrict.
  pose proof (@good_of_run a1 s1 d1 m n sr1 dr1 mr1 M0 Hn32 H1 HM0 Hn Hfin) as G1.
  pose proof (@good_of_run a2 s2 d2 m n sr2 dr2 mr2 M0 Hn32 H2 HM0 Hn Hfin) as G2.
  split; [rewrite (proj1 (g_wf G1)), (proj1 (g_wf G2)); reflexivity|].
  exact (@agree_of_good M0 dr1 dr2 Hn G1 G2 Hstrict).
Qed.

End AgreeSingle.
