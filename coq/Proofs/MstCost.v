(* C14: the number of matrix accesses of mst_with (and hence of linkage with
   the single method) is exactly n(n-1)/2, independent of the data. *)
Require Import KV.Model.Prelude KV.Model.Condensed KV.Model.Active KV.Model.Heap
  KV.Model.UnionFind KV.Model.Dendrogram KV.Model.Methods KV.Model.State
  KV.Model.Mst KV.Model.Cost KV.Proofs.ResetCanon KV.Proofs.ActiveRefine KV.Proofs.SortProofs KV.Proofs.Monotone.
From Coq Require Import Sorting.Sorted.

Set Implicit Arguments.

Section MstCost.
Variable T : Type.
Variable K : kops T.
Variable p : profile.

(* the scan only ever proposes observations it was given *)
Lemma mst_scan_who (M : cmat T) r c xs : forall acc acc',
  mfold (mst_scan K p M r c) xs acc = Ok acc' ->
  snd (fst acc') = snd (fst acc) \/ In (snd (fst acc')) xs.
Proof.
  induction xs as [|x xs IH]; intros acc acc' H; cbn [mfold] in H.
  - inversion H. left. reflexivity.
  - bind_inv H. destruct (IH _ _ H) as [W|W]; [|right; right; exact W].
    rewrite W. clear IH H W. unfold mst_scan in E. destruct acc as [[mins mo] md].
    bind_inv E. bind_inv E.
    destruct (k_ltb K (if k_ltb K a1 a0 then a1 else a0) md); inversion E; subst; cbn; [right; left; reflexivity|left; reflexivity].
Qed.

Lemma st_merge_active (s s' : lstate T) (d d' : dend T) c1 c2 x :
  st_merge s d c1 c2 x = Ok (s', d') -> a_remove (st_active s) c1 = Ok (st_active s').
Proof.
  unfold st_merge. intros H. bind_inv H. bind_inv H. bind_inv H. bind_inv H. bind_inv H. bind_inv H.
  inversion H; subst. reflexivity.
Qed.

Ltac binds H :=
  repeat (first [ bind_inv H | match type of H with context [let '(_, _) := ?x in _] => destruct x end ]).

Lemma st_merge_obs (s s' : lstate T) (d d' : dend T) c1 c2 x :
  st_merge s d c1 c2 x = Ok (s', d') -> d_obs d' = d_obs d.
Proof.
  unfold st_merge. intros H. binds H. inversion H; subst.
  match goal with E : d_push _ _ = Ok _ |- _ => unfold d_push in E; binds E; inversion E; reflexivity end.
Qed.

Lemma mst_iter_obs (M : cmat T) s d c i s' d' c' :
  mst_iter K p M (s, d, c) i = Ok (s', d', c') -> d_obs d' = d_obs d.
Proof.
  unfold mst_iter. intros H. binds H. inversion H; subst.
  match goal with E : st_merge _ _ _ _ _ = Ok _ |- _ => apply st_merge_obs in E; exact E end.
Qed.

Lemma mst_fold_obs (M : cmat T) (idx : list nat) : forall acc acc',
  mfold (mst_iter_c K p M) idx acc = Ok acc' ->
  d_obs (snd (fst (fst acc'))) = d_obs (snd (fst (fst acc))).
Proof.
  induction idx as [|i idx IH]; intros acc acc' H; cbn [mfold] in H; [inversion H; reflexivity|].
  bind_inv H. rewrite (IH _ _ H). clear IH H.
  destruct acc as [[[s0 d0] c0] k0]. unfold mst_iter_c in E. binds E. inversion E; subst. cbn [fst snd].
  match goal with E : mst_iter _ _ _ _ _ = Ok _ |- _ => apply mst_iter_obs in E; exact E end.
Qed.

Lemma filter_split_length (L : list nat) lo mid hi :
  (forall z, In z L -> lo <= z /\ z < hi) -> lo <= mid -> mid <= hi ->
  length (filter (in_range lo mid) L) + length (filter (in_range mid hi) L) = length L.
Proof.
  intros HB Hlm Hmh. induction L as [|z t IH]; [reflexivity|]. cbn [filter].
  destruct (HB z (or_introl eq_refl)) as [B1 B2].
  assert (IH' := IH (fun w Hw => HB w (or_intror Hw))).
  unfold in_range in *.
  destruct (Nat.leb_spec lo z), (Nat.ltb_spec z mid), (Nat.leb_spec mid z), (Nat.ltb_spec z hi);
    cbn [andb length]; lia.
Qed.

Definition MInv (s : lstate T) (cluster : nat) (L : list nat) : Prop :=
  AInv (st_active s) L /\ ~ In cluster L /\ cluster < length (a_next (st_active s)).

(* one iteration: counts |L| accesses and removes one live observation *)
Lemma mst_iter_c_step (M : cmat T) s d cluster cnt i s' d' cluster' cnt' L :
  MInv s cluster L ->
  mst_iter_c K p M (s, d, cluster, cnt) i = Ok (s', d', cluster', cnt') ->
  cnt' = (cnt + N.of_nat (length L))%N
  /\ In cluster' L /\ MInv s' cluster' (without cluster' L)
  /\ length (a_next (st_active s')) = length (a_next (st_active s)).
Proof.
  intros (HA & Hnc & Hc) H. unfold mst_iter_c in H.
  pose proof HA as (Hlen & Hl & Hdead).
  assert (HB : forall z, In z L -> a_start (st_active s) <= z /\ z < length (a_next (st_active s))).
  { intros z Hz. apply (linked_bounds Hl) in Hz. lia. }
  assert (Hstart : a_start (st_active s) <= length (a_next (st_active s))) by exact (proj1 (linked_bounds Hl)).
  (* the two ranges *)
  rewrite (@a_range_spec _ _ Unb (Excl cluster) HA) in H by (cbn [lo_of hi_of]; lia).
  rewrite (@a_range_spec _ _ (Incl cluster) Unb HA) in H by (cbn [lo_of hi_of]; lia).
  cbn [bind lo_of hi_of] in H.
  bind_inv H. destruct a as [[s1 d1] c1]. inversion H; subst s' d' cluster' cnt'. clear H.
  (* count: every live observation is in exactly one of the two ranges *)
  assert (Hcount : length (filter (in_range (a_start (st_active s)) cluster) L)
                 + length (filter (in_range cluster (length (a_next (st_active s)))) L) = length L).
  { destruct (Nat.le_gt_cases (a_start (st_active s)) cluster) as [Hsc|Hsc].
    - apply filter_split_length; [exact HB|exact Hsc|lia].
    - (* the removed cluster lies before every live observation *)
      rewrite (filter_none (in_range (a_start (st_active s)) cluster)).
      + rewrite filter_all; [reflexivity|]. intros z Hz. destruct (HB z Hz). unfold in_range.
        destruct (Nat.leb_spec cluster z), (Nat.ltb_spec z (length (a_next (st_active s)))); try reflexivity; lia.
      + intros z Hz. destruct (HB z Hz). unfold in_range.
        destruct (Nat.leb_spec (a_start (st_active s)) z), (Nat.ltb_spec z cluster); try reflexivity; lia. }
  split; [lia|].
  (* what the plain iteration does to the active list *)
  unfold mst_iter in E. rewrite (a_iter_spec HA) in E. cbn [bind] in E.
  bind_inv E. bind_inv E.
  rewrite (@a_range_spec _ _ Unb (Excl cluster) HA) in E by (cbn [lo_of hi_of]; lia).
  cbn [bind lo_of hi_of] in E. bind_inv E.
  rewrite (@a_range_spec _ _ (Incl cluster) Unb HA) in E by (cbn [lo_of hi_of]; lia).
  cbn [bind lo_of hi_of] in E. bind_inv E. destruct a2 as [[mins mo2] md2]. bind_inv E. destruct a2 as [s2 d2].
  inversion E; subst s1 d1 c1. clear E.
  assert (Hmo : In mo2 L).
  { destruct L as [|l0 L0]; [cbn in E0; discriminate|]. cbn in E0. inversion E0; subst a.
    destruct (mst_scan_who _ _ _ _ _ E3) as [W|W]; cbn [fst snd] in W.
    - destruct a1 as [[mins1 mo1] md1]. cbn [fst snd] in W. subst mo2.
      destruct (mst_scan_who _ _ _ _ _ E2) as [W|W]; cbn [fst snd] in W.
      + subst mo1. left. reflexivity.
      + apply filter_In in W. exact (proj1 W).
    - apply filter_In in W. exact (proj1 W). }
  split; [exact Hmo|].
  apply st_merge_active in E4. cbn [st_with_min st_active] in E4.
  destruct (@a_remove_spec _ _ mo2 HA (proj2 (HB mo2 Hmo))) as (a' & Ha' & HA' & Hlen').
  rewrite Ha' in E4. inversion E4 as [E5]. subst a'.
  split; [|exact Hlen'].
  unfold MInv. split; [exact HA'|]. split.
  - unfold without. intros Hin. apply filter_In in Hin. destruct Hin as [_ Hin].
    rewrite Nat.eqb_refl in Hin. discriminate.
  - rewrite Hlen'. exact (proj2 (HB mo2 Hmo)).
Qed.

Lemma mst_fold_count (M : cmat T) (idx : list nat) : forall s d cluster cnt L s' d' cluster' cnt',
  MInv s cluster L -> NoDup L -> length idx <= length L ->
  mfold (mst_iter_c K p M) idx (s, d, cluster, cnt) = Ok (s', d', cluster', cnt') ->
  cnt' = (cnt + N.of_nat (length idx * length L - length idx * (length idx - 1) / 2))%N.
Proof.
  induction idx as [|i idx IH]; intros s d cluster cnt L s' d' cluster' cnt' HI Hnd Hlen H; cbn [mfold] in H.
  - inversion H; subst. cbn. lia.
  - bind_inv H. destruct a as [[[s1 d1] c1] cnt1].
    destruct (@mst_iter_c_step M s d cluster cnt i s1 d1 c1 cnt1 L HI E) as (Hc & Hin & HI' & _).
    assert (Hl' : S (length (without c1 L)) = length L) by (apply without_length; assumption).
    assert (Hnd' : NoDup (without c1 L)) by (apply NoDup_filter; exact Hnd).
    cbn [length] in Hlen.
    rewrite (IH s1 d1 c1 cnt1 (without c1 L) s' d' cluster' cnt' HI' Hnd' ltac:(lia) H). subst cnt1.
    cbn [length]. set (k := length idx) in *. set (l := length L) in *.
    assert (Hl : length (without c1 L) = l - 1) by lia. rewrite Hl.
    (* k*(l-1) - k(k-1)/2 + l = (k+1)*l - (k+1)k/2 *)
    assert (E2 : S k * (S k - 1) / 2 = k * (k - 1) / 2 + k).
    { replace (S k * (S k - 1)) with (k * (k - 1) + k * 2) by nia. rewrite Nat.div_add by lia. reflexivity. }
    rewrite E2.
    assert (Hkk : k * (k - 1) / 2 <= k * (l - 1)).
    { apply Nat.div_le_upper_bound; [lia|]. nia. }
    nia.
Qed.

(* the whole call: n(n-1)/2 accesses whenever it returns *)
Theorem mst_cost (s : lstate T) (d : dend T) (m : list T) (n : N) s' d' m' cnt :
  mst_with_c K p s d m n = Ok (s', d', m', cnt) ->
  cnt = (N.of_nat (d_obs d') * (N.of_nat (d_obs d') - 1) / 2)%N.
Proof.
  unfold mst_with_c. intros H. bind_inv H.
  destruct (Nat.eqb_spec (m_obs a) 0) as [Hz|Hz].
  - inversion H; subst. cbn [d_reset d_obs]. rewrite Hz. reflexivity.
  - bind_inv H. bind_inv H. destruct a1 as [[[s1 d1] c1] cnt1]. bind_inv H. destruct a1 as [u d2].
    inversion H; subst s' d' m' cnt. clear H.
    set (n0 := m_obs a) in *.
    pose proof (a_reset_inv (st_active s) n0) as HA0.
    assert (Hact : st_active (st_reset K s n0) = a_reset (st_active s) n0) by reflexivity.
    rewrite Hact in E0.
    assert (Hlen0 : length (a_next (a_reset (st_active s) n0)) = n0).
    { rewrite a_reset_canonical. cbn. rewrite map_length, seq_length. reflexivity. }
    destruct (@a_remove_spec _ _ 0 HA0 ltac:(lia)) as (a' & Ha' & HA' & Hlen').
    rewrite Ha' in E0. inversion E0; subst a0. clear E0.
    assert (HL : without 0 (seq 0 n0) = seq 1 (n0 - 1)).
    { destruct n0 as [|k]; [lia|]. cbn [seq]. unfold without. cbn [filter Nat.eqb negb].
      replace (S k - 1) with k by lia. apply filter_all. intros z Hz'. apply in_seq in Hz'.
      destruct (Nat.eqb_spec z 0); [lia|reflexivity]. }
    rewrite HL in HA'.
    assert (HI : MInv (st_with_active (st_reset K s n0) a') 0 (seq 1 (n0 - 1))).
    { unfold MInv. cbn [st_with_active st_active]. split; [exact HA'|]. split.
      - intros Hin. apply in_seq in Hin. lia.
      - rewrite Hlen', Hlen0. lia. }
    pose proof (@mst_fold_count a (seq 0 (n0 - 1)) _ _ 0 0%N (seq 1 (n0 - 1)) s1 d1 c1 cnt1 HI (seq_NoDup _ _) ltac:(rewrite !seq_length; lia) E1) as Hc.
    rewrite !seq_length in Hc.
    (* the dendrogram keeps the observation count *)
    destruct (@relabel_heights T (k_ltb K) (k_eqb K) _ _ _ _ _ E2) as [Hobs _].
    assert (Hd1 : d_obs d1 = n0).
    { pose proof (mst_fold_obs _ _ _ E1) as G. cbn [fst snd] in G. rewrite G. reflexivity. }
    rewrite Hobs, Hd1, Hc. rewrite N.add_0_l.
    (* (n-1)(n-1) - (n-1)(n-2)/2 = n(n-1)/2 *)
    set (k := n0 - 1) in *. assert (Hk : n0 = S k) by lia. rewrite Hk.
    replace (N.of_nat (S k) - 1)%N with (N.of_nat k) by lia.
    rewrite <- Nat2N.inj_mul, <- (Nat2N.inj_div _ 2). f_equal.
    assert (E3 : S k * k / 2 = k * (k - 1) / 2 + k).
    { replace (S k * k) with (k * (k - 1) + k * 2) by nia. rewrite Nat.div_add by lia. reflexivity. }
    rewrite E3.
    assert (Hkk : k * (k - 1) / 2 <= k * k).
    { apply Nat.div_le_upper_bound; [lia|]. nia. }
    assert (Hkk2 : k * (k - 1) / 2 * 2 <= k * (k - 1)) by (rewrite Nat.mul_comm; apply Nat.mul_div_le; lia).
    (* k*k - k(k-1)/2 = k(k-1)/2 + k  <=>  k*k - k = 2 * (k(k-1)/2) when k(k-1) even *)
    assert (Heven : k * (k - 1) / 2 * 2 = k * (k - 1)).
    { assert (Hev : Nat.even (k * (k - 1)) = true).
      { rewrite Nat.even_mul. destruct k as [|k']; [reflexivity|]. replace (S k' - 1) with k' by lia.
        rewrite Nat.even_succ. destruct (Nat.even k') eqn:Ek; [apply Bool.orb_true_r|].
        rewrite <- Nat.negb_even, Ek. reflexivity. }
      apply Nat.even_spec in Hev. destruct Hev as [q Hq]. rewrite Hq.
      replace (2 * q) with (q * 2) by lia. rewrite Nat.div_mul by lia. reflexivity. }
    nia.
Qed.

End MstCost.
