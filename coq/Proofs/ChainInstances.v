(* Reducibility of the update formulas, and the resulting instances of
   ChainIter.nnchain_total_wf:
   - single / complete: any carrier with a strict weak order;
   - average / weighted / ward: exact rational arithmetic. *)
Require Import KV.Model.Prelude KV.Model.Condensed KV.Model.Dendrogram KV.Model.Methods KV.Model.State KV.Model.Chain
  KV.Proofs.ShapeCheck KV.Proofs.RelabelWF KV.Proofs.Criteria KV.Proofs.CriteriaRun KV.Proofs.ChainIter
  KV.Model.Cost KV.Proofs.ChainCost KV.Proofs.ChainCriterion KV.Proofs.LWInvariant KV.Proofs.UpdateSpec KV.Proofs.SortProofs.
From Coq Require Import Permutation.
From Coq Require Import QArith Qfield Field Lqa.

Set Implicit Arguments.
Local Close Scope Q_scope.

Section Sel.
Variable T : Type.
Variable F : fops T.
Variable p : profile.
Hypothesis ltb_irrefl : forall a, f_ltb F a a = false.
Hypothesis ltb_trans : forall a b c, f_ltb F a b = true -> f_ltb F b c = true -> f_ltb F a c = true.
Hypothesis ltb_negtrans : forall a b c, f_ltb F a b = false -> f_ltb F b c = false -> f_ltb F a c = false.

Lemma single_reducible va vb md sa sb sx :
  f_ltb F (upd_of F Single va vb md sa sb sx) va = false \/ f_ltb F (upd_of F Single va vb md sa sb sx) vb = false.
Proof. cbn. destruct (f_ltb F va vb); [left|right]; apply ltb_irrefl. Qed.

Lemma complete_reducible va vb md sa sb sx :
  f_ltb F (upd_of F Complete va vb md sa sb sx) va = false \/ f_ltb F (upd_of F Complete va vb md sa sb sx) vb = false.
Proof. cbn. destruct (f_ltb F vb va); [left|right]; apply ltb_irrefl. Qed.

Theorem nnchain_single_total_wf s d (m : list T) (n : N) :
  (n < two32)%N -> wf_shape n (N.of_nat (length m)) ->
  (exists s' d' m', nnchain_with (kops_of F Single) p Single s d m n = Ok (s', d', m') /\ wf_dend (d_obs d') (d_steps d'))
  \/ nnchain_with (kops_of F Single) p Single s d m n = Panic PNaN.
Proof.
  apply (@nnchain_total_wf T (kops_of F Single) p Single ltb_irrefl ltb_trans ltb_negtrans).
  intros va vb md sa sb sx _ _ _. apply single_reducible.
Qed.

Theorem nnchain_complete_total_wf s d (m : list T) (n : N) :
  (n < two32)%N -> wf_shape n (N.of_nat (length m)) ->
  (exists s' d' m', nnchain_with (kops_of F Complete) p Complete s d m n = Ok (s', d', m') /\ wf_dend (d_obs d') (d_steps d'))
  \/ nnchain_with (kops_of F Complete) p Complete s d m n = Panic PNaN.
Proof.
  apply (@nnchain_total_wf T (kops_of F Complete) p Complete ltb_irrefl ltb_trans ltb_negtrans).
  intros va vb md sa sb sx _ _ _. apply complete_reducible.
Qed.

Theorem nnchain_selection_cost meth s d (m : list T) (n : N) s' d' m' cnt :
  meth = Single \/ meth = Complete ->
  (n < two32)%N -> wf_shape n (N.of_nat (length m)) ->
  nnchain_with_c (kops_of F meth) p meth s d m n = Ok (s', d', m', cnt) ->
  (cnt <= 6 * n * n + 10 * n)%N.
Proof.
  intros [-> | ->].
  - apply (@nnchain_cost T (kops_of F Single) p Single ltb_irrefl ltb_trans ltb_negtrans).
    intros va vb md sa sb sx _ _ _. apply single_reducible.
  - apply (@nnchain_cost T (kops_of F Complete) p Complete ltb_irrefl ltb_trans ltb_negtrans).
    intros va vb md sa sb sx _ _ _. apply complete_reducible.
Qed.

Lemma sizes_irrelevant_of meth : uses_sizes_ab meth = false ->
  forall va vb md sa sb sa' sb' sx,
  k_upd (kops_of F meth) va vb md sa sb sx = k_upd (kops_of F meth) va vb md sa' sb' sx.
Proof. destruct meth; intros E; try discriminate; reflexivity. Qed.

(* C02 through nnchain for single / complete: min / max over the cross pairs *)
Theorem nnchain_complete_criterion s d (m : list T) (n : N) s' d' m' M0 :
  (n < two32)%N -> wf_shape n (N.of_nat (length m)) ->
  nnchain_with (kops_of F Complete) p Complete s d m n = Ok (s', d', m') ->
  prologue p m n = Ok M0 ->
  exists raw tr L' mem',
    mtrace (seq 0 (m_obs M0)) Leaf tr L' mem'
    /\ Forall2 (fun st (ab : mtree * mtree) =>
                  is_max_over (f_ltb F) (cell_or (f_inf F) M0) (fst ab) (snd ab) (s_dis st)) raw tr
    /\ length raw = m_obs M0 - 1
    /\ Permutation (heights d') (map (@s_dis T) raw).
Proof.
  intros Hn Hs H HM0.
  assert (Hsq : square_all (kops_of F Complete) m = m) by (unfold square_all; cbn [kops_of k_sq on_squares]; apply map_id).
  destruct (@nnchain_criterion T (kops_of F Complete) p Complete ltb_irrefl ltb_trans ltb_negtrans
              ltac:(intros va vb md sa sb sx _ _ _; apply complete_reducible)
              (is_max_over (f_ltb F) (cell_or (f_inf F) M0))
              (@max_sym T (f_ltb F) _ (cell_or_sym (f_inf F) M0))
              ltac:(intros X A B va vb md Ha Hb _; exact (@max_merge T (f_ltb F) ltb_trans ltb_negtrans _ X A B va vb Ha Hb))
              (@sizes_irrelevant_of Complete)
              s d m n s' d' m' M0 Hn Hs H ltac:(rewrite Hsq; exact HM0)
              ltac:(intros x y v Hxy Hx Hy Hv; split;
                    [exists x, y; cbn [leaves]; split; [left; reflexivity|]; split; [left; reflexivity|];
                     unfold cell_or; rewrite Hv; reflexivity
                    |intros x' y' [<-|[]] [<-|[]]; unfold cell_or; rewrite Hv; apply ltb_irrefl]))
    as (raw & tr & L' & mem' & Htr & HF & Hlen & Hperm).
  exists raw, tr, L', mem'. split; [exact Htr|]. split; [exact HF|]. split; [exact Hlen|].
  cbn [kops_of k_rt on_squares] in Hperm. rewrite map_id in Hperm. exact Hperm.
Qed.

End Sel.

(* ---- exact arithmetic ---- *)
Local Open Scope Q_scope.

Lemma qltb_false_iff a b : f_ltb QF a b = false <-> b <= a.
Proof.
  cbn. destruct (Qle_bool b a) eqn:E; cbn; split; intros H; try discriminate; try reflexivity.
  - apply Qle_bool_iff. exact E.
  - apply Qle_bool_iff in H. congruence.
Qed.

Lemma qn_pos' n : (0 < n)%nat -> 0 < qn n.
Proof. apply qn_pos. Qed.

Lemma average_reducible va vb md sa sb sx : (0 < sa)%nat -> (0 < sb)%nat ->
  f_ltb QF (upd_of QF Average va vb md sa sb sx) va = false \/ f_ltb QF (upd_of QF Average va vb md sa sb sx) vb = false.
Proof.
  intros Ha Hb. rewrite !qltb_false_iff. cbn. fold (qn sa) (qn sb).
  pose proof (qn_pos' Ha) as Pa. pose proof (qn_pos' Hb) as Pb.
  assert (Pab : 0 < qn sa + qn sb) by lra.
  destruct (Qlt_le_dec vb va) as [Hlt|Hle].
  - right. apply Qle_shift_div_l; [exact Pab|]. nra.
  - left. apply Qle_shift_div_l; [exact Pab|]. nra.
Qed.

Lemma weighted_reducible va vb md sa sb sx :
  f_ltb QF (upd_of QF Weighted va vb md sa sb sx) va = false \/ f_ltb QF (upd_of QF Weighted va vb md sa sb sx) vb = false.
Proof.
  rewrite !qltb_false_iff. cbn.
  destruct (Qlt_le_dec vb va) as [Hlt|Hle]; [right|left]; lra.
Qed.

Lemma ward_reducible va vb md sa sb sx : (0 < sa)%nat -> (0 < sb)%nat -> (0 < sx)%nat ->
  f_ltb QF va md = false -> f_ltb QF vb md = false ->
  f_ltb QF (upd_of QF Ward va vb md sa sb sx) va = false \/ f_ltb QF (upd_of QF Ward va vb md sa sb sx) vb = false.
Proof.
  intros Ha Hb Hx. rewrite !qltb_false_iff. intros Hma Hmb. cbn. fold (qn sa) (qn sb) (qn sx).
  pose proof (qn_pos' Ha) as Pa. pose proof (qn_pos' Hb) as Pb. pose proof (qn_pos' Hx) as Px.
  assert (Pabx : 0 < qn sa + qn sb + qn sx) by lra.
  destruct (Qlt_le_dec vb va) as [Hlt|Hle].
  - right. apply Qle_shift_div_l; [exact Pabx|]. nra.
  - left. apply Qle_shift_div_l; [exact Pabx|]. nra.
Qed.

Section QRuns.
Variable p : profile.
Variable rt : Q -> Q.

Lemma q_reducible meth : meth = Average \/ meth = Weighted \/ meth = Ward ->
  forall va vb md sa sb sx, size_ok meth sa sb sx ->
  k_ltb (kops_of (QFr rt) meth) va md = false -> k_ltb (kops_of (QFr rt) meth) vb md = false ->
  k_ltb (kops_of (QFr rt) meth) (k_upd (kops_of (QFr rt) meth) va vb md sa sb sx) va = false
  \/ k_ltb (kops_of (QFr rt) meth) (k_upd (kops_of (QFr rt) meth) va vb md sa sb sx) vb = false.
Proof.
  intros Hm va vb md sa sb sx [Hab Hx] Hma Hmb. cbn [kops_of k_ltb k_upd QFr f_ltb] in *. rewrite upd_QFr.
  destruct Hm as [-> | [-> | ->]].
  - destruct (Hab eq_refl). apply average_reducible; assumption.
  - apply weighted_reducible.
  - destruct (Hab eq_refl). apply ward_reducible; try assumption. apply Hx. reflexivity.
Qed.

Theorem nnchain_Q_total_wf meth s d (m : list Q) (n : N) :
  meth = Average \/ meth = Weighted \/ meth = Ward ->
  (n < two32)%N -> wf_shape n (N.of_nat (length m)) ->
  (exists s' d' m', nnchain_with (kops_of (QFr rt) meth) p meth s d m n = Ok (s', d', m') /\ wf_dend (d_obs d') (d_steps d'))
  \/ nnchain_with (kops_of (QFr rt) meth) p meth s d m n = Panic PNaN.
Proof.
  intros Hm. apply (@nnchain_total_wf Q (kops_of (QFr rt) meth) p meth qlt_irrefl qlt_trans qlt_negtrans).
  apply q_reducible. exact Hm.
Qed.

Theorem nnchain_Q_cost meth s d (m : list Q) (n : N) s' d' m' cnt :
  meth = Average \/ meth = Weighted \/ meth = Ward ->
  (n < two32)%N -> wf_shape n (N.of_nat (length m)) ->
  nnchain_with_c (kops_of (QFr rt) meth) p meth s d m n = Ok (s', d', m', cnt) ->
  (cnt <= 6 * n * n + 10 * n)%N.
Proof.
  intros Hm. apply (@nnchain_cost Q (kops_of (QFr rt) meth) p meth qlt_irrefl qlt_trans qlt_negtrans).
  apply q_reducible. exact Hm.
Qed.

(* C02 through nnchain for average / weighted / ward over Q: the closed-form
   criterion of CriteriaRun.crit_of *)
Theorem nnchain_criterion_Q meth s d (m : list Q) (n : N) s' d' m' M0 :
  meth = Average \/ meth = Weighted \/ meth = Ward ->
  (n < two32)%N -> wf_shape n (N.of_nat (length m)) ->
  nnchain_with (kops_of (QFr rt) meth) p meth s d m n = Ok (s', d', m') ->
  prologue p (square_all (kops_of (QFr rt) meth) m) n = Ok M0 ->
  exists raw tr L' mem',
    mtrace (seq 0 (m_obs M0)) Leaf tr L' mem'
    /\ Forall2 (fun st (ab : mtree * mtree) => crit_of meth M0 (fst ab) (snd ab) (s_dis st)) raw tr
    /\ length raw = (m_obs M0 - 1)%nat
    /\ Permutation (heights d') (map (k_rt (kops_of (QFr rt) meth)) (map (@s_dis Q) raw)).
Proof.
  intros Hm Hn Hs H HM0.
  apply (@nnchain_criterion Q (kops_of (QFr rt) meth) p meth qlt_irrefl qlt_trans qlt_negtrans
           (q_reducible Hm) (crit_of meth M0) (@crit_of_sym meth M0)
           ltac:(intros X A B va vb md Ha Hb Hmd; cbn [kops_of k_upd]; rewrite upd_QFr; apply crit_of_merge; assumption)
           ltac:(intros E va vb md sa sb sa' sb' sx; cbn [kops_of k_upd]; rewrite !upd_QFr;
                 destruct meth; try discriminate; reflexivity)
           s d m n s' d' m' M0 Hn Hs H HM0).
  intros x y v Hxy _ _ Hv. apply crit_of_leaf; assumption.
Qed.

End QRuns.
