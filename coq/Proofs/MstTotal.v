(* C12 for mst (= linkage single): on every correctly shaped input the call
   returns - no index panic, no failed assertion, no overflow, no exhausted
   fuel, in both profiles, from any prior state; the only possible panic is the
   sort's NaN panic. *)
Require Import KV.Model.Prelude KV.Model.Condensed KV.Model.Active KV.Model.Heap
  KV.Model.UnionFind KV.Model.Dendrogram KV.Model.Methods KV.Model.State KV.Model.Mst
  KV.Proofs.ResetCanon KV.Proofs.ActiveRefine KV.Proofs.CondensedIdx KV.Proofs.SortProofs KV.Proofs.Monotone
  KV.Proofs.MstCost KV.Proofs.Shape KV.Proofs.PrimitiveGreedy KV.Proofs.Forest KV.Proofs.UnionFindInv
  KV.Proofs.RelabelWF KV.Proofs.PrimitiveWF KV.Proofs.MstWF KV.Proofs.ShapeCheck.

Set Implicit Arguments.

Section MstTotal.
Variable T : Type.
Variable K : kops T.
Variable p : profile.

(* the scan over a list of live observations returns and keeps the length of
   min_dists *)
Lemma mst_scan_ok (M : cmat T) (r c : nat -> nat) (xs : list nat) :
  wf_mat M ->
  (forall x, In x xs -> r x < c x /\ c x < m_obs M) ->
  forall mins mo md, (forall x, In x xs -> x < length mins) ->
  exists mins' mo' md', mfold (mst_scan K p M r c) xs (mins, mo, md) = Ok (mins', mo', md')
    /\ length mins' = length mins.
Proof.
  intros Hwf. induction xs as [|x xs IH]; intros Hrc mins mo md Hlen.
  - eexists _, _, _. split; reflexivity.
  - cbn [mfold]. unfold mst_scan at 1.
    assert (Hx : x < length mins) by (apply Hlen; left; reflexivity).
    unfold vget. destruct (nth_error mins x) as [slot|] eqn:E; [|apply nth_error_None in E; lia]. cbn [bind].
    destruct (Hrc x (or_introl eq_refl)) as [H1 H2].
    destruct (mget_cell p Hwf H1 H2) as (v & _ & Hget). rewrite Hget. cbn [bind].
    set (slot' := if k_ltb K v slot then v else slot).
    assert (Hlen' : forall y, In y xs -> y < length (set_nth mins x slot')).
    { intros y Hy. rewrite set_nth_length. apply Hlen. right. exact Hy. }
    destruct (k_ltb K slot' md).
    + destruct (IH (fun y Hy => Hrc y (or_intror Hy)) (set_nth mins x slot') x slot' Hlen') as (a & b & c0 & Hf & Hl).
      eexists _, _, _. split; [exact Hf|rewrite Hl; apply set_nth_length].
    + destruct (IH (fun y Hy => Hrc y (or_intror Hy)) (set_nth mins x slot') mo md Hlen') as (a & b & c0 & Hf & Hl).
      eexists _, _, _. split; [exact Hf|rewrite Hl; apply set_nth_length].
Qed.

(* loop invariant for totality *)
Definition XInv (n0 : nat) (s : lstate T) (d : dend T) (cluster : nat) (L : list nat) : Prop :=
  MInv s cluster L /\ NoDup L
  /\ length (a_next (st_active s)) = n0 /\ length (st_min s) = n0 /\ length (st_sizes s) = n0
  /\ d_obs d = n0 /\ length (d_steps d) + length L + 1 = n0.

Lemma mst_iter_progress (M : cmat T) n0 s d cluster i L :
  wf_mat M -> m_obs M = n0 -> XInv n0 s d cluster L -> 1 <= length L ->
  exists s' d' cluster', mst_iter K p M (s, d, cluster) i = Ok (s', d', cluster')
    /\ XInv n0 s' d' cluster' (without cluster' L) /\ In cluster' L.
Proof.
  intros Hwf HMo (HM & Hnd & HN & Hmin & Hsz & Hobs & Hcount) HL1.
  pose proof HM as (HA & Hnc & Hc). pose proof HA as (Hlen & Hl & Hdead).
  assert (HB : forall z, In z L -> a_start (st_active s) <= z /\ z < n0).
  { intros z Hz. apply (linked_bounds Hl) in Hz. lia. }
  assert (Hstart : a_start (st_active s) <= length (a_next (st_active s))) by exact (proj1 (linked_bounds Hl)).
  unfold mst_iter. rewrite (a_iter_spec HA). cbn [bind].
  destruct (hd_error L) as [l0|] eqn:Hhd; [|destruct L; [cbn in HL1; lia|discriminate]].
  cbn [opt_unwrap bind].
  assert (Hl0 : In l0 L) by (destruct L; cbn in Hhd; [discriminate|inversion Hhd; left; reflexivity]).
  unfold vget at 1. destruct (nth_error (st_min s) l0) as [md0|] eqn:Em; [|apply nth_error_None in Em; pose proof (HB l0 Hl0); lia].
  cbn [bind].
  rewrite (@a_range_spec _ _ Unb (Excl cluster) HA) by (cbn [lo_of hi_of]; lia).
  cbn [bind lo_of hi_of].
  (* first scan: rows x < cluster *)
  destruct (@mst_scan_ok M (fun x => x) (fun _ => cluster) (filter (in_range (a_start (st_active s)) cluster) L) Hwf)
    with (mins := st_min s) (mo := l0) (md := md0) as (mins1 & mo1 & md1 & Hf1 & Hl1).
  { intros x Hx. apply filter_In in Hx. destruct Hx as [_ Hr]. unfold in_range in Hr.
    apply Bool.andb_true_iff in Hr. destruct Hr as [_ Hr]. apply Nat.ltb_lt in Hr. lia. }
  { intros x Hx. apply filter_In in Hx. destruct Hx as [Hx _]. pose proof (HB x Hx). lia. }
  rewrite Hf1. cbn [bind].
  rewrite (@a_range_spec _ _ (Incl cluster) Unb HA) by (cbn [lo_of hi_of]; lia).
  cbn [bind lo_of hi_of].
  destruct (@mst_scan_ok M (fun _ => cluster) (fun x => x) (filter (in_range cluster (length (a_next (st_active s)))) L) Hwf)
    with (mins := mins1) (mo := mo1) (md := md1) as (mins2 & mo2 & md2 & Hf2 & Hl2).
  { intros x Hx. apply filter_In in Hx. destruct Hx as [Hx Hr]. unfold in_range in Hr.
    apply Bool.andb_true_iff in Hr. destruct Hr as [Hr _]. apply Nat.leb_le in Hr. pose proof (HB x Hx).
    assert (x <> cluster) by (intros ->; contradiction). lia. }
  { intros x Hx. apply filter_In in Hx. destruct Hx as [Hx _]. pose proof (HB x Hx). lia. }
  rewrite Hf2. cbn [bind].
  assert (Hmo : In mo2 L).
  { destruct (@mst_scan_who T K p M _ _ _ _ _ Hf2) as [W|W]; cbn [fst snd] in W.
    - subst mo2. destruct (@mst_scan_who T K p M _ _ _ _ _ Hf1) as [W|W]; cbn [fst snd] in W.
      + subst mo1. exact Hl0.
      + apply filter_In in W. exact (proj1 W).
    - apply filter_In in W. exact (proj1 W). }
  pose proof (HB mo2 Hmo) as [_ Hmo_n].
  (* merge *)
  unfold st_merge. cbn [st_with_min st_sizes st_active].
  unfold vget at 1. destruct (nth_error (st_sizes s) mo2) as [z1|] eqn:Ez1; [|apply nth_error_None in Ez1; lia]. cbn [bind].
  unfold vget at 1. destruct (nth_error (st_sizes s) cluster) as [z2|] eqn:Ez2; [|apply nth_error_None in Ez2; lia]. cbn [bind].
  unfold vset. destruct (Nat.ltb_spec cluster (length (st_sizes s))); [|lia]. cbn [bind].
  destruct (@a_remove_spec _ _ mo2 HA ltac:(lia)) as (a' & Ha' & HA' & Hlen').
  rewrite Ha'. cbn [bind].
  unfold vget at 1. rewrite nth_error_set_nth_eq by lia. cbn [bind].
  unfold d_push, d_len. unfold assert_.
  pose proof (without_length mo2 Hnd Hmo) as Hwl.
  destruct (Nat.ltb_spec (length (d_steps d)) (d_obs d - 1)); [|lia]. cbn [bind].
  eexists _, _, _. split; [reflexivity|]. split; [|exact Hmo].
  unfold XInv. cbn [st_with_active st_with_sizes st_with_min st_active st_min st_sizes d_steps d_obs].
  split.
  { unfold MInv. cbn [st_with_active st_active]. split; [exact HA'|]. split.
    - intros Hin. apply without_In in Hin. destruct Hin as [_ Hne]. apply Hne. reflexivity.
    - rewrite Hlen'. lia. }
  split; [apply NoDup_filter; exact Hnd|].
  split; [rewrite Hlen'; exact HN|]. split; [rewrite Hl2, Hl1; exact Hmin|].
  split; [rewrite set_nth_length; exact Hsz|]. split; [exact Hobs|].
  rewrite app_length. cbn [length]. lia.
Qed.

Lemma mst_fold_progress (M : cmat T) n0 : wf_mat M -> m_obs M = n0 ->
  forall (k : nat) i s d cluster L, XInv n0 s d cluster L -> k <= length L ->
  exists s' d' cluster' L', mfold (mst_iter K p M) (seq i k) (s, d, cluster) = Ok (s', d', cluster')
    /\ XInv n0 s' d' cluster' L' /\ length L' + k = length L.
Proof.
  intros Hwf HMo. induction k as [|k IH]; intros i s d cluster L HX Hk.
  - eexists _, _, _, L. split; [reflexivity|]. split; [exact HX|lia].
  - cbn [seq mfold].
    destruct (@mst_iter_progress M n0 s d cluster i L Hwf HMo HX ltac:(lia)) as (s1 & d1 & c1 & Hstep & HX1 & Hin).
    rewrite Hstep. cbn [bind].
    pose proof HX as (_ & Hnd & _).
    pose proof (without_length c1 Hnd Hin) as Hwl.
    destruct (IH (S i) s1 d1 c1 (without c1 L) HX1 ltac:(lia)) as (s' & d' & c' & L' & Hf & HX' & Hl').
    eexists _, _, _, L'. split; [exact Hf|]. split; [exact HX'|lia].
Qed.

(* the whole call *)
Theorem mst_total (s : lstate T) (d : dend T) (m : list T) (n : N) :
  (n < two32)%N -> wf_shape n (N.of_nat (length m)) ->
  (exists r, mst_with K p s d m n = Ok r) \/ mst_with K p s d m n = Panic PNaN.
Proof.
  intros Hn Hshape. unfold mst_with, prologue.
  rewrite (shape_check_ok p n (N.of_nat (length m)) Hn Hshape). cbn [bind].
  unfold obs_to_nat. destruct (N.ltb_spec (if (n <=? 1)%N then 0%N else n) two32) as [_|Hbig];
    [|destruct (N.leb_spec n 1); unfold two32 in *; lia]. cbn [bind m_obs m_data].
  set (n0 := N.to_nat (if (n <=? 1)%N then 0%N else n)).
  destruct (Nat.eqb_spec n0 0) as [Hz|Hz]; [left; eexists; reflexivity|].
  set (M := {| m_data := m; m_obs := n0 |}).
  assert (Hwf : wf_mat M).
  { unfold wf_mat, M. cbn [m_data m_obs]. unfold wf_shape in Hshape. unfold n0 in *.
    destruct (N.leb_spec n 1); [cbn in Hz; lia|].
    apply Nat2N.inj. rewrite Hshape. rewrite Nat2N.inj_div, Nat2N.inj_mul, Nat2N.inj_sub, N2Nat.id. reflexivity. }
  pose proof (a_reset_inv (st_active s) n0) as HA0.
  assert (Hlen0 : length (a_next (a_reset (st_active s) n0)) = n0).
  { rewrite a_reset_canonical. cbn. rewrite map_length, seq_length. reflexivity. }
  change (st_active (st_reset K s n0)) with (a_reset (st_active s) n0).
  destruct (@a_remove_spec _ _ 0 HA0 ltac:(lia)) as (a' & Ha' & HA' & Hlen').
  rewrite Ha'. cbn [bind].
  assert (HL : without 0 (seq 0 n0) = seq 1 (n0 - 1)).
  { destruct n0 as [|k]; [lia|]. cbn [seq]. unfold without. cbn [filter Nat.eqb negb].
    replace (S k - 1) with k by lia. apply filter_all. intros z Hz'. apply in_seq in Hz'.
    destruct (Nat.eqb_spec z 0); [lia|reflexivity]. }
  rewrite HL in HA'.
  assert (HX0 : XInv n0 (st_with_active (st_reset K s n0) a') (d_reset d n0) 0 (seq 1 (n0 - 1))).
  { unfold XInv. cbn [st_with_active st_active st_min st_sizes st_reset d_reset d_obs d_steps length].
    split.
    { unfold MInv. cbn [st_with_active st_active]. split; [exact HA'|]. split.
      - intros Hin. apply in_seq in Hin. lia.
      - rewrite Hlen', Hlen0. lia. }
    split; [apply seq_NoDup|]. split; [rewrite Hlen'; exact Hlen0|].
    unfold clear_resize. rewrite !vresize_length, seq_length. repeat split; lia. }
  destruct (@mst_fold_progress M n0 Hwf eq_refl (n0 - 1) 0 _ _ _ _ HX0 ltac:(rewrite seq_length; lia))
    as (s1 & d1 & c1 & L1 & Hfold & HX1 & Hl1).
  change (m_obs M) with n0. fold M. rewrite Hfold. cbn [bind].
  (* relabel: the raw steps form a forest *)
  assert (HT0 : TInv n0 (d_reset d n0) 0 (seq 1 (n0 - 1))).
  { unfold TInv. cbn [d_reset d_obs d_steps edges map all_nontrivial add_edges length].
    split; [reflexivity|]. split; [lia|]. split; [intros x Hx; apply in_seq in Hx; lia|]. split; [intros st []|].
    split; [exact I|]. split; [intros x y _ Hxy; split; congruence|rewrite seq_length; lia]. }
  pose proof HX0 as (HM0 & _).
  destruct (@mst_fold_forest T K p M n0 _ _ _ _ _ _ _ _ HM0 HT0 (seq_NoDup _ _) Hfold)
    as (L' & (Hobs & _ & _ & Hends & Hnt & _ & Hcount) & Hl).
  rewrite !seq_length in Hl.
  assert (Hlend : length (d_steps d1) = d_obs d1 - 1) by lia.
  destruct (sort_steps_total (k_ltb K) (k_eqb K) (d_steps d1)) as [[l Hsort]|Hnan].
  - destruct (@relabel_wf T (k_ltb K) (k_eqb K) (st_set s1) d1 true l ltac:(lia) Hlend
                ltac:(rewrite Hobs; exact Hends) Hnt Hsort) as (u' & d' & Hrel & _).
    rewrite Hrel. cbn [bind]. left. eexists. reflexivity.
  - right. unfold relabel. rewrite Hnan. reflexivity.
Qed.

End MstTotal.
