(* C06: nnchain_with and primitive_with return THE SAME LABELLED DENDROGRAM on
   tie-free inputs - the same labels and sizes in the same step order, heights
   equivalent position by position - for every reducible criterion (single,
   complete, average, weighted, ward).

   AgreeChain.v shows that both runs create the same merge nodes at equivalent
   heights. A raw step is determined by its node (the slots are the largest
   leaves of the two subtrees), so the steps of weight <= t of the two runs
   record the same pairs; with pairwise distinct heights the sorted step lists
   are cut at the same positions, every prefix generates the same partition,
   and a well-formed dendrogram is determined by its prefix partitions
   (DendUnique.v). *)
Require Import KV.Model.Prelude KV.Model.Condensed KV.Model.Active KV.Model.Heap
  KV.Model.UnionFind KV.Model.Dendrogram KV.Model.Methods KV.Model.State KV.Model.Primitive KV.Model.Chain
  KV.Proofs.ActiveRefine KV.Proofs.CondensedIdx KV.Proofs.SortProofs KV.Proofs.Monotone
  KV.Proofs.PrimitiveGreedy KV.Proofs.Forest KV.Proofs.RelabelWF KV.Proofs.PrimitiveWF KV.Proofs.UpdateSpec
  KV.Proofs.LWInvariant KV.Proofs.PrimThreshold KV.Proofs.MstCuts KV.Proofs.ChainInv KV.Proofs.ChainIter KV.Proofs.RnnConfluence KV.Proofs.AgreeChain
  KV.Proofs.MstWeights KV.Proofs.DendUnique KV.Proofs.AgreeSingle.
From Coq Require Import Relations Permutation Sorting.Sorted.

Set Implicit Arguments.

Lemma Forall2_In_l {A B} (R : A -> B -> Prop) l l' x : Forall2 R l l' -> In x l -> exists y, In y l' /\ R x y.
Proof.
  induction 1 as [|a b l l' Hab _ IH]; intros Hin; [destruct Hin|].
  destruct Hin as [<-|Hin]; [exists b; split; [left; reflexivity|exact Hab]|].
  destruct (IH Hin) as (y & Hy & Hr). exists y. split; [right; exact Hy|exact Hr].
Qed.

Lemma Forall2_In_r {A B} (R : A -> B -> Prop) l l' y : Forall2 R l l' -> In y l' -> exists x, In x l /\ R x y.
Proof.
  induction 1 as [|a b l l' Hab _ IH]; intros Hin; [destruct Hin|].
  destruct Hin as [<-|Hin]; [exists a; split; [left; reflexivity|exact Hab]|].
  destruct (IH Hin) as (x & Hx & Hr). exists x. split; [right; exact Hx|exact Hr].
Qed.

Section Final.
Variable T : Type.
Variable K : kops T.
Variable p : profile.
Variable meth : method.
Hypothesis ltb_irrefl : forall a, k_ltb K a a = false.
Hypothesis ltb_trans : forall a b c, k_ltb K a b = true -> k_ltb K b c = true -> k_ltb K a c = true.
Hypothesis ltb_negtrans : forall a b c, k_ltb K a b = false -> k_ltb K b c = false -> k_ltb K a c = false.
Hypothesis eqb_nlt : forall a b, k_eqb K a b = true -> k_ltb K b a = false.
Variable crit : mtree -> mtree -> T -> Prop.
Hypothesis sorting : requires_sorting meth = true.

Notation ltb := (k_ltb K).
Notation eqv := (eqv ltb).
Notation strace := (@strace T K crit).

(* a raw step is determined by its node *)
Definition keyed (st : step T) (nv : mtree * T) : Prop :=
  exists A B, fst nv = Node A B /\ s_c1 st = maxleaf A /\ s_c2 st = maxleaf B /\ snd nv = s_dis st.

Lemma strace_keys : forall L mem raw, strace L mem raw -> (forall x, In x L -> maxleaf (mem x) = x) ->
  Forall2 keyed raw (node_heights mem raw).
Proof.
  intros L mem raw H. induction H as [L mem|L mem a b v sz rest Ha Hb Hab Hc Hfar Hst IH]; intros Hmax; cbn [node_heights]; [constructor|].
  destruct (step_new_c v sz Hab) as [E1 E2]. rewrite E1, E2. constructor.
  - exists (mem a), (mem b). cbn [fst snd]. rewrite E1, E2, (Hmax a Ha), (Hmax b Hb). repeat split; reflexivity.
  - apply IH. intros x Hx. apply without_In in Hx. destruct Hx as [Hx Hxa]. unfold upd_mem.
    destruct (Nat.eqb_spec x b) as [->|Hxb]; [cbn [maxleaf]; rewrite (Hmax a Ha), (Hmax b Hb); lia|exact (Hmax x Hx)].
Qed.

Lemma node_heights_snd mem (raw : list (step T)) : map snd (node_heights mem raw) = map (@s_dis T) raw.
Proof. revert mem. induction raw as [|st rest IH]; intros mem; cbn; [reflexivity|]. rewrite IH. reflexivity. Qed.

(* node-indexed height lists with permuted nodes and equivalent heights have the same counts *)
Lemma count_nh : forall (NH NH' : list (mtree * T)),
  Permutation (map fst NH) (map fst NH') ->
  (forall N v w, In (N, v) NH -> In (N, w) NH' -> eqv v w) ->
  forall t, count_le ltb t (map snd NH) = count_le ltb t (map snd NH').
Proof.
  induction NH as [|[N v] R IH]; intros NH' HP Heq t.
  - apply Permutation_nil in HP. destruct NH'; [reflexivity|discriminate].
  - cbn [map fst] in HP.
    assert (HN : In N (map fst NH')) by (apply (Permutation_in _ HP); left; reflexivity).
    apply in_map_iff in HN. destruct HN as ([N' w] & EN & Hin). cbn [fst] in EN. subst N'.
    apply in_split in Hin. destruct Hin as (A & B & ->).
    rewrite map_app in HP. cbn [map fst] in HP. apply Permutation_cons_app_inv in HP. rewrite <- map_app in HP.
    assert (Hvw : eqv v w) by (apply (Heq N v w); [left; reflexivity|apply in_or_app; right; left; reflexivity]).
    assert (IHr : count_le ltb t (map snd R) = count_le ltb t (map snd (A ++ B))).
    { apply IH; [exact HP|]. intros N0 v0 w0 H1 H2. apply (Heq N0 v0 w0); [right; exact H1|].
      apply in_app_or in H2. apply in_or_app. destruct H2 as [H2|H2]; [left; exact H2|right; right; exact H2]. }
    assert (Hmid : Permutation (map snd (A ++ (N, w) :: B)) (w :: map snd (A ++ B))).
    { rewrite !map_app. cbn [map snd]. apply Permutation_sym. apply Permutation_middle. }
    rewrite (count_le_perm ltb t Hmid). cbn [map snd]. rewrite !(count_cons ltb), IHr, (eqv_le_iff ltb_negtrans t Hvw). reflexivity.
Qed.

Lemma strongly_sorted_steps (l : list (step T)) : Sorted (le_step ltb (k_eqb K)) l ->
  StronglySorted (fun a b => ltb b a = false) (map (@s_dis T) l).
Proof.
  intros Hs. apply Sorted_StronglySorted.
  - intros a b c H1 H2. exact (@ltb_negtrans _ _ _ H2 H1).
  - pose proof (@sorted_heights T K l Hs) as Hh. induction Hh as [|a r Hh IH Hd]; constructor; [exact IH|].
    destruct Hd; constructor. apply (@le_t_ge T K ltb_irrefl ltb_trans eqb_nlt). assumption.
Qed.

(* cut positions of a strictly increasing list, and of a list equivalent to it position by position *)
Definition strictly_lt (hs : list T) : Prop :=
  forall i k a b, i < k -> nth_error hs i = Some a -> nth_error hs k = Some b -> ltb a b = true.

Lemma cut_of_strict (hs hs' : list T) j t : strictly_lt hs ->
  (forall i a b, nth_error hs i = Some a -> nth_error hs' i = Some b -> eqv a b) -> length hs = length hs' ->
  nth_error hs j = Some t -> cut_at K t (S j) hs /\ cut_at K t (S j) hs'.
Proof.
  intros Hstrict Hnth Hlen Et. split; intros k h Hk; unfold le_t; split.
  - intros Hkj. destruct (Nat.eq_dec k j) as [->|Hne].
    + rewrite Et in Hk. inversion Hk; subst h. apply ltb_irrefl.
    + pose proof (Hstrict k j h t ltac:(lia) Hk Et) as Hlt.
      destruct (ltb t h) eqn:C; [|reflexivity]. pose proof (@ltb_trans _ _ _ Hlt C) as C3. rewrite ltb_irrefl in C3. discriminate.
  - intros Hle. destruct (Nat.lt_ge_cases k (S j)) as [Hlt|Hge]; [exact Hlt|exfalso].
    pose proof (Hstrict j k t h ltac:(lia) Et Hk) as Hlt. congruence.
  - intros Hkj.
    destruct (nth_error hs k) as [h1|] eqn:E1; [|apply nth_error_None in E1; assert (k < length hs') by (apply nth_error_Some; congruence); lia].
    pose proof (Hnth k h1 h E1 Hk) as [R1 R2].
    destruct (Nat.eq_dec k j) as [->|Hne].
    + rewrite Et in E1. inversion E1; subst h1. exact R1.
    + pose proof (Hstrict k j h1 t ltac:(lia) E1 Et) as Hlt.
      destruct (ltb t h) eqn:C; [|reflexivity]. exfalso. pose proof (@ltb_trans _ _ _ Hlt C) as C2. congruence.
  - intros Hle. destruct (Nat.lt_ge_cases k (S j)) as [Hlt|Hge]; [exact Hlt|exfalso].
    destruct (nth_error hs k) as [h1|] eqn:E1; [|apply nth_error_None in E1; assert (k < length hs') by (apply nth_error_Some; congruence); lia].
    pose proof (Hnth k h1 h E1 Hk) as [R1 R2].
    pose proof (Hstrict j k t h1 ltac:(lia) Et E1) as Hlt.
    pose proof (@ltb_negtrans _ _ _ Hle R2) as C. congruence.
Qed.

Lemma Forall2_nth {A B} (R : A -> B -> Prop) (l : list A) (l' : list B) : Forall2 R l l' ->
  length l = length l' /\ forall i a b, nth_error l i = Some a -> nth_error l' i = Some b -> R a b.
Proof.
  induction 1 as [|x y l l' Hxy _ [IHl IH]]; [split; [reflexivity|intros i a b Ha; destruct i; discriminate]|].
  split; [cbn [length]; congruence|]. intros i a b Ha Hb.
  destruct i as [|i]; cbn [nth_error] in Ha, Hb; [inversion Ha; inversion Hb; subst; exact Hxy|exact (IH i a b Ha Hb)].
Qed.

(* steps of the two raw lists record the same pairs at equivalent heights *)
Definition matched (raw raw' : list (step T)) : Prop :=
  forall st, In st raw -> exists st', In st' raw' /\ s_c1 st = s_c1 st' /\ s_c2 st = s_c2 st' /\ eqv (s_dis st) (s_dis st').

Lemma link_matched t raw raw' : matched raw raw' -> forall x y, link ltb t raw x y -> link ltb t raw' x y.
Proof.
  intros Hm x y H. induction H as [a b (st & Hin & Hle & Hab)| | |].
  - destruct (Hm st Hin) as (st' & Hin' & E1 & E2 & Hv). apply rst_step. exists st'. split; [exact Hin'|]. split.
    + unfold le_t in *. rewrite <- (eqv_le_iff ltb_negtrans t Hv). exact Hle.
    + rewrite <- E1, <- E2. exact Hab.
  - apply rst_refl.
  - apply rst_sym. assumption.
  - eapply rst_trans; eassumption.
Qed.

Lemma matched_of_nodes (raw raw' : list (step T)) :
  Forall2 keyed raw (node_heights Leaf raw) -> Forall2 keyed raw' (node_heights Leaf raw') ->
  Permutation (nodes_of Leaf raw) (nodes_of Leaf raw') ->
  (forall N v w, In (N, v) (node_heights Leaf raw) -> In (N, w) (node_heights Leaf raw') -> eqv v w) ->
  matched raw raw'.
Proof.
  intros K1 K2 HP Heq st Hin.
  destruct (@Forall2_In_l _ _ _ _ _ st K1 Hin) as ([N v] & Hnv & (A & B & EN & E1 & E2 & Ev)). cbn [fst snd] in EN, Ev. subst N v.
  assert (HN : In (Node A B) (nodes_of Leaf raw')).
  { apply (Permutation_in _ HP). rewrite <- node_heights_fst. apply in_map_iff. exists (Node A B, s_dis st). split; [reflexivity|exact Hnv]. }
  rewrite <- node_heights_fst in HN. apply in_map_iff in HN. destruct HN as ([N' w] & EN' & Hnw). cbn [fst] in EN'. subst N'.
  destruct (@Forall2_In_r _ _ _ _ _ (Node A B, w) K2 Hnw) as (st' & Hin' & (A' & B' & EN2 & F1 & F2 & Ew)). cbn [fst snd] in EN2, Ew. inversion EN2; subst A' B' w.
  exists st'. split; [exact Hin'|]. split; [congruence|]. split; [congruence|].
  exact (Heq (Node A B) (s_dis st) (s_dis st') Hnv Hnw).
Qed.

(* the core: two runs whose raw traces create the same nodes at equivalent heights *)
Theorem same_dendrogram_of_traces (n0 : nat) (dp dc : dend T) (raw_p raw_c : list (step T)) : 1 <= n0 ->
  @run_trace T K meth crit n0 dp raw_p -> @run_trace T K meth crit n0 dc raw_c ->
  Permutation (nodes_of Leaf raw_p) (nodes_of Leaf raw_c) ->
  (forall N v w, In (N, v) (node_heights Leaf raw_p) -> In (N, w) (node_heights Leaf raw_c) -> eqv v w) ->
  (forall x y, ltb (k_rt K x) (k_rt K y) = true -> ltb x y = true) ->
  strictly_lt (heights dp) ->
  length (d_steps dp) = length (d_steps dc)
  /\ forall i t t', nth_error (d_steps dp) i = Some t -> nth_error (d_steps dc) i = Some t' ->
       s_c1 t = s_c1 t' /\ s_c2 t = s_c2 t' /\ s_size t = s_size t'
       /\ exists h h', s_dis t = k_rt K h /\ s_dis t' = k_rt K h' /\ eqv h h'.
Proof.
  intros Hn (up & up' & d1p & d2p & Hsp & Hlp & Hstp & (Lp & HFp) & Ep & ->) (uc & uc' & d1c & d2c & Hsc & Hlc & Hstc & (Lc & HFc) & Ec & ->)
    HP Heq Hrt Hstrict.
  rewrite sorting in Ep, Ec.
  (* the sorted raw steps *)
  destruct (@relabel_heights T ltb (k_eqb K) _ _ _ _ _ Ep) as [_ (lp & Hlp0 & Hhp)].
  destruct (@relabel_heights T ltb (k_eqb K) _ _ _ _ _ Ec) as [_ (lc & Hlc0 & Hhc)].
  destruct (@sort_steps_ok T ltb (k_eqb K) (@gt_flip T K) _ _ Hlp0) as [Ssp Pp].
  destruct (@sort_steps_ok T ltb (k_eqb K) (@gt_flip T K) _ _ Hlc0) as [Ssc Pc].
  rewrite Hsp in Pp. rewrite Hsc in Pc.
  destruct HFp as (Hobsp & _ & Hendsp & Hntp & _). destruct HFc as (Hobsc & _ & Hendsc & Hntc & _).
  destruct (@relabel_cuts T ltb (k_eqb K) up d1p true lp ltac:(lia) ltac:(rewrite Hobsp, Hsp; exact Hlp)
              ltac:(rewrite Hobsp; exact Hendsp) Hntp Hlp0) as (u2 & d2' & Hrel' & Wp & _ & Hdisp & Hcutsp).
  rewrite Ep in Hrel'. inversion Hrel'; subst u2 d2'. clear Hrel'.
  destruct (@relabel_cuts T ltb (k_eqb K) uc d1c true lc ltac:(lia) ltac:(rewrite Hobsc, Hsc; exact Hlc)
              ltac:(rewrite Hobsc; exact Hendsc) Hntc Hlc0) as (u2 & d2' & Hrel' & Wc & _ & Hdisc & Hcutsc).
  rewrite Ec in Hrel'. inversion Hrel'; subst u2 d2'. clear Hrel'.
  rewrite Hobsp in Wp, Hcutsp. rewrite Hobsc in Wc, Hcutsc.
  (* the same pairs at equivalent heights *)
  assert (Hmax0 : forall x, In x (seq 0 n0) -> maxleaf (Leaf x) = x) by (intros; reflexivity).
  pose proof (strace_keys Hstp Hmax0) as Kp. pose proof (strace_keys Hstc Hmax0) as Kc.
  assert (Mpc : matched raw_p raw_c) by (exact (matched_of_nodes Kp Kc HP Heq)).
  assert (Mcp : matched raw_c raw_p).
  { apply (matched_of_nodes Kc Kp (Permutation_sym HP)). intros N v w Hv Hw. destruct (Heq N w v Hw Hv) as [A B]. split; assumption. }
  (* equivalent sorted heights *)
  assert (Hcnt : forall t, count_le ltb t (map (@s_dis T) lp) = count_le ltb t (map (@s_dis T) lc)).
  { intros t. rewrite <- (count_le_perm ltb t (Permutation_map (@s_dis T) Pp)), <- (count_le_perm ltb t (Permutation_map (@s_dis T) Pc)).
    rewrite <- (node_heights_snd Leaf raw_p), <- (node_heights_snd Leaf raw_c).
    apply count_nh; [rewrite !node_heights_fst; exact HP|exact Heq]. }
  pose proof (@sorted_counts_equiv T ltb ltb_irrefl ltb_negtrans _ _ (strongly_sorted_steps Ssp) (strongly_sorted_steps Ssc) Hcnt) as Heqv.
  destruct (Forall2_nth Heqv) as [Hlen Hnth].
  (* strictness before the square root *)
  assert (Hstrict0 : strictly_lt (map (@s_dis T) lp)).
  { intros i k a b Hik Ha Hb. apply Hrt. apply (Hstrict i k); [exact Hik| |].
    - rewrite heights_sqrt_all, Hhp, nth_error_map, Ha. reflexivity.
    - rewrite heights_sqrt_all, Hhp, nth_error_map, Hb. reflexivity. }
  assert (Llp : length lp = n0 - 1) by (rewrite <- (Permutation_length Pp); exact Hlp).
  assert (Llc : length lc = n0 - 1) by (rewrite <- (Permutation_length Pc); exact Hlc).
  (* the prefix partitions coincide *)
  assert (Hparts : same_parts n0 (d_steps d2p) (d_steps d2c)).
  { intros j x y Hj Hx Hy. destruct j as [|j]; [cbn [labi]; tauto|].
    destruct (nth_error (map (@s_dis T) lp) j) as [t|] eqn:Et; [|apply nth_error_None in Et; rewrite map_length in Et; lia].
    destruct (@cut_of_strict (map (@s_dis T) lp) (map (@s_dis T) lc) j t Hstrict0 Hnth Hlen Et) as [C1 C2].
    rewrite (Hcutsp (S j) x y Hj Hx Hy), (Hcutsc (S j) x y Hj Hx Hy), !add_edges_closure.
    rewrite (@prefix_closure T K t (S j) lp x y C1), (@prefix_closure T K t (S j) lc x y C2).
    split; intros H.
    - apply (@link_perm T K t raw_c lc Pc). apply (link_matched Mpc). apply (@link_perm T K t lp raw_p (Permutation_sym Pp)). exact H.
    - apply (@link_perm T K t raw_p lp Pp). apply (link_matched Mcp). apply (@link_perm T K t lc raw_c (Permutation_sym Pc)). exact H. }
  split.
  - unfold sqrt_all. cbn [d_steps]. rewrite !map_length, (proj1 Wp), (proj1 Wc). reflexivity.
  - intros i t t' Ht Ht'. unfold sqrt_all in Ht, Ht'. cbn [d_steps] in Ht, Ht'. rewrite nth_error_map in Ht, Ht'.
    destruct (nth_error (d_steps d2p) i) as [t0|] eqn:E0; [|discriminate]. destruct (nth_error (d_steps d2c) i) as [t0'|] eqn:E0'; [|discriminate].
    inversion Ht; inversion Ht'; subst t t'. cbn [step_set_dis s_c1 s_c2 s_size s_dis].
    destruct (@dend_unique T n0 (d_steps d2p) (d_steps d2c) Hn Wp Wc Hparts i t0 t0' E0 E0') as (E1 & E2 & E3).
    split; [exact E1|]. split; [exact E2|]. split; [exact E3|].
    exists (s_dis t0), (s_dis t0'). split; [reflexivity|]. split; [reflexivity|].
    apply (Hnth i).
    + rewrite <- Hdisp, nth_error_map, E0. reflexivity.
    + rewrite <- Hdisc, nth_error_map, E0'. reflexivity.
Qed.

End Final.

(* ---- whole runs ---- *)
Section Whole.
Variable T : Type.
Variable K : kops T.
Variable p : profile.
Variable meth : method.
Hypothesis ltb_irrefl : forall a, k_ltb K a a = false.
Hypothesis ltb_trans : forall a b c, k_ltb K a b = true -> k_ltb K b c = true -> k_ltb K a c = true.
Hypothesis ltb_negtrans : forall a b c, k_ltb K a b = false -> k_ltb K b c = false -> k_ltb K a c = false.
Hypothesis eqb_nlt : forall a b, k_eqb K a b = true -> k_ltb K b a = false.
Hypothesis reducible : forall va vb md sa sb sx, size_ok meth sa sb sx ->
  k_ltb K va md = false -> k_ltb K vb md = false ->
  k_ltb K (k_upd K va vb md sa sb sx) va = false \/ k_ltb K (k_upd K va vb md sa sb sx) vb = false.
Variable crit : mtree -> mtree -> T -> Prop.
Hypothesis crit_sym : forall A B v, crit A B v -> crit B A v.
Hypothesis crit_merge : forall X A B va vb md,
  crit X A va -> crit X B vb -> crit A B md ->
  crit X (Node A B) (k_upd K va vb md (tsize A) (tsize B) (if uses_size_x meth then tsize X else 0)).
Hypothesis sizes_irrelevant : uses_sizes_ab meth = false ->
  forall va vb md sa sb sa' sb' sx, k_upd K va vb md sa sb sx = k_upd K va vb md sa' sb' sx.
Hypothesis crit_fun : forall A B v w, crit A B v -> crit A B w -> k_ltb K v w = false /\ k_ltb K w v = false.
Hypothesis sorting : requires_sorting meth = true.

Theorem nnchain_primitive_same_dendrogram s1 d1 s2 d2 m n sp dp mp sc dc mc M0 :
  prologue p (square_all K m) n = Ok M0 -> 1 <= m_obs M0 ->
  (forall x y v, x <> y -> x < m_obs M0 -> y < m_obs M0 -> wcell M0 x y = Some v -> crit (Leaf x) (Leaf y) v) ->
  primitive_with K p meth s1 d1 m n = Ok (sp, dp, mp) ->
  nnchain_with K p meth s2 d2 m n = Ok (sc, dc, mc) ->
  distinct_from K (prim_iter K p meth) 0 (m_obs M0 - 1) (st_reset K s1 (m_obs M0)) (d_reset d1 (m_obs M0)) M0 ->
  distinct_from K (chain_iter K p meth) 0 (m_obs M0 - 1)
    (st_with_chain (st_reset K s2 (m_obs M0)) []) (d_reset d2 (m_obs M0)) M0 ->
  (forall x y, k_ltb K (k_rt K x) (k_rt K y) = true -> k_ltb K x y = true) ->
  strictly_lt K (heights dp) ->
  length (d_steps dp) = length (d_steps dc)
  /\ forall i t t', nth_error (d_steps dp) i = Some t -> nth_error (d_steps dc) i = Some t' ->
       s_c1 t = s_c1 t' /\ s_c2 t = s_c2 t' /\ s_size t = s_size t'
       /\ exists h h', s_dis t = k_rt K h /\ s_dis t' = k_rt K h' /\ eqv (k_ltb K) h h'.
Proof.
  intros HM0 Hn Hleaf Hp Hc HDp HDc Hrt Hstrict.
  destruct (@nnchain_primitive_traces T K p meth ltb_irrefl ltb_trans ltb_negtrans reducible crit crit_sym crit_merge sizes_irrelevant crit_fun
              s1 d1 s2 d2 m n sp dp mp sc dc mc M0 HM0 Hn Hleaf Hp Hc HDp HDc) as (raw_p & raw_c & Tp & Tc & HP & Heq).
  exact (@same_dendrogram_of_traces T K meth ltb_irrefl ltb_trans ltb_negtrans eqb_nlt crit sorting (m_obs M0) dp dc raw_p raw_c Hn Tp Tc HP Heq Hrt Hstrict).
Qed.

End Whole.
