(* C06 (part): nnchain_with and primitive_with build THE SAME hierarchy at the
   same heights on tie-free inputs.

   nnchain does not merge in the greedy order, so there is no step-by-step
   simulation.  Instead both runs are read as maximal sequences of merges of
   STRICT reciprocal nearest neighbours over merge trees (RnnConfluence.v), for
   a criterion `crit` that the working matrices of both runs realise
   (LWInvariant) and that is reducible; all such sequences create the same
   nodes.  Tie-freeness: at every iteration of either run the cells between
   live clusters are pairwise distinct. *)
Require Import KV.Model.Prelude KV.Model.Condensed KV.Model.Active KV.Model.Heap
  KV.Model.UnionFind KV.Model.Dendrogram KV.Model.Methods KV.Model.State KV.Model.Primitive KV.Model.Chain
  KV.Proofs.ResetCanon KV.Proofs.ActiveRefine KV.Proofs.CondensedIdx KV.Proofs.SortProofs KV.Proofs.Monotone
  KV.Proofs.MstCost KV.Proofs.Shape KV.Proofs.PrimitiveGreedy KV.Proofs.Forest KV.Proofs.UnionFindInv
  KV.Proofs.RelabelWF KV.Proofs.PrimitiveWF KV.Proofs.PrimitiveTotal KV.Proofs.UpdateSpec KV.Proofs.ShapeCheck
  KV.Proofs.LWInvariant KV.Proofs.ChainInv KV.Proofs.ChainIter KV.Proofs.ChainCriterion KV.Proofs.GenericInv KV.Proofs.AgreePG
  KV.Proofs.RnnConfluence.
From Coq Require Import Permutation.

Set Implicit Arguments.

Section AgreeChain.
Variable T : Type.
Variable K : kops T.
Variable p : profile.
Variable meth : method.
Hypothesis ltb_irrefl : forall a, k_ltb K a a = false.
Hypothesis ltb_trans : forall a b c, k_ltb K a b = true -> k_ltb K b c = true -> k_ltb K a c = true.
Hypothesis ltb_negtrans : forall a b c, k_ltb K a b = false -> k_ltb K b c = false -> k_ltb K a c = false.
Hypothesis reducible : forall va vb md sa sb sx, size_ok meth sa sb sx ->
  k_ltb K va md = false -> k_ltb K vb md = false ->
  k_ltb K (k_upd K va vb md sa sb sx) va = false \/ k_ltb K (k_upd K va vb md sa sb sx) vb = false.

Variable crit : mtree -> mtree -> T -> Prop.
Hypothesis crit_sym : forall A B v, crit A B v -> crit B A v.
Hypothesis crit_merge : forall X A B va vb md,
  crit X A va -> crit X B vb -> crit A B md ->
  crit X (Node A B) (k_upd K va vb md (tsize A) (tsize B) (if uses_size_x meth then tsize X else 0)).
Hypothesis sizes_irrelevant : uses_sizes_ab meth = false ->
  forall va vb md sa sb sa' sb' sx, k_upd K va vb md sa sb sx = k_upd K va vb md sa' sb' sx.
(* the criterion is a function of the two trees, up to order-equivalence *)
Hypothesis crit_fun : forall A B v w, crit A B v -> crit A B w -> k_ltb K v w = false /\ k_ltb K w v = false.

Notation ltb := (k_ltb K).

Lemma tsz_pos A : 0 < tsize A.
Proof. induction A; cbn [tsize]; lia. Qed.

Lemma asym a b : ltb a b = true -> ltb b a = false.
Proof.
  intros H. destruct (ltb b a) eqn:C; [|reflexivity].
  pose proof (@ltb_trans _ _ _ H C) as F. rewrite ltb_irrefl in F. discriminate.
Qed.

(* the tree-level hypotheses of RnnConfluence *)
Lemma crit_node_ X A B va vb md : crit X A va -> crit X B vb -> crit A B md -> exists w, crit X (Node A B) w.
Proof. intros H1 H2 H3. eexists. exact (crit_merge H1 H2 H3). Qed.

Lemma crit_reducible_ X A B va vb md w :
  crit X A va -> crit X B vb -> crit A B md -> crit X (Node A B) w ->
  ltb md va = true -> ltb md vb = true -> ltb w va = false \/ ltb w vb = false.
Proof.
  intros H1 H2 H3 Hw La Lb.
  pose proof (crit_merge H1 H2 H3) as Hu.
  destruct (crit_fun Hw Hu) as [E1 _].
  destruct (@reducible va vb md (tsize A) (tsize B) (if uses_size_x meth then tsize X else 0)) as [R|R].
  - split; [intros _; split; apply tsz_pos|]. intros U. rewrite U. apply tsz_pos.
  - exact (@asym _ _ La).
  - exact (@asym _ _ Lb).
  - left. exact (@ltb_negtrans _ _ _ E1 R).
  - right. exact (@ltb_negtrans _ _ _ E1 R).
Qed.

(* ---- tie-freeness ---- *)
Definition all_distinct (M : cmat T) (L : list nat) : Prop :=
  forall x y x' y' v w, In x L -> In y L -> x <> y -> In x' L -> In y' L -> x' <> y' ->
    ~ (x = x' /\ y = y') -> ~ (x = y' /\ y = x') ->
    wcell M x y = Some v -> wcell M x' y' = Some w -> ltb v w = true \/ ltb w v = true.

Definition distinct_from (iter : lstate T * dend T * cmat T -> nat -> res (lstate T * dend T * cmat T))
  (i k : nat) (s : lstate T) (d : dend T) (M : cmat T) : Prop :=
  forall j s' d' M' L', j < k -> mfold iter (seq i j) (s, d, M) = Ok (s', d', M') ->
    AInv (st_active s') L' -> all_distinct M' L'.

Lemma distinct_from_step iter i k s d M s1 d1 M1 :
  distinct_from iter i (S k) s d M -> iter (s, d, M) i = Ok (s1, d1, M1) -> distinct_from iter (S i) k s1 d1 M1.
Proof.
  intros H E j s' d' M' L' Hj Hrun HA. apply (H (S j) s' d' M' L' ltac:(lia)); [|exact HA].
  cbn [seq mfold]. rewrite E. cbn [bind]. exact Hrun.
Qed.

(* ---- strict-RNN traces at slot level ---- *)
Inductive strace : list nat -> (nat -> mtree) -> list (step T) -> Prop :=
| s_nil L mem : strace L mem []
| s_cons L mem a b v sz rest : In a L -> In b L -> a < b ->
    crit (mem a) (mem b) v ->
    (forall x, In x L -> x <> a -> x <> b ->
       exists wa wb, crit (mem a) (mem x) wa /\ crit (mem b) (mem x) wb /\ ltb v wa = true /\ ltb v wb = true) ->
    strace (without a L) (upd_mem mem a b) rest ->
    strace L mem (step_new a b v sz :: rest).

(* one merge of a pair that is a (weak) RNN pair of a tie-free working matrix *)
Lemma strict_of_weak s M L mem a b v :
  LWInv crit s M L mem -> all_distinct M L -> In a L -> In b L -> a < b -> wcell M a b = Some v ->
  (forall x w, In x L -> x <> a -> x <> b -> (wcell M x a = Some w \/ wcell M x b = Some w) -> ltb w v = false) ->
  forall x, In x L -> x <> a -> x <> b ->
    exists wa wb, crit (mem a) (mem x) wa /\ crit (mem b) (mem x) wb /\ ltb v wa = true /\ ltb v wb = true.
Proof.
  intros (HW & _) HD Ha Hb Hab Hv Hfar x Hx Hxa Hxb.
  destruct (HW a x Ha Hx ltac:(congruence)) as (wa & Ca & Cra).
  destruct (HW b x Hb Hx ltac:(congruence)) as (wb & Cb & Crb).
  exists wa, wb. split; [exact Cra|]. split; [exact Crb|].
  assert (Ca' : wcell M x a = Some wa) by (rewrite wcell_sym; exact Ca).
  assert (Cb' : wcell M x b = Some wb) by (rewrite wcell_sym; exact Cb).
  pose proof (Hfar x wa Hx Hxa Hxb (or_introl Ca')) as Fa.
  pose proof (Hfar x wb Hx Hxa Hxb (or_intror Cb')) as Fb.
  split.
  - destruct (HD a b a x v wa Ha Hb ltac:(lia) Ha Hx ltac:(congruence) ltac:(intros [_ E]; congruence) ltac:(intros [E _]; congruence) Hv Ca) as [H|H];
      [exact H|congruence].
  - destruct (HD a b b x v wb Ha Hb ltac:(lia) Hb Hx ltac:(congruence) ltac:(intros [E _]; lia) ltac:(intros [E1 E2]; congruence) Hv Cb) as [H|H];
      [exact H|congruence].
Qed.

Lemma wcell_minmax_ (M : cmat T) x y : wcell M (Nat.min x y) (Nat.max x y) = wcell M x y.
Proof.
  unfold wcell. destruct (Nat.le_ge_cases x y).
  - rewrite (Nat.min_l x y), (Nat.max_r x y) by lia. rewrite Nat.min_l, Nat.max_r by lia. reflexivity.
  - rewrite (Nat.min_r x y), (Nat.max_l x y) by lia. rewrite Nat.min_l, Nat.max_r by lia. reflexivity.
Qed.

(* ---- the primitive loop as a strict trace ---- *)
Lemma prim_fold_strace : forall (k : nat) i s d M L mem s' d' M',
  PInv s M L -> LWInv crit s M L mem -> distinct_from (prim_iter K p meth) i k s d M ->
  mfold (prim_iter K p meth) (seq i k) (s, d, M) = Ok (s', d', M') ->
  exists news, d_steps d' = d_steps d ++ news /\ length news = k /\ strace L mem news.
Proof.
  induction k as [|k IH]; intros i s d M L mem s' d' M' HP HW HD H; cbn [seq mfold] in H.
  - inversion H; subst. exists []. rewrite app_nil_r. split; [reflexivity|]. split; [reflexivity|constructor].
  - destruct (prim_iter K p meth (s, d, M) i) as [[[s1 d1] M1]| |] eqn:E; cbn [bind] in H; try discriminate.
    destruct (@prim_iter_facts T K p meth ltb_irrefl ltb_trans sizes_irrelevant s d M i s1 d1 M1 L HP E)
      as (a & b & v & za & zb & Ha & Hb & Hab & Hv & Hmin & Hza & Hzb & Hsteps & Hobs & HP1 & Hmf).
    destruct (@lw_step T K meth crit crit_sym crit_merge sizes_irrelevant s s1 M M1 L mem a b v HW Hmf Ha Hb Hab) as [Hc HW1].
    assert (HD0 : all_distinct M L) by (apply (HD 0 s d M L ltac:(lia) eq_refl); exact (proj1 HP)).
    assert (Hfar : forall x w, In x L -> x <> a -> x <> b -> (wcell M x a = Some w \/ wcell M x b = Some w) -> ltb w v = false).
    { intros x w Hx Hxa Hxb [Hw|Hw].
      - rewrite <- wcell_minmax_ in Hw. apply (Hmin (Nat.min x a) (Nat.max x a) w); [| |lia|exact Hw].
        + destruct (Nat.min_spec x a) as [[_ ->]|[_ ->]]; assumption.
        + destruct (Nat.max_spec x a) as [[_ ->]|[_ ->]]; assumption.
      - rewrite <- wcell_minmax_ in Hw. apply (Hmin (Nat.min x b) (Nat.max x b) w); [| |lia|exact Hw].
        + destruct (Nat.min_spec x b) as [[_ ->]|[_ ->]]; assumption.
        + destruct (Nat.max_spec x b) as [[_ ->]|[_ ->]]; assumption. }
    pose proof (@strict_of_weak s M L mem a b v HW HD0 Ha Hb Hab Hv Hfar) as Hstrict.
    destruct (IH (S i) s1 d1 M1 (without a L) (upd_mem mem a b) s' d' M' HP1 HW1 (distinct_from_step HD E) H)
      as (news & Hs' & Hln & Hst).
    exists (step_new a b v (za + zb) :: news).
    split; [rewrite Hs', Hsteps, <- app_assoc; reflexivity|]. split; [cbn [length]; rewrite Hln; reflexivity|].
    apply s_cons; assumption.
Qed.

(* ---- the nnchain loop as a strict trace ---- *)
Lemma chain_fold_strace n0 : forall (k : nat) i s d M L mem,
  NInv K n0 s d M L -> LWInv crit s M L mem -> S k <= length L ->
  distinct_from (chain_iter K p meth) i k s d M ->
  exists s' d' M' news,
    mfold (chain_iter K p meth) (seq i k) (s, d, M) = Ok (s', d', M')
    /\ d_steps d' = d_steps d ++ news /\ length news = k /\ strace L mem news.
Proof.
  induction k as [|k IH]; intros i s d M L mem HI HW Hk HD.
  - exists s, d, M, []. split; [reflexivity|]. rewrite app_nil_r. split; [reflexivity|]. split; [reflexivity|constructor].
  - cbn [seq mfold].
    destruct (@chain_iter_step_ext T K p meth ltb_irrefl ltb_trans ltb_negtrans reducible n0 s d M L i HI ltac:(lia))
      as (s1 & d1 & M1 & a & b & v & sz & Hstep & Ha & Hb & Hab & Hsteps & HI1 & Hmf & Hfar).
    rewrite Hstep. cbn [bind].
    destruct (@lw_step T K meth crit crit_sym crit_merge sizes_irrelevant s s1 M M1 L mem a b v HW Hmf Ha Hb Hab) as [Hc HW1].
    assert (HD0 : all_distinct M L) by (apply (HD 0 s d M L ltac:(lia) eq_refl); exact (proj1 HI)).
    pose proof (@strict_of_weak s M L mem a b v HW HD0 Ha Hb Hab (proj1 Hmf) Hfar) as Hstrict.
    pose proof HI as (_ & _ & _ & _ & Hnd & _).
    pose proof (without_length a Hnd Ha) as Hwl.
    destruct (IH (S i) s1 d1 M1 (without a L) (upd_mem mem a b) HI1 HW1 ltac:(lia) (distinct_from_step HD Hstep))
      as (s' & d' & M' & news & Hf & Hs' & Hln & Hst).
    exists s', d', M', (step_new a b v sz :: news).
    split; [exact Hf|]. split; [rewrite Hs', Hsteps, <- app_assoc; reflexivity|].
    split; [cbn [length]; rewrite Hln; reflexivity|]. apply s_cons; assumption.
Qed.

(* ---- from slot-level strict traces to tree-level strict-RNN sequences ---- *)
Fixpoint nodes_of (mem : nat -> mtree) (raw : list (step T)) : list mtree :=
  match raw with
  | [] => []
  | st :: rest => Node (mem (s_c1 st)) (mem (s_c2 st)) :: nodes_of (upd_mem mem (s_c1 st) (s_c2 st)) rest
  end.

Definition TInv (L : list nat) (mem : nat -> mtree) : Prop :=
  NoDup L /\ (forall x, In x L -> maxleaf (mem x) = x) /\ SInv crit (map mem L).

Lemma nodup_map_inj {A B} (f : A -> B) (l : list A) :
  NoDup l -> (forall x y, In x l -> In y l -> f x = f y -> x = y) -> NoDup (map f l).
Proof.
  induction 1 as [|a l Hn Hnd IH]; intros Hinj; cbn [map]; [constructor|].
  constructor.
  - intros Hi. apply in_map_iff in Hi. destruct Hi as (y & E & Hy).
    assert (y = a) by (apply Hinj; [right; exact Hy|left; reflexivity|exact E]). subst y. contradiction.
  - apply IH. intros x y Hx Hy. apply Hinj; right; assumption.
Qed.

Lemma step_new_c (a b : nat) (v : T) sz : a < b -> s_c1 (step_new a b v sz) = a /\ s_c2 (step_new a b v sz) = b.
Proof. intros H. unfold step_new. destruct (Nat.ltb_spec b a); [lia|]. split; reflexivity. Qed.

Lemma tinv_step L mem a b : TInv L mem -> In a L -> In b L -> a < b -> srnn ltb crit (map mem L) (mem a) (mem b) ->
  mk (mem a) (mem b) = Node (mem a) (mem b)
  /\ Permutation (map (upd_mem mem a b) (without a L)) (after (mem a) (mem b) (map mem L))
  /\ TInv (without a L) (upd_mem mem a b).
Proof.
  intros (Hnd & Hmax & HS) Ha Hb Hab Hs.
  assert (Hmk : mk (mem a) (mem b) = Node (mem a) (mem b)).
  { unfold mk. rewrite (Hmax a Ha), (Hmax b Hb). destruct (Nat.ltb_spec a b); [reflexivity|lia]. }
  assert (Hmax1 : forall x, In x (without a L) -> maxleaf (upd_mem mem a b x) = x).
  { intros x Hx. apply without_In in Hx. destruct Hx as [Hx Hxa]. unfold upd_mem.
    destruct (Nat.eqb_spec x b) as [->|Hxb]; [cbn [maxleaf]; rewrite (Hmax a Ha), (Hmax b Hb); lia|exact (Hmax x Hx)]. }
  assert (Hnd1 : NoDup (without a L)) by (apply NoDup_filter; exact Hnd).
  pose proof (@sinv_after T ltb crit crit_sym crit_node_ _ _ _ HS Hs) as HS1.
  assert (HP : Permutation (map (upd_mem mem a b) (without a L)) (after (mem a) (mem b) (map mem L))).
  { apply NoDup_Permutation.
    - apply nodup_map_inj; [exact Hnd1|]. intros x y Hx Hy E.
      rewrite <- (Hmax1 x Hx), <- (Hmax1 y Hy), E. reflexivity.
    - exact (sinv_nodup HS1).
    - intros X. unfold after. cbn [In]. rewrite in_rem, !in_map_iff. split.
      + intros (x & <- & Hx). apply without_In in Hx. destruct Hx as [Hx Hxa]. unfold upd_mem.
        destruct (Nat.eqb_spec x b) as [->|Hxb]; [left; exact Hmk|].
        right. split; [exists x; split; [reflexivity|exact Hx]|].
        split; intros E; apply (f_equal maxleaf) in E; rewrite (Hmax x Hx) in E;
          [rewrite (Hmax a Ha) in E|rewrite (Hmax b Hb) in E]; congruence.
      + intros [E|((x & <- & Hx) & N1 & N2)].
        * exists b. split; [unfold upd_mem; rewrite Nat.eqb_refl; rewrite <- E; symmetry; exact Hmk|apply without_In; split; [exact Hb|lia]].
        * assert (x <> a) by (intros ->; apply N1; reflexivity).
          assert (x <> b) by (intros ->; apply N2; reflexivity).
          exists x. split; [unfold upd_mem; destruct (Nat.eqb_spec x b); [contradiction|reflexivity]|].
          apply without_In. split; assumption. }
  split; [exact Hmk|]. split; [exact HP|].
  split; [exact Hnd1|]. split; [exact Hmax1|]. exact (sinv_perm (Permutation_sym HP) HS1).
Qed.

Lemma strace_rseq : forall L mem raw, strace L mem raw -> TInv L mem -> length raw + 1 = length L ->
  rseq ltb crit (map mem L) (nodes_of mem raw).
Proof.
  intros L mem raw H. induction H as [L mem|L mem a b v sz rest Ha Hb Hab Hc Hfar Hst IH]; intros HT Hlen.
  - cbn [nodes_of]. apply rs_done. rewrite map_length. cbn [length] in Hlen. lia.
  - destruct (step_new_c v sz Hab) as [E1 E2]. cbn [nodes_of]. rewrite E1, E2.
    pose proof HT as (Hnd & Hmax & HS).
    assert (Hs : srnn ltb crit (map mem L) (mem a) (mem b)).
    { split; [apply in_map; exact Ha|]. split; [apply in_map; exact Hb|].
      split; [intros E; apply (f_equal maxleaf) in E; rewrite (Hmax a Ha), (Hmax b Hb) in E; lia|].
      exists v. split; [exact Hc|].
      intros X w HX NA NB Hw. apply in_map_iff in HX. destruct HX as (x & <- & Hx).
      assert (x <> a) by (intros ->; apply NA; reflexivity).
      assert (x <> b) by (intros ->; apply NB; reflexivity).
      destruct (Hfar x Hx ltac:(assumption) ltac:(assumption)) as (wa & wb & Ca & Cb & La & Lb).
      destruct Hw as [Hw|Hw].
      - destruct (crit_fun Ca Hw) as [_ F]. exact (@lt_le_trans T ltb ltb_negtrans _ _ _ La F).
      - destruct (crit_fun Cb Hw) as [_ F]. exact (@lt_le_trans T ltb ltb_negtrans _ _ _ Lb F). }
    destruct (tinv_step HT Ha Hb Hab Hs) as (Hmk & HP & HT1).
    rewrite <- Hmk. apply rs_step with (S' := map (upd_mem mem a b) (without a L)); [exact Hs|exact HP|].
    apply IH; [exact HT1|]. cbn [length] in Hlen.
    pose proof (without_length a Hnd Ha). lia.
Qed.

(* every node of a strict trace carries the criterion of its two children *)
Fixpoint node_heights (mem : nat -> mtree) (raw : list (step T)) : list (mtree * T) :=
  match raw with
  | [] => []
  | st :: rest => (Node (mem (s_c1 st)) (mem (s_c2 st)), s_dis st) :: node_heights (upd_mem mem (s_c1 st) (s_c2 st)) rest
  end.

Lemma node_heights_fst mem raw : map fst (node_heights mem raw) = nodes_of mem raw.
Proof. revert mem. induction raw as [|st rest IH]; intros mem; cbn; [reflexivity|]. rewrite IH. reflexivity. Qed.

Lemma strace_heights : forall L mem raw, strace L mem raw ->
  Forall (fun nv => exists A B, fst nv = Node A B /\ crit A B (snd nv)) (node_heights mem raw).
Proof.
  intros L mem raw H. induction H as [L mem|L mem a b v sz rest Ha Hb Hab Hc Hfar Hst IH]; cbn [node_heights]; [constructor|].
  destruct (step_new_c v sz Hab) as [E1 E2]. rewrite E1, E2. constructor; [|exact IH].
  exists (mem a), (mem b). split; [reflexivity|]. cbn [snd]. unfold step_new. destruct (b <? a); exact Hc.
Qed.

(* ---- whole runs ---- *)
Lemma flat_leaves_leaf (l : list nat) : flat_map leaves (map Leaf l) = l.
Proof. induction l as [|x l IH]; cbn; [reflexivity|]. rewrite IH. reflexivity. Qed.

Lemma final_heights (d1 : dend T) (news : list (step T)) (u u' : ufind) (d2 : dend T) :
  d_steps d1 = news ->
  relabel (k_ltb K) (k_eqb K) u d1 (requires_sorting meth) = Ok (u', d2) ->
  Permutation (heights (sqrt_all K d2)) (map (k_rt K) (map (@s_dis T) news)).
Proof.
  intros Hs E. assert (Hh1 : heights d1 = map (@s_dis T) news) by (unfold heights; rewrite Hs; reflexivity).
  rewrite heights_sqrt_all.
  destruct (requires_sorting meth) eqn:Hsort.
  - destruct (@relabel_heights T (k_ltb K) (k_eqb K) _ _ _ _ _ E) as [_ (l & Hl0 & Hh)].
    destruct (@sort_steps_ok T (k_ltb K) (k_eqb K) (@gt_flip T K) _ _ Hl0) as [_ Hperm].
    rewrite Hh, <- Hh1. apply Permutation_map. unfold heights.
    apply Permutation_map. apply Permutation_sym. exact Hperm.
  - pose proof (proj2 (@relabel_heights T (k_ltb K) (k_eqb K) _ _ _ _ _ E)) as Hh. cbn beta iota in Hh.
    rewrite Hh, Hh1. apply Permutation_refl.
Qed.

Lemma finv_init_ (d : dend T) n0 : FInv n0 (d_reset d n0) (seq 0 n0).
Proof.
  unfold FInv. cbn [d_reset d_obs d_steps edges map all_nontrivial add_edges length].
  split; [reflexivity|]. split; [intros x Hx; apply in_seq in Hx; lia|]. split; [intros st []|].
  split; [exact I|]. split; [intros x y _ _ Hxy Heq; exact (Hxy Heq)|rewrite seq_length; reflexivity].
Qed.

(* what a run establishes before its final relabel pass *)
Definition run_trace (n0 : nat) (dfinal : dend T) (raw : list (step T)) : Prop :=
  exists (u u' : ufind) (d1 d2 : dend T),
    d_steps d1 = raw /\ length raw = n0 - 1 /\ strace (seq 0 n0) Leaf raw
    /\ (exists L, FInv n0 d1 L)
    /\ relabel (k_ltb K) (k_eqb K) u d1 (requires_sorting meth) = Ok (u', d2) /\ dfinal = sqrt_all K d2.

Theorem nnchain_primitive_traces s1 d1 s2 d2 m n sp dp mp sc dc mc M0 :
  prologue p (square_all K m) n = Ok M0 -> 1 <= m_obs M0 ->
  (forall x y v, x <> y -> x < m_obs M0 -> y < m_obs M0 -> wcell M0 x y = Some v -> crit (Leaf x) (Leaf y) v) ->
  primitive_with K p meth s1 d1 m n = Ok (sp, dp, mp) ->
  nnchain_with K p meth s2 d2 m n = Ok (sc, dc, mc) ->
  distinct_from (prim_iter K p meth) 0 (m_obs M0 - 1) (st_reset K s1 (m_obs M0)) (d_reset d1 (m_obs M0)) M0 ->
  distinct_from (chain_iter K p meth) 0 (m_obs M0 - 1)
    (st_with_chain (st_reset K s2 (m_obs M0)) []) (d_reset d2 (m_obs M0)) M0 ->
  exists raw_p raw_c,
    run_trace (m_obs M0) dp raw_p /\ run_trace (m_obs M0) dc raw_c
    /\ Permutation (nodes_of Leaf raw_p) (nodes_of Leaf raw_c)
    /\ (forall N v w, In (N, v) (node_heights Leaf raw_p) -> In (N, w) (node_heights Leaf raw_c) ->
          ltb v w = false /\ ltb w v = false).
Proof.
  intros HM0 Hn1 Hleaf Hp Hc HDp HDc.
  unfold primitive_with in Hp. unfold nnchain_with in Hc. rewrite HM0 in Hp, Hc. cbn [bind] in Hp, Hc.
  destruct (Nat.eqb_spec (m_obs M0) 0) as [Hz|Hz]; [lia|].
  destruct (prologue_wf _ _ _ HM0) as [Hwf _].
  set (n0 := m_obs M0) in *.
  (* initial invariants *)
  assert (HI0 : NInv K n0 (st_with_chain (st_reset K s2 n0) []) (d_reset d2 n0) M0 (seq 0 n0)).
  { unfold NInv. cbn [st_with_chain st_reset st_active st_sizes st_chain d_reset d_obs d_steps length].
    split; [apply a_reset_inv|]. split; [exact Hwf|]. split; [reflexivity|].
    split; [rewrite a_reset_canonical; cbn; rewrite map_length, seq_length; reflexivity|].
    split; [apply seq_NoDup|]. unfold clear_resize. split; [rewrite vresize_length; reflexivity|].
    split.
    { intros x Hx. apply in_seq in Hx. exists 1. split; [|lia]. unfold vresize. rewrite firstn_nil. cbn [length app].
      rewrite Nat.sub_0_r. apply nth_error_repeat. lia. }
    split; [reflexivity|]. split; [rewrite seq_length; reflexivity|].
    exists [], []. split; [reflexivity|]. split; [right; split; reflexivity|constructor]. }
  assert (HWc : forall s0, (forall x, x < n0 -> nth_error (st_sizes s0) x = Some 1) -> LWInv crit s0 M0 (seq 0 n0) Leaf).
  { intros s0 Es. split.
    - intros x y Hx Hy Hxy. apply in_seq in Hx. apply in_seq in Hy.
      destruct (@wcell_some T p M0 x y Hwf Hxy ltac:(lia) ltac:(lia)) as (v & Hv).
      exists v. split; [exact Hv|]. apply Hleaf; [exact Hxy|lia|lia|exact Hv].
    - intros x Hx. apply in_seq in Hx. cbn [tsize]. apply Es. lia. }
  assert (HW0c : LWInv crit (st_with_chain (st_reset K s2 n0) []) M0 (seq 0 n0) Leaf).
  { apply HWc. intros x Hx. cbn [st_with_chain st_reset st_sizes]. unfold clear_resize, vresize.
    rewrite firstn_nil. cbn [length app]. rewrite Nat.sub_0_r. apply nth_error_repeat. exact Hx. }
  assert (HW0p : LWInv crit (st_reset K s1 n0) M0 (seq 0 n0) Leaf).
  { apply HWc. intros x Hx. cbn [st_reset st_sizes]. unfold clear_resize, vresize.
    rewrite firstn_nil. cbn [length app]. rewrite Nat.sub_0_r. apply nth_error_repeat. exact Hx. }
  assert (HT0 : TInv (seq 0 n0) Leaf).
  { split; [apply seq_NoDup|]. split; [intros x _; reflexivity|]. split.
    - rewrite flat_leaves_leaf. apply seq_NoDup.
    - intros X Y HX HY Hxy. apply in_map_iff in HX. apply in_map_iff in HY.
      destruct HX as (x & <- & Hx), HY as (y & <- & Hy). apply in_seq in Hx. apply in_seq in Hy.
      assert (x <> y) by congruence.
      destruct (@wcell_some T p M0 x y Hwf ltac:(assumption) ltac:(lia) ltac:(lia)) as (v & Hv).
      exists v. apply Hleaf; [assumption|lia|lia|exact Hv]. }
  (* primitive *)
  destruct (mfold (prim_iter K p meth) (seq 0 (n0 - 1)) (st_reset K s1 n0, d_reset d1 n0, M0)) as [[[sp1 dp1] Mp1]| |] eqn:Fp;
    cbn [bind] in Hp; try discriminate.
  destruct (@prim_fold_strace (n0 - 1) 0 _ _ _ _ _ _ _ _ (@prim_init T K s1 M0 Hwf) HW0p HDp Fp) as (raw_p & Hsp & Hlp & Hstp).
  destruct (@prim_fold_forest T K p ltb_trans ltb_irrefl meth n0 _ _ _ _ _ _ _ _ (@prim_init T K s1 M0 Hwf) (finv_init_ d1 n0) (seq_NoDup _ _) Fp)
    as (Lp & HFp & _).
  (* nnchain *)
  destruct (@chain_fold_strace n0 (n0 - 1) 0 _ _ _ _ _ HI0 HW0c ltac:(rewrite seq_length; lia) HDc)
    as (sc1 & dc1 & Mc1 & raw_c & Fc & Hsc & Hlc & Hstc).
  destruct (@chain_fold_progress T K p meth ltb_irrefl ltb_trans ltb_negtrans reducible n0 (n0 - 1) 0 _ _ _ _ HI0 (finv_init_ d2 n0)
              ltac:(rewrite seq_length; lia)) as (sc1' & dc1' & Mc1' & Lc & Fc' & _ & HFc & _).
  rewrite Fc in Fc'. inversion Fc'; subst sc1' dc1' Mc1'. clear Fc'.
  rewrite Fc in Hc. cbn [bind] in Hc.
  cbn [d_reset d_steps app] in Hsp, Hsc.
  exists raw_p, raw_c.
  bind_inv Hp. destruct a as [up dp2]. bind_inv Hc. destruct a as [uc dc2]. inversion Hp; inversion Hc; subst dp dc.
  split; [exists (st_set sp1), up, dp1, dp2; split; [exact Hsp|]; split; [exact Hlp|]; split; [exact Hstp|];
          split; [exists Lp; exact HFp|]; split; [exact E|reflexivity]|].
  split; [exists (st_set sc1), uc, dc1, dc2; split; [exact Hsc|]; split; [exact Hlc|]; split; [exact Hstc|];
          split; [exists Lc; exact HFc|]; split; [exact E0|reflexivity]|].
  assert (Hlen : forall raw : list (step T), length raw = n0 - 1 -> length raw + 1 = length (seq 0 n0)) by (intros raw Hr; rewrite seq_length; lia).
  pose proof (strace_rseq Hstp HT0 (Hlen _ Hlp)) as Rp.
  pose proof (strace_rseq Hstc HT0 (Hlen _ Hlc)) as Rc.
  assert (Hperm : Permutation (nodes_of Leaf raw_p) (nodes_of Leaf raw_c)).
  { exact (@rnn_confluence T ltb ltb_irrefl ltb_trans ltb_negtrans crit crit_sym crit_node_ crit_reducible_
             (map Leaf (seq 0 n0)) (nodes_of Leaf raw_c) Rc (proj2 (proj2 HT0)) (nodes_of Leaf raw_p) Rp). }
  split; [exact Hperm|].
  intros N v w Hv Hw.
  pose proof (strace_heights Hstp) as Fp'. pose proof (strace_heights Hstc) as Fc'. rewrite Forall_forall in Fp', Fc'.
  destruct (Fp' (N, v) Hv) as (A & B & EN & Cv). destruct (Fc' (N, w) Hw) as (A' & B' & EN' & Cw).
  cbn [fst snd] in *. rewrite EN in EN'. inversion EN'; subst A' B'. exact (crit_fun Cv Cw).
Qed.

Theorem nnchain_primitive_same_hierarchy s1 d1 s2 d2 m n sp dp mp sc dc mc M0 :
  prologue p (square_all K m) n = Ok M0 ->
  (forall x y v, x <> y -> x < m_obs M0 -> y < m_obs M0 -> wcell M0 x y = Some v -> crit (Leaf x) (Leaf y) v) ->
  primitive_with K p meth s1 d1 m n = Ok (sp, dp, mp) ->
  nnchain_with K p meth s2 d2 m n = Ok (sc, dc, mc) ->
  distinct_from (prim_iter K p meth) 0 (m_obs M0 - 1) (st_reset K s1 (m_obs M0)) (d_reset d1 (m_obs M0)) M0 ->
  distinct_from (chain_iter K p meth) 0 (m_obs M0 - 1)
    (st_with_chain (st_reset K s2 (m_obs M0)) []) (d_reset d2 (m_obs M0)) M0 ->
  exists raw_p raw_c,
    length raw_p = m_obs M0 - 1 /\ length raw_c = m_obs M0 - 1
    /\ Permutation (heights dp) (map (k_rt K) (map (@s_dis T) raw_p))
    /\ Permutation (heights dc) (map (k_rt K) (map (@s_dis T) raw_c))
    /\ Permutation (nodes_of Leaf raw_p) (nodes_of Leaf raw_c)
    /\ (forall N v w, In (N, v) (node_heights Leaf raw_p) -> In (N, w) (node_heights Leaf raw_c) ->
          ltb v w = false /\ ltb w v = false).
Proof.
  intros HM0 Hleaf Hp Hc HDp HDc.
  destruct (Nat.eqb_spec (m_obs M0) 0) as [Hz|Hz].
  - unfold primitive_with in Hp. unfold nnchain_with in Hc. rewrite HM0 in Hp, Hc. cbn [bind] in Hp, Hc.
    destruct (Nat.eqb_spec (m_obs M0) 0) as [_|Hne]; [|contradiction].
    inversion Hp; inversion Hc; subst. exists [], []. rewrite Hz. cbn.
    split; [reflexivity|]. split; [reflexivity|]. split; [constructor|]. split; [constructor|]. split; [constructor|].
    intros N v w [].
  - destruct (@nnchain_primitive_traces s1 d1 s2 d2 m n sp dp mp sc dc mc M0 HM0 ltac:(lia) Hleaf Hp Hc HDp HDc)
      as (raw_p & raw_c & (up & up' & dp1 & dp2 & Hsp & Hlp & _ & _ & Ep & ->) & (uc & uc' & dc1 & dc2 & Hsc & Hlc & _ & _ & Ec & ->) & Hperm & Hh).
    exists raw_p, raw_c. split; [exact Hlp|]. split; [exact Hlc|].
    split; [exact (@final_heights _ _ _ _ _ Hsp Ep)|]. split; [exact (@final_heights _ _ _ _ _ Hsc Ec)|].
    split; [exact Hperm|exact Hh].
Qed.

End AgreeChain.
