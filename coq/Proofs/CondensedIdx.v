(* C07: the condensed index expression is the position in the row-major
   enumeration; it is a bijection; the 64-bit wrapping evaluation equals the
   mathematical one for n < 2^32. *)
Require Import KV.Model.Prelude KV.Model.Condensed KV.Spec.Pairs.
From Coq Require Import FinFun.

(* number of pairs in rows 0..r-1 *)
Fixpoint off (n r : nat) : nat :=
  match r with O => 0 | S r' => off n r' + (n - 1 - r') end.

Lemma off_closed n r : r <= n -> 2 * off n r = (2 * n - r - 1) * r.
Proof.
  induction r as [|r IH]; intros Hr; [simpl; lia|].
  cbn [off]. specialize (IH ltac:(lia)). nia.
Qed.

Lemma off_mono n a b : a <= b -> off n a <= off n b.
Proof.
  induction 1 as [|b Hab IH]; [lia|]. cbn [off]. lia.
Qed.

Lemma cidx_nat_off n r c : r < c -> c < n -> cidx_nat n r c = off n r + (c - r - 1).
Proof.
  intros Hrc Hcn. unfold cidx_nat.
  assert (H2 : (2 * n - r - 3) * r / 2 + r = off n r).
  { rewrite <- Nat.div_add by lia.
    replace ((2 * n - r - 3) * r + r * 2) with ((2 * n - r - 1) * r) by nia.
    rewrite <- off_closed by lia. rewrite Nat.mul_comm, Nat.div_mul by lia. reflexivity. }
  lia.
Qed.

Lemma row_pairs_length n r : length (row_pairs n r) = n - 1 - r.
Proof. unfold row_pairs. rewrite map_length, seq_length. reflexivity. Qed.

Lemma row_pairs_nth n r j : j < n - 1 - r -> nth_error (row_pairs n r) j = Some (r, S r + j).
Proof.
  intros Hj. unfold row_pairs. rewrite nth_error_map.
  rewrite (nth_error_nth' _ 0) by (rewrite seq_length; lia).
  rewrite seq_nth by lia. reflexivity.
Qed.

(* position inside a flat_map over a seq *)
Lemma flat_map_seq_nth (n a k r j : nat) :
  r < k -> j < n - 1 - (a + r) ->
  nth_error (flat_map (row_pairs n) (seq a k))
            (off n (a + r) - off n a + j) = nth_error (row_pairs n (a + r)) j.
Proof.
  revert a r. induction k as [|k IH]; intros a r Hr Hj; [lia|].
  cbn [seq flat_map]. destruct r as [|r].
  - rewrite Nat.add_0_r, Nat.sub_diag. cbn [Nat.add].
    rewrite nth_error_app1; [reflexivity|]. rewrite row_pairs_length. lia.
  - rewrite nth_error_app2; rewrite row_pairs_length.
    + replace (a + S r) with (S a + r) by lia.
      rewrite <- (IH (S a) r) by lia. f_equal.
      pose proof (off_mono n (S a) (S a + r) ltac:(lia)).
      cbn [off] in *. lia.
    + pose proof (off_mono n (S a) (a + S r) ltac:(lia)).
      cbn [off] in *. lia.
Qed.

Theorem cidx_is_position (n r c : nat) :
  r < c -> c < n -> nth_error (pairs n) (cidx_nat n r c) = Some (r, c).
Proof.
  intros Hrc Hcn. rewrite cidx_nat_off by assumption. unfold pairs.
  pose proof (flat_map_seq_nth n 0 n r (c - r - 1) ltac:(lia) ltac:(lia)) as H.
  cbn [Nat.add off] in H. rewrite Nat.sub_0_r in H. rewrite H.
  rewrite row_pairs_nth by lia. f_equal. f_equal. lia.
Qed.

Lemma pairs_length n : length (pairs n) = n * (n - 1) / 2.
Proof.
  unfold pairs.
  assert (H : forall a k, a + k <= n -> length (flat_map (row_pairs n) (seq a k)) = off n (a + k) - off n a).
  { intros a k; revert a; induction k as [|k IH]; intros a Hk.
    - rewrite Nat.add_0_r. simpl. lia.
    - cbn [seq flat_map]. rewrite app_length, row_pairs_length, IH by lia.
      replace (a + S k) with (S a + k) by lia.
      pose proof (off_mono n (S a) (S a + k) ltac:(lia)).
      cbn [off] in *. lia. }
  rewrite (H 0 n) by lia. cbn [Nat.add off]. rewrite Nat.sub_0_r.
  pose proof (off_closed n n ltac:(lia)) as Hc.
  apply Nat.div_unique_exact; [lia|]. nia.
Qed.

Corollary cidx_in_range (n r c : nat) : r < c -> c < n -> cidx_nat n r c < n * (n - 1) / 2.
Proof.
  intros Hrc Hcn. rewrite <- pairs_length. apply nth_error_Some.
  rewrite cidx_is_position by assumption. discriminate.
Qed.

Corollary cidx_injective (n r c r' c' : nat) :
  r < c -> c < n -> r' < c' -> c' < n ->
  cidx_nat n r c = cidx_nat n r' c' -> (r, c) = (r', c').
Proof.
  intros H1 H2 H3 H4 E.
  pose proof (cidx_is_position n r c H1 H2) as P1.
  pose proof (cidx_is_position n r' c' H3 H4) as P2.
  rewrite E in P1. congruence.
Qed.

Lemma NoDup_app_intro {A} (l1 l2 : list A) :
  NoDup l1 -> NoDup l2 -> (forall x, In x l1 -> In x l2 -> False) -> NoDup (l1 ++ l2).
Proof.
  induction l1 as [|a l1 IH]; intros H1 H2 H; [exact H2|].
  inversion H1; subst. cbn [app]. constructor.
  - intros Hin. apply in_app_or in Hin. destruct Hin as [Hin|Hin]; [contradiction|].
    apply (H a); [left; reflexivity|exact Hin].
  - apply IH; try assumption. intros x Hx1 Hx2. apply (H x); [right; exact Hx1|exact Hx2].
Qed.

(* every slot is hit: surjectivity onto [0, n(n-1)/2) *)
Lemma pairs_wf n k r c : nth_error (pairs n) k = Some (r, c) -> r < c /\ c < n.
Proof.
  intros H. apply nth_error_In in H. unfold pairs in H.
  apply in_flat_map in H. destruct H as [r0 [Hr0 Hin]].
  apply in_seq in Hr0. unfold row_pairs in Hin. apply in_map_iff in Hin.
  destruct Hin as [c0 [E Hc0]]. apply in_seq in Hc0. inversion E; subst. lia.
Qed.

Corollary cidx_surjective (n k : nat) :
  k < n * (n - 1) / 2 -> exists r c, r < c /\ c < n /\ cidx_nat n r c = k.
Proof.
  intros Hk. rewrite <- pairs_length in Hk.
  destruct (nth_error (pairs n) k) as [[r c]|] eqn:E.
  - destruct (pairs_wf n k r c E) as [H1 H2]. exists r, c. repeat split; try assumption.
    pose proof (cidx_is_position n r c H1 H2) as P.
    (* pairs n has no duplicates: positions of equal elements coincide *)
    assert (ND : NoDup (pairs n)).
    { unfold pairs. clear. 
      assert (H : forall a k, NoDup (flat_map (row_pairs n) (seq a k)) /\
                  forall x, In x (flat_map (row_pairs n) (seq a k)) -> a <= fst x).
      { intros a k; revert a; induction k as [|k IH]; intros a.
        - split; [constructor|intros x []].
        - cbn [seq flat_map]. destruct (IH (S a)) as [ND Hge]. split.
          + apply NoDup_app_intro.
            * unfold row_pairs. apply FinFun.Injective_map_NoDup; [|apply seq_NoDup].
              intros x y E. inversion E. reflexivity.
            * exact ND.
            * intros x Hx1 Hx2. apply Hge in Hx2. unfold row_pairs in Hx1.
              apply in_map_iff in Hx1. destruct Hx1 as [c [E _]]. subst x. simpl in Hx2. lia.
          + intros x Hx. apply in_app_or in Hx. destruct Hx as [Hx|Hx].
            * unfold row_pairs in Hx. apply in_map_iff in Hx. destruct Hx as [c [E _]]. subst x. simpl. lia.
            * apply Hge in Hx. lia. }
      apply H. }
    eapply (proj1 (NoDup_nth_error (pairs n)) ND); [|congruence].
    apply nth_error_Some. congruence.
  - apply nth_error_None in E. lia.
Qed.

(* ---- 64-bit evaluation ---------------------------------------------- *)
Local Open Scope N_scope.

Lemma wsub_exact a b : b <= a -> a < two64 -> wsub a b = a - b.
Proof.
  intros Hb Ha. unfold wsub.
  replace (a + two64 - b) with ((a - b) + 1 * two64) by lia.
  rewrite N.mod_add by (unfold two64; lia). apply N.mod_small. lia.
Qed.

Lemma two32_sq : two32 * two32 = two64.
Proof. reflexivity. Qed.

(* No intermediate of ((2n - r - 3) * r / 2) + c - 1 under- or overflows for
   n < 2^32; the wrapping evaluation is the mathematical value. *)
Theorem cidx_wrap_exact (n r c : nat) :
  (r < c)%nat -> (c < n)%nat -> N.of_nat n < two32 ->
  cidx_wrap (N.of_nat n) (N.of_nat r) (N.of_nat c) = N.of_nat (cidx_nat n r c).
Proof.
  intros Hrc Hcn Hn. unfold cidx_wrap, cidx_nat.
  set (n' := N.of_nat n) in *. set (r' := N.of_nat r). set (c' := N.of_nat c).
  assert (Hr' : r' + 2 <= n') by (unfold r', n'; lia).
  assert (Hc' : c' < n') by (unfold c', n'; lia).
  assert (H32 : two32 = 4294967296) by reflexivity.
  assert (H64 : two64 = 18446744073709551616) by reflexivity.
  rewrite (N.mod_small (2 * n')) by lia.
  rewrite (wsub_exact (2 * n') r') by lia.
  rewrite (wsub_exact (2 * n' - r') 3) by lia.
  assert (Hbound : (2 * n' - r' - 3) * r' <= (n' - 1) * (n' - 2)).
  { assert (Hd : exists d, n' = r' + 2 + d) by (exists (n' - r' - 2); lia).
    destruct Hd as [d Hd]. rewrite Hd.
    replace (2 * (r' + 2 + d) - r' - 3) with (r' + 1 + 2 * d) by lia.
    replace (r' + 2 + d - 1) with (r' + 1 + d) by lia.
    replace (r' + 2 + d - 2) with (r' + d) by lia. nia. }
  assert (Hsq : (n' - 1) * (n' - 2) <= (two32 - 2) * (two32 - 3)).
  { apply N.mul_le_mono; lia. }
  assert (Hprod : (2 * n' - r' - 3) * r' < two64).
  { rewrite H32 in Hsq. rewrite H64. lia. }
  rewrite (N.mod_small ((2 * n' - r' - 3) * r')) by exact Hprod.
  assert (Hhalf : (2 * n' - r' - 3) * r' / 2 <= (2 * n' - r' - 3) * r').
  { generalize ((2 * n' - r' - 3) * r'). intros x. apply N.div_le_upper_bound; lia. }
  assert (Hsum : (2 * n' - r' - 3) * r' / 2 + c' < two64).
  { rewrite H32 in Hsq. rewrite H64.
    revert Hhalf Hbound Hsq. generalize ((2 * n' - r' - 3) * r' / 2).
    generalize ((2 * n' - r' - 3) * r'). generalize ((n' - 1) * (n' - 2)). intros x y z Hhalf Hbound Hsq.
    clear - Hhalf Hbound Hsq Hc' Hn H32.
    set (k := (4294967296 - 2) * (4294967296 - 3)) in Hsq.
    assert (Hk : k = 18446744052234715142) by (vm_compute; reflexivity).
    rewrite Hk in Hsq. rewrite H32 in Hn. clear Hk k H32. lia. }
  rewrite (N.mod_small _ _ Hsum).
  assert (Hc1 : 1 <= c') by (clear - Hrc; unfold c'; lia).
  rewrite wsub_exact; [|apply N.le_trans with c'; [exact Hc1|apply N.le_add_l]|exact Hsum].
  unfold n', r', c'.
  rewrite !Nat2N.inj_sub, Nat2N.inj_add, Nat2N.inj_div, Nat2N.inj_mul, !Nat2N.inj_sub, Nat2N.inj_mul.
  reflexivity.
Qed.

Local Close Scope N_scope.

(* Both profiles resolve [[r, c]] to the same slot, and never panic, on a
   correctly sized matrix. *)
Theorem mslot_ok {T} (p : profile) (M : cmat T) (r c : nat) :
  r < c -> c < m_obs M -> length (m_data M) = m_obs M * (m_obs M - 1) / 2 ->
  mslot p M r c = Ok (cidx_nat (m_obs M) r c).
Proof.
  intros Hrc Hcn Hlen. unfold mslot.
  destruct (Nat.ltb_spec r c) as [_|]; [|lia].
  destruct (Nat.ltb_spec c (m_obs M)) as [_|]; [|lia]. cbn [andb].
  pose proof (cidx_in_range (m_obs M) r c Hrc Hcn) as Hr. rewrite <- Hlen in Hr.
  destruct (Nat.ltb_spec (cidx_nat (m_obs M) r c) (length (m_data M))); [reflexivity|lia].
Qed.
