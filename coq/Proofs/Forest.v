(* Partitions of observations under edge insertion: the order in which the
   edges of a forest are processed does not matter (needed because relabel
   sorts the raw merge steps before replaying them through union-find). *)
From Coq Require Import List Arith Lia Sorting.Permutation.
Import ListNotations.

Definition rel := nat -> nat -> Prop.

Record equiv (R : rel) : Prop := {
  e_refl : forall x, R x x;
  e_sym : forall x y, R x y -> R y x;
  e_trans : forall x y z, R x y -> R y z -> R x z }.

(* the partition after joining the classes of a and b *)
Definition add_edge (R : rel) (a b : nat) : rel :=
  fun x y => R x y \/ (R x a /\ R b y) \/ (R x b /\ R a y).

Definition same (R1 R2 : rel) : Prop := forall x y, R1 x y <-> R2 x y.

Lemma add_edge_equiv (R : rel) a b : equiv R -> equiv (add_edge R a b).
Proof.
  intros [Rr Rs Rt]. constructor; unfold add_edge.
  - intros x. left. apply Rr.
  - intros x y [H|[[H1 H2]|[H1 H2]]]; [left; auto|right; right; split; auto|right; left; split; auto].
  - intros x y z [H|[[H1 H2]|[H1 H2]]] [G|[[G1 G2]|[G1 G2]]].
    + left. eauto.
    + right. left. split; eauto.
    + right. right. split; eauto.
    + right. left. split; eauto.
    + right. left. split; [exact H1|]. exact G2.
    + left. eauto.
    + right. right. split; eauto.
    + left. eauto.
    + right. right. split; [exact H1|]. exact G2.
Qed.

Lemma add_edge_mono (R : rel) a b x y : R x y -> add_edge R a b x y.
Proof. intros H. left. exact H. Qed.

Lemma add_edge_joins (R : rel) a b : equiv R -> add_edge R a b a b.
Proof. intros [Rr _ _]. right. left. split; apply Rr. Qed.

Lemma add_edge_same (R1 R2 : rel) a b : same R1 R2 -> same (add_edge R1 a b) (add_edge R2 a b).
Proof. intros H x y. unfold add_edge. rewrite !(H _ _). tauto. Qed.

Lemma add_edge_trivial (R : rel) a b : equiv R -> R a b -> same (add_edge R a b) R.
Proof.
  intros [Rr Rs Rt] Hab x y. unfold add_edge. split; [|tauto].
  intros [H|[[H1 H2]|[H1 H2]]]; eauto.
Qed.

Lemma add_edge_comm (R : rel) a1 b1 a2 b2 : equiv R ->
  same (add_edge (add_edge R a1 b1) a2 b2) (add_edge (add_edge R a2 b2) a1 b1).
Proof.
  intros E. pose proof E as [Rr Rs Rt].
  assert (Half : forall a1 b1 a2 b2 x y,
            add_edge (add_edge R a1 b1) a2 b2 x y -> add_edge (add_edge R a2 b2) a1 b1 x y).
  { clear a1 b1 a2 b2. intros a1 b1 a2 b2 x y.
    pose proof (add_edge_equiv R a2 b2 E) as [Qr Qs Qt].
    assert (J2 : add_edge R a2 b2 a2 b2) by (apply add_edge_joins; exact E).
    assert (M : forall u v, R u v -> add_edge R a2 b2 u v) by (intros; left; assumption).
    (* every add_edge R a1 b1 fact is an (add_edge (add_edge R a2 b2) a1 b1) fact *)
    assert (Up : forall u v, add_edge R a1 b1 u v -> add_edge (add_edge R a2 b2) a1 b1 u v).
    { intros u v [H|[[H1 H2]|[H1 H2]]]; [left; auto|right; left; split; auto|right; right; split; auto]. }
    pose proof (add_edge_equiv (add_edge R a2 b2) a1 b1 (add_edge_equiv R a2 b2 E)) as [Pr Ps Pt].
    assert (J2' : add_edge (add_edge R a2 b2) a1 b1 a2 b2) by (left; exact J2).
    intros [H|[[H1 H2]|[H1 H2]]].
    - apply Up. exact H.
    - apply Pt with a2; [apply Up; exact H1|]. apply Pt with b2; [exact J2'|apply Up; exact H2].
    - apply Pt with b2; [apply Up; exact H1|]. apply Pt with a2; [apply Ps; exact J2'|apply Up; exact H2]. }
  intros x y. split; apply Half.
Qed.

(* every edge joins two different classes when processed in this order *)
Fixpoint all_nontrivial (R : rel) (E : list (nat * nat)) : Prop :=
  match E with
  | [] => True
  | (a, b) :: t => ~ R a b /\ all_nontrivial (add_edge R a b) t
  end.

Fixpoint add_edges (R : rel) (E : list (nat * nat)) : rel :=
  match E with
  | [] => R
  | (a, b) :: t => add_edges (add_edge R a b) t
  end.

Lemma all_nontrivial_same (R1 R2 : rel) E : same R1 R2 -> all_nontrivial R1 E -> all_nontrivial R2 E.
Proof.
  revert R1 R2. induction E as [|[a b] t IH]; intros R1 R2 H; cbn; [auto|].
  intros [H1 H2]. split; [rewrite <- (H a b); exact H1|].
  eapply IH; [apply add_edge_same; exact H|exact H2].
Qed.

Lemma add_edges_same (R1 R2 : rel) E : same R1 R2 -> same (add_edges R1 E) (add_edges R2 E).
Proof.
  revert R1 R2. induction E as [|[a b] t IH]; intros R1 R2 H; cbn; [exact H|].
  apply IH. apply add_edge_same. exact H.
Qed.

Lemma same_sym (R1 R2 : rel) : same R1 R2 -> same R2 R1.
Proof. intros H x y. symmetry. apply H. Qed.

(* the theorem: a forest stays a forest in any processing order, and yields
   the same partition *)
Theorem forest_permutation (E E' : list (nat * nat)) : Permutation E E' ->
  forall R : rel, equiv R -> all_nontrivial R E ->
  all_nontrivial R E' /\ same (add_edges R E) (add_edges R E').
Proof.
  induction 1 as [|[a b] l l' Hp IH|[a1 b1] [a2 b2] l|l l' l'' H1 IH1 H2 IH2]; intros R HR HN.
  - split; [exact I|intros x y; tauto].
  - cbn in *. destruct HN as [N1 N2].
    destruct (IH _ (add_edge_equiv R a b HR) N2) as [I1 I2]. split; [split; assumption|exact I2].
  - cbn in *. destruct HN as [N2 [N1 N3]].
    (* HN: ~ R a2 b2, ~ (R+e2) a1 b1, rest after (R+e2)+e1; goal order: e1 then e2 *)
    pose proof HR as [Rr Rs Rt].
    split.
    + split; [|split].
      * intros H. apply N1. left. exact H.
      * intros [H|[[H3 H4]|[H3 H4]]]; [exact (N2 H)| |].
        -- apply N1. right. left. split; [exact (Rs _ _ H3)|exact (Rs _ _ H4)].
        -- apply N1. right. right. split; [exact H4|exact H3].
      * eapply all_nontrivial_same; [|exact N3]. apply add_edge_comm. exact HR.
    + apply add_edges_same. apply add_edge_comm. exact HR.
  - destruct (IH1 R HR HN) as [A1 A2]. destruct (IH2 R HR A1) as [B1 B2].
    split; [exact B1|]. intros x y. rewrite (A2 x y). apply B2.
Qed.
