(* Instances of AgreePG.primitive_generic_agree:
   - single / complete over any carrier with a strict weak order;
   - all seven methods over exact rationals with the infinite sentinel. *)
Require Import KV.Model.Prelude KV.Model.Condensed KV.Model.Active KV.Model.Dendrogram KV.Model.Methods KV.Model.State
  KV.Model.Primitive KV.Model.Generic
  KV.Proofs.ShapeCheck KV.Proofs.RelabelWF KV.Proofs.PrimitiveGreedy KV.Proofs.PrimitiveWF KV.Proofs.UpdateSpec KV.Proofs.SortProofs KV.Proofs.LWInvariant
  KV.Proofs.Criteria KV.Proofs.CriteriaRun KV.Proofs.ChainInstances KV.Proofs.GenericInv KV.Proofs.GenericCriterion KV.Proofs.QInf
  KV.Proofs.GenericGreedy KV.Proofs.GenericGreedyInstances KV.Proofs.AgreePG.
From Coq Require Import QArith Qabs Permutation Lra.

Set Implicit Arguments.
Local Close Scope Q_scope.

Section Sel.
Variable T : Type.
Variable F : fops T.
Variable p : profile.
Hypothesis ltb_irrefl : forall a, f_ltb F a a = false.
Hypothesis ltb_trans : forall a b c, f_ltb F a b = true -> f_ltb F b c = true -> f_ltb F a c = true.
Hypothesis ltb_negtrans : forall a b c, f_ltb F a b = false -> f_ltb F b c = false -> f_ltb F a c = false.
Hypothesis eqb_refl : forall a, f_eqb F a a = true.
Hypothesis eqb_le : forall u v, f_eqb F u v = true -> f_ltb F v u = false.

Theorem selection_primitive_generic_agree meth s1 d1 s2 d2 (m : list T) (n : N) sp dp mp sg dg mg M0 :
  meth = Single \/ meth = Complete ->
  Forall (fun v => f_ltb F v (f_inf F) = true) m ->
  prologue p m n = Ok M0 ->
  primitive_with (kops_of F meth) p meth s1 d1 m n = Ok (sp, dp, mp) ->
  generic_with (kops_of F meth) p meth s2 d2 m n = Ok (sg, dg, mg) ->
  tie_free_from (kops_of F meth) p meth 0 (m_obs M0 - 1)
    (st_reset (kops_of F meth) s1 (m_obs M0)) (d_reset d1 (m_obs M0)) M0 ->
  dp = dg.
Proof.
  intros Hm Hall HM0 Hp Hg HTF.
  assert (Hsq : square_all (kops_of F meth) m = m).
  { unfold square_all. destruct Hm as [-> | ->]; cbn [kops_of k_sq on_squares]; apply map_id. }
  apply (@primitive_generic_agree T (kops_of F meth) p meth ltb_irrefl ltb_trans ltb_negtrans eqb_refl eqb_le) with
    (s1 := s1) (d1 := d1) (s2 := s2) (d2 := d2) (m := m) (n := n) (sp := sp) (mp := mp) (sg := sg) (mg := mg) (M0 := M0).
  - intros va vb md sa sb sx Ha Hb _. destruct Hm as [-> | ->]; cbn [kops_of k_upd k_ltb k_inf] in *; cbn.
    + destruct (f_ltb F va vb); assumption.
    + destruct (f_ltb F vb va); assumption.
  - intros _ va vb md sa sb sx _ _ _. destruct Hm as [-> | ->]; cbn [kops_of k_upd k_ltb]; cbn.
    + destruct (f_ltb F va vb); [left|right]; apply ltb_irrefl.
    + destruct (f_ltb F vb va); [left|right]; apply ltb_irrefl.
  - intros Ht va vb md sa sb sx. destruct Hm as [-> | ->]; [discriminate|]. cbn [kops_of k_upd k_ltb]; cbn.
    destruct (f_ltb F vb va) eqn:C; [exact (@sel_asym T F ltb_irrefl ltb_trans _ _ C)|apply ltb_irrefl].
  - intros _ va vb md sa sb sa' sb' sx. destruct Hm as [-> | ->]; reflexivity.
  - rewrite Hsq. destruct Hm as [-> | ->]; exact Hall.
  - rewrite Hsq. exact HM0.
  - exact Hp.
  - exact Hg.
  - exact HTF.
Qed.

End Sel.

Section QIAgree.
Variable p : profile.
Variable rt : Q -> Q.
Variable meth : method.

Notation KI := (kops_of (QI rt) meth).

(* exact arithmetic: whenever the minimum is attained once at every iteration,
   generic and primitive return the same dendrogram *)
Theorem QI_primitive_generic_agree s1 d1 s2 d2 (mq : list Q) (n : N) sp dp mp sg dg mg M0 :
  prologue p (square_all KI (map Some mq)) n = Ok M0 ->
  primitive_with KI p meth s1 d1 (map Some mq) n = Ok (sp, dp, mp) ->
  generic_with KI p meth s2 d2 (map Some mq) n = Ok (sg, dg, mg) ->
  tie_free_from KI p meth 0 (m_obs M0 - 1) (st_reset KI s1 (m_obs M0)) (d_reset d1 (m_obs M0)) M0 ->
  dp = dg.
Proof.
  intros HM0 Hp Hg HTF.
  apply (@primitive_generic_agree qi KI p meth qi_irrefl qi_trans qi_negtrans qi_eqb_refl qi_eqb_le (@KI_upd_below rt meth)
           (@KI_rename_reducible rt meth) (@KI_untracked_grows rt meth)
           ltac:(intros E va vb md sa sb sa' sb' sx; cbn [kops_of k_upd]; destruct meth; try discriminate; reflexivity)
           s1 d1 s2 d2 (map Some mq) n sp dp mp sg dg mg M0 (squares_some rt meth mq) HM0 Hp Hg HTF).
Qed.

End QIAgree.
