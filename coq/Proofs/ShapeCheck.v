(* C13: the shape check of CondensedMatrix::new accepts exactly len = n(n-1)/2
   (with the empty matrix for n <= 1), in checked and in wrapping arithmetic,
   for every n < 2^32. *)
Require Import KV.Model.Prelude KV.Model.Condensed.

Local Open Scope N_scope.

Definition wf_shape (n len : N) : Prop := len = n * (n - 1) / 2.

Lemma prod_small (n : N) : n < two32 -> n * (n - 1) < two64.
Proof. unfold two32, two64. intros H. nia. Qed.

Lemma half_pos (n : N) : 2 <= n -> 1 <= n * (n - 1) / 2.
Proof.
  intros H. apply N.div_le_lower_bound; [lia|]. nia.
Qed.

Lemma shape_check_ok (p : profile) (n len : N) :
  n < two32 -> wf_shape n len ->
  shape_check p n len = Ok (if n <=? 1 then 0 else n).
Proof.
  intros Hn Hwf. unfold wf_shape in Hwf. unfold shape_check.
  pose proof (@prod_small n Hn) as Hp.
  destruct (N.eqb_spec len 0) as [H0|H0].
  - destruct (N.leb_spec n 1) as [H1|H1]; [reflexivity|].
    exfalso. pose proof (@half_pos n ltac:(lia)). lia.
  - destruct (N.ltb_spec n 2) as [H2|H2].
    + exfalso. apply H0. subst len.
      assert (n = 0 \/ n = 1) as [->| ->] by lia; reflexivity.
    + destruct (N.leb_spec n 1) as [H1|H1]; [lia|].
      destruct p.
      * destruct (N.ltb_spec (n * (n - 1)) two64) as [_|Hc]; [|lia].
        rewrite Hwf, N.eqb_refl. reflexivity.
      * rewrite N.mod_small by exact Hp.
        rewrite Hwf, N.eqb_refl. reflexivity.
Qed.

Lemma shape_check_panics (p : profile) (n len : N) :
  n < two32 -> ~ wf_shape n len -> exists k, shape_check p n len = Panic k.
Proof.
  intros Hn Hwf. unfold wf_shape in Hwf. unfold shape_check.
  pose proof (@prod_small n Hn) as Hp.
  destruct (N.eqb_spec len 0) as [H0|H0].
  - destruct (N.leb_spec n 1) as [H1|H1]; [|eexists; reflexivity].
    exfalso. apply Hwf. subst len.
    assert (n = 0 \/ n = 1) as [->| ->] by lia; reflexivity.
  - destruct (N.ltb_spec n 2) as [H2|H2]; [eexists; reflexivity|].
    destruct p.
    + destruct (N.ltb_spec (n * (n - 1)) two64) as [_|Hc]; [|eexists; reflexivity].
      destruct (N.eqb_spec (n * (n - 1) / 2) len) as [He|He]; [congruence|eexists; reflexivity].
    + rewrite N.mod_small by exact Hp.
      destruct (N.eqb_spec (n * (n - 1) / 2) len) as [He|He]; [congruence|eexists; reflexivity].
Qed.

(* Decided both ways, for both profiles. *)
Theorem shape_check_sound (p : profile) (n len : N) :
  n < two32 ->
  (wf_shape n len /\ shape_check p n len = Ok (if n <=? 1 then 0 else n))
  \/ (~ wf_shape n len /\ exists k, shape_check p n len = Panic k).
Proof.
  intros Hn. destruct (N.eq_dec len (n * (n - 1) / 2)) as [E|E].
  - left. split; [exact E|]. apply shape_check_ok; assumption.
  - right. split; [exact E|]. apply shape_check_panics; assumption.
Qed.

(* The two profiles agree on every shape below 2^32. *)
Corollary shape_check_profile_independent (n len : N) :
  n < two32 -> shape_check Debug n len = shape_check Release n len.
Proof.
  intros Hn. destruct (N.eq_dec len (n * (n - 1) / 2)) as [E|E].
  - rewrite !shape_check_ok; auto.
  - unfold shape_check. pose proof (@prod_small n Hn) as Hp.
    rewrite N.mod_small by exact Hp.
    destruct (N.ltb_spec (n * (n - 1)) two64); [reflexivity|lia].
Qed.

(* Boundary of the model (documentation, not a finding): in wrapping
   arithmetic n = 2^64-1 with len = 1 passes the assertion. *)
Example shape_wrap_witness :
  shape_check Release 18446744073709551615 1 = Ok 18446744073709551615
  /\ exists k, shape_check Debug 18446744073709551615 1 = Panic k.
Proof. split; [vm_compute; reflexivity| eexists; vm_compute; reflexivity]. Qed.
