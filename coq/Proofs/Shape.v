(* C01 (partial): every Ok result has exactly obs-1 steps for obs observations,
   smaller label first. *)
Require Import KV.Model.Prelude KV.Model.Condensed KV.Model.Active KV.Model.Heap
  KV.Model.UnionFind KV.Model.Dendrogram KV.Model.Methods KV.Model.State
  KV.Model.Primitive KV.Model.Mst KV.Model.Chain KV.Model.Generic KV.Model.Linkage
  KV.Proofs.SortProofs KV.Proofs.Monotone.
From Coq Require Import Sorting.Permutation.

Set Implicit Arguments.

Ltac binds H :=
  repeat (first [ bind_inv H | match type of H with context [let '(_, _) := ?x in _] => destruct x end ]).

Section Shape.
Variable T : Type.
Variable K : kops T.
Variable p : profile.

Definition dshape (d : dend T) : nat * nat := (d_obs d, length (d_steps d)).

Lemma st_merge_shape (s s' : lstate T) (d d' : dend T) c1 c2 x :
  st_merge s d c1 c2 x = Ok (s', d') -> dshape d' = (d_obs d, S (length (d_steps d))).
Proof.
  unfold st_merge. intros H. binds H. inversion H; subst.
  match goal with E : d_push _ _ = Ok _ |- _ => unfold d_push in E; binds E; inversion E end.
  unfold dshape. cbn. rewrite app_length. cbn. f_equal. lia.
Qed.

Definition dproj {A B} (st : A * dend T * B) : dend T := snd (fst st).
Definition pushes_one {A B} (f : A * dend T * B -> nat -> res (A * dend T * B)) : Prop :=
  forall st i st', f st i = Ok st' ->
    dshape (dproj st') = (d_obs (dproj st), S (length (d_steps (dproj st)))).

Lemma prim_iter_shape meth : pushes_one (prim_iter K p meth).
Proof.
  intros [[s d] M] i [[s' d'] M'] H. unfold prim_iter in H. binds H. inversion H; subst.
  match goal with E : st_merge _ _ _ _ _ = Ok _ |- _ => exact (st_merge_shape _ _ _ _ _ E) end.
Qed.

Lemma mst_iter_shape M : pushes_one (mst_iter K p M).
Proof.
  intros [[s d] c] i [[s' d'] c'] H. unfold mst_iter in H. binds H. inversion H; subst.
  match goal with E : st_merge _ _ _ _ _ = Ok _ |- _ => exact (st_merge_shape _ _ _ _ _ E) end.
Qed.

Lemma chain_iter_shape meth : pushes_one (chain_iter K p meth).
Proof.
  intros [[s d] M] i [[s' d'] M'] H. unfold chain_iter in H.
  destruct (length (st_chain s) <? 4); binds H; inversion H; subst;
  match goal with E : st_merge _ _ _ _ _ = Ok _ |- _ => exact (st_merge_shape _ _ _ _ _ E) end.
Qed.

Lemma gen_iter_shape meth : pushes_one (gen_iter K p meth).
Proof.
  intros [[s d] M] i [[s' d'] M'] H. unfold gen_iter in H. binds H. inversion H; subst.
  match goal with E : st_merge _ _ _ _ _ = Ok _ |- _ => exact (st_merge_shape _ _ _ _ _ E) end.
Qed.

(* folding an iteration that pushes exactly one step *)
Lemma fold_shape {A B} (f : A * dend T * B -> nat -> res (A * dend T * B)) (Hstep : pushes_one f) :
  forall (idx : list nat) st st', mfold f idx st = Ok st' ->
  dshape (dproj st') = (d_obs (dproj st), length idx + length (d_steps (dproj st))).
Proof.
  induction idx as [|i idx IH]; intros st st' H; cbn [mfold] in H.
  - inversion H. reflexivity.
  - bind_inv H. rewrite (IH _ _ H). apply Hstep in E. unfold dshape in E. inversion E as [[E1 E2]].
    rewrite E1, E2. cbn [length]. f_equal. lia.
Qed.

(* relabel and the post-pass keep the shape *)
Lemma relabel_shape (u u' : ufind) (d d' : dend T) sorting :
  relabel (k_ltb K) (k_eqb K) u d sorting = Ok (u', d') -> dshape d' = dshape d.
Proof.
  intros H. destruct (@relabel_heights T (k_ltb K) (k_eqb K) _ _ _ _ _ H) as [Ho Hh].
  unfold dshape. rewrite Ho. f_equal.
  destruct sorting.
  - destruct Hh as (l & Hl & Hh). apply (f_equal (@length T)) in Hh. unfold heights in Hh.
    rewrite !map_length in Hh. rewrite Hh.
    destruct (@sort_steps_ok T (k_ltb K) (k_eqb K) (@gt_flip T K) _ _ Hl) as [_ Hp].
    symmetry. apply Permutation_length. exact Hp.
  - apply (f_equal (@length T)) in Hh. unfold heights in Hh. rewrite !map_length in Hh. exact Hh.
Qed.

Lemma sqrt_all_shape (d : dend T) : dshape (sqrt_all K d) = dshape d.
Proof. unfold dshape, sqrt_all. cbn. rewrite map_length. reflexivity. Qed.

(* each algorithm: obs observations give exactly obs - 1 steps *)
Definition shape_ok (r : res (lstate T * dend T * list T)) (M : cmat T) : Prop :=
  forall s' d' m', r = Ok (s', d', m') -> dshape d' = (m_obs M, m_obs M - 1).

Theorem primitive_shape meth s d m n M :
  prologue p (square_all K m) n = Ok M -> shape_ok (primitive_with K p meth s d m n) M.
Proof.
  intros HM s' d' m' H. unfold primitive_with in H. rewrite HM in H. cbn [bind] in H.
  destruct (m_obs M =? 0) eqn:Z; [inversion H; subst; apply Nat.eqb_eq in Z; rewrite Z; reflexivity|].
  binds H. inversion H; subst. rewrite sqrt_all_shape.
  match goal with E : relabel _ _ _ _ _ = Ok _ |- _ => rewrite (relabel_shape _ _ _ E) end.
  match goal with E : mfold _ _ _ = Ok _ |- _ => pose proof (fold_shape (@prim_iter_shape meth) _ _ E) as F end.
  unfold dproj in F. cbn [fst snd d_reset d_obs d_steps length] in F. rewrite F, seq_length. f_equal. lia.
Qed.

Theorem mst_shape s d m n M :
  prologue p m n = Ok M -> shape_ok (mst_with K p s d m n) M.
Proof.
  intros HM s' d' m' H. unfold mst_with in H. rewrite HM in H. cbn [bind] in H.
  destruct (m_obs M =? 0) eqn:Z; [inversion H; subst; apply Nat.eqb_eq in Z; rewrite Z; reflexivity|].
  binds H. inversion H; subst.
  match goal with E : relabel _ _ _ _ _ = Ok _ |- _ => rewrite (relabel_shape _ _ _ E) end.
  match goal with E : mfold _ _ _ = Ok _ |- _ => pose proof (fold_shape (@mst_iter_shape M) _ _ E) as F end.
  unfold dproj in F. cbn [fst snd d_reset d_obs d_steps length] in F. rewrite F, seq_length. f_equal. lia.
Qed.

Theorem nnchain_shape meth s d m n M :
  prologue p (square_all K m) n = Ok M -> shape_ok (nnchain_with K p meth s d m n) M.
Proof.
  intros HM s' d' m' H. unfold nnchain_with in H. rewrite HM in H. cbn [bind] in H.
  destruct (m_obs M =? 0) eqn:Z; [inversion H; subst; apply Nat.eqb_eq in Z; rewrite Z; reflexivity|].
  binds H. inversion H; subst. rewrite sqrt_all_shape.
  match goal with E : relabel _ _ _ _ _ = Ok _ |- _ => rewrite (relabel_shape _ _ _ E) end.
  match goal with E : mfold _ _ _ = Ok _ |- _ => pose proof (fold_shape (@chain_iter_shape meth) _ _ E) as F end.
  unfold dproj in F. cbn [fst snd d_reset d_obs d_steps length] in F. rewrite F, seq_length. f_equal. lia.
Qed.

Theorem generic_shape meth s d m n M :
  prologue p (square_all K m) n = Ok M -> shape_ok (generic_with K p meth s d m n) M.
Proof.
  intros HM s' d' m' H. unfold generic_with in H. rewrite HM in H. cbn [bind] in H.
  destruct (m_obs M =? 0) eqn:Z; [inversion H; subst; apply Nat.eqb_eq in Z; rewrite Z; reflexivity|].
  binds H. inversion H; subst. rewrite sqrt_all_shape.
  match goal with E : relabel _ _ _ _ _ = Ok _ |- _ => rewrite (relabel_shape _ _ _ E) end.
  match goal with E : mfold (gen_iter _ _ _) _ _ = Ok _ |- _ => pose proof (fold_shape (@gen_iter_shape meth) _ _ E) as F end.
  unfold dproj in F. cbn [fst snd d_reset d_obs d_steps length] in F. rewrite F, seq_length. f_equal. lia.
Qed.

End Shape.

Require Import KV.Proofs.ShapeCheck.

Section RunShape.
Variable T : Type.
Variable F : fops T.
Variable p : profile.

Definition obs_of_n (n : N) : nat := N.to_nat (if (n <=? 1)%N then 0%N else n).

Lemma prologue_obs (m : list T) (n : N) (M : cmat T) :
  prologue p m n = Ok M -> (n < two32)%N -> m_obs M = obs_of_n n /\ m_data M = m.
Proof.
  unfold prologue. intros H Hn. bind_inv H. bind_inv H. inversion H; subst. cbn [m_obs m_data]. split; [|reflexivity].
  destruct (@shape_check_sound p n (N.of_nat (length m)) Hn) as [[_ Hok]|[_ [k Hk]]]; [|congruence].
  rewrite Hok in E. inversion E; subst a. unfold obs_to_nat in E0.
  destruct ((if (n <=? 1)%N then 0%N else n) <? two32)%N; inversion E0. reflexivity.
Qed.

Section PerAlg.
Variable K : kops T.
Variables (s : lstate T) (d : dend T) (m : list T) (n : N) (s' : lstate T) (d' : dend T) (m' : list T).
Hypothesis Hn : (n < two32)%N.

Lemma mst_run_shape : mst_with K p s d m n = Ok (s', d', m') -> dshape d' = (obs_of_n n, obs_of_n n - 1).
Proof.
  intros H. pose proof H as H2. unfold mst_with in H2. bind_inv H2.
  rewrite (@mst_shape T K p s d m n a E s' d' m' H). destruct (@prologue_obs _ _ _ E Hn) as [-> _]. reflexivity.
Qed.

Lemma nnchain_run_shape meth : nnchain_with K p meth s d m n = Ok (s', d', m') -> dshape d' = (obs_of_n n, obs_of_n n - 1).
Proof.
  intros H. pose proof H as H2. unfold nnchain_with in H2. bind_inv H2.
  rewrite (@nnchain_shape T K p meth s d m n a E s' d' m' H). destruct (@prologue_obs _ _ _ E Hn) as [-> _]. reflexivity.
Qed.

Lemma generic_run_shape meth : generic_with K p meth s d m n = Ok (s', d', m') -> dshape d' = (obs_of_n n, obs_of_n n - 1).
Proof.
  intros H. pose proof H as H2. unfold generic_with in H2. bind_inv H2.
  rewrite (@generic_shape T K p meth s d m n a E s' d' m' H). destruct (@prologue_obs _ _ _ E Hn) as [-> _]. reflexivity.
Qed.

Lemma primitive_run_shape meth : primitive_with K p meth s d m n = Ok (s', d', m') -> dshape d' = (obs_of_n n, obs_of_n n - 1).
Proof.
  intros H. pose proof H as H2. unfold primitive_with in H2. bind_inv H2.
  rewrite (@primitive_shape T K p meth s d m n a E s' d' m' H). destruct (@prologue_obs _ _ _ E Hn) as [-> _]. reflexivity.
Qed.
End PerAlg.

(* every entry point, every method: an Ok result for n observations (n < 2^32)
   has observation count n (0 when n <= 1) and exactly that many steps minus 1 *)
Theorem run_shape (a : algo) (meth : method) s d m n s' d' m' :
  (n < two32)%N -> run_with F p a meth s d m n = Ok (s', d', m') ->
  d_obs d' = obs_of_n n /\ length (d_steps d') = obs_of_n n - 1.
Proof.
  intros Hn H.
  assert (R : dshape d' = (obs_of_n n, obs_of_n n - 1)).
  { destruct a; cbn [run_with] in H.
    - unfold linkage_with in H. destruct meth; cbn [chain_capable] in H;
        first [ eapply mst_run_shape; eassumption | eapply nnchain_run_shape; eassumption | eapply generic_run_shape; eassumption ].
    - eapply mst_run_shape; eassumption.
    - eapply nnchain_run_shape; eassumption.
    - eapply generic_run_shape; eassumption.
    - eapply primitive_run_shape; eassumption. }
  unfold dshape in R. inversion R. split; reflexivity.
Qed.

End RunShape.
