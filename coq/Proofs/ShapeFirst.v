(* C13: every entry point panics on a malformed shape and never produces a
   dendrogram, whatever the scratch state; wrappers included. *)
Require Import KV.Model.Prelude KV.Model.Condensed KV.Model.Active KV.Model.Heap
  KV.Model.UnionFind KV.Model.Dendrogram KV.Model.Methods KV.Model.State
  KV.Model.Primitive KV.Model.Mst KV.Model.Chain KV.Model.Generic KV.Model.Linkage
  KV.Proofs.ShapeCheck.

Set Implicit Arguments.

Section ShapeFirst.
Variable T : Type.

Lemma prologue_panics (p : profile) (m : list T) (n : N) k :
  shape_check p n (N.of_nat (length m)) = Panic k ->
  prologue p m n = Panic k.
Proof. intros H. unfold prologue. rewrite H. reflexivity. Qed.

Lemma square_all_length (K : kops T) (m : list T) : length (square_all K m) = length m.
Proof. apply map_length. Qed.

Variable K : kops T.
Variable p : profile.
Variables (s : lstate T) (d : dend T) (m : list T) (n : N) (k : panic_kind).
Hypothesis Hbad : shape_check p n (N.of_nat (length m)) = Panic k.

Lemma primitive_shape_first meth : primitive_with K p meth s d m n = Panic k.
Proof.
  unfold primitive_with. rewrite (@prologue_panics p (square_all K m) n k); [reflexivity|].
  rewrite square_all_length. exact Hbad.
Qed.

Lemma mst_shape_first : mst_with K p s d m n = Panic k.
Proof. unfold mst_with. rewrite (@prologue_panics p m n k Hbad). reflexivity. Qed.

Lemma nnchain_shape_first meth : nnchain_with K p meth s d m n = Panic k.
Proof.
  unfold nnchain_with. rewrite (@prologue_panics p (square_all K m) n k); [reflexivity|].
  rewrite square_all_length. exact Hbad.
Qed.

Lemma generic_shape_first meth : generic_with K p meth s d m n = Panic k.
Proof.
  unfold generic_with. rewrite (@prologue_panics p (square_all K m) n k); [reflexivity|].
  rewrite square_all_length. exact Hbad.
Qed.

End ShapeFirst.

Section RunShape.
Variable T : Type.
Variable F : fops T.
Variable p : profile.

(* All five `_with` entry points, any method, any prior state. *)
Theorem run_with_shape_first (a : algo) (meth : method) (s : lstate T) (d : dend T)
  (m : list T) (n : N) (k : panic_kind) :
  shape_check p n (N.of_nat (length m)) = Panic k ->
  run_with F p a meth s d m n = Panic k.
Proof.
  intros H. destruct a; cbn [run_with].
  - unfold linkage_with. destruct meth; cbn [chain_capable];
      first [ apply mst_shape_first; exact H | apply nnchain_shape_first; exact H
            | apply generic_shape_first; exact H ].
  - apply mst_shape_first; exact H.
  - apply nnchain_shape_first; exact H.
  - apply generic_shape_first; exact H.
  - apply primitive_shape_first; exact H.
Qed.

(* The allocating wrappers panic too (in Dendrogram::new or in the check). *)
Theorem run_fresh_shape_first (a : algo) (meth : method) (m : list T) (n : N) (k : panic_kind) :
  shape_check p n (N.of_nat (length m)) = Panic k ->
  exists k', run_fresh F p a meth m n = Panic k'.
Proof.
  intros H. unfold run_fresh. destruct (d_new_ok n).
  - eexists. apply run_with_shape_first. exact H.
  - eexists. reflexivity.
Qed.

(* Full statement for n < 2^32: malformed iff panic; nothing else happens. *)
Theorem malformed_rejected (a : algo) (meth : method) (m : list T) (n : N) :
  (n < two32)%N -> ~ wf_shape n (N.of_nat (length m)) ->
  (forall s d, exists k, run_with F p a meth s d m n = Panic k)
  /\ exists k, run_fresh F p a meth m n = Panic k.
Proof.
  intros Hn Hbad. destruct (@shape_check_panics p n _ Hn Hbad) as [k Hk]. split.
  - intros s d. exists k. apply run_with_shape_first. exact Hk.
  - eapply run_fresh_shape_first. exact Hk.
Qed.

End RunShape.
