(* C09 in an idealised binary floating-point arithmetic: radix 2, any precision,
   round-to-nearest-even, UNBOUNDED exponent range (Flocq's FLX format), with an
   infinite sentinel.  There scaling by a power of two commutes exactly with
   every operation of the update formulas, the squaring pre-pass, the square
   root post-pass and all comparisons - hence with every entry point, for
   every method.  What the idealisation leaves out is exactly overflow and
   underflow ("without leaving the safe magnitude range" in the property). *)
Require Import KV.Model.Prelude KV.Model.Condensed KV.Model.Active KV.Model.Heap KV.Model.UnionFind KV.Model.Dendrogram KV.Model.Methods KV.Model.State
  KV.Model.Primitive KV.Model.Mst KV.Model.Chain KV.Model.Generic KV.Model.Linkage KV.Model.History
  KV.Proofs.ResetCanon KV.Proofs.Purity KV.Proofs.OrderOnly.
From Coq Require Import Reals ZArith Lia Lra.
From Flocq Require Import Core.

Set Implicit Arguments.
Local Open Scope R_scope.

Section XReal.
Variable prec : Z.
Context {prec_gt_0_ : Prec_gt_0 prec}.

Definition rnd (x : R) : R := round radix2 (FLX_exp prec) ZnearestE x.

Lemma rnd_scale x e : rnd (x * bpow radix2 e) = rnd x * bpow radix2 e.
Proof.
  unfold rnd. destruct (Req_dec x 0) as [->|Hx]; [rewrite Rmult_0_l, round_0 by typeclasses eauto; ring|].
  unfold round, F2R, scaled_mantissa. cbn [Fnum Fexp].
  assert (Hc : cexp radix2 (FLX_exp prec) (x * bpow radix2 e) = (cexp radix2 (FLX_exp prec) x + e)%Z).
  { unfold cexp, FLX_exp. rewrite mag_mult_bpow by exact Hx. ring. }
  rewrite Hc. rewrite bpow_plus.
  replace (x * bpow radix2 e * bpow radix2 (- (cexp radix2 (FLX_exp prec) x + e)))
    with (x * bpow radix2 (- cexp radix2 (FLX_exp prec) x)).
  - ring.
  - rewrite Z.opp_add_distr, bpow_plus. rewrite Rmult_assoc. f_equal.
    rewrite (Rmult_comm (bpow radix2 (- cexp radix2 (FLX_exp prec) x))), <- Rmult_assoc, <- bpow_plus, Z.add_opp_diag_r.
    cbn [bpow]. ring.
Qed.

(* ---- the carrier ---- *)
Definition xr := option R.
Definition xlift2 (f : R -> R -> R) (a b : xr) : xr :=
  match a, b with Some x, Some y => Some (f x y) | _, _ => None end.
Definition xlift1 (f : R -> R) (a : xr) : xr := match a with Some x => Some (f x) | None => None end.
Definition x_ltb (a b : xr) : bool :=
  match a, b with Some x, Some y => Rlt_bool x y | Some _, None => true | None, _ => false end.
Definition x_eqb (a b : xr) : bool :=
  match a, b with Some x, Some y => Req_bool x y | None, None => true | _, _ => false end.

Definition XF : fops xr :=
  {| f_ltb := x_ltb; f_eqb := x_eqb;
     f_add := xlift2 (fun x y => rnd (x + y)); f_sub := xlift2 (fun x y => rnd (x - y));
     f_mul := xlift2 (fun x y => rnd (x * y)); f_div := xlift2 (fun x y => rnd (x / y));
     f_sqrt := xlift1 (fun x => rnd (sqrt x)); f_abs := xlift1 Rabs;
     f_of_nat := fun n => Some (rnd (INR n));
     f_half := Some (/ 2); f_quarter := Some (/ 4);
     f_inf := None; f_max := None |}.

Definition sc (e : Z) (a : xr) : xr := xlift1 (fun x => x * bpow radix2 e) a.

Lemma bp_pos e : 0 < bpow radix2 e. Proof. apply bpow_gt_0. Qed.

Lemma sc_ltb e a b : x_ltb (sc e a) (sc e b) = x_ltb a b.
Proof.
  destruct a as [x|], b as [y|]; cbn; try reflexivity.
  pose proof (bp_pos e) as P.
  destruct (Rlt_bool_spec x y) as [H|H].
  - apply Rlt_bool_true. nra.
  - apply Rlt_bool_false. nra.
Qed.

Lemma sc_eqb e a b : x_eqb (sc e a) (sc e b) = x_eqb a b.
Proof.
  destruct a as [x|], b as [y|]; cbn; try reflexivity.
  pose proof (bp_pos e) as P.
  destruct (Req_bool_spec x y) as [H|H].
  - apply Req_bool_true. rewrite H. reflexivity.
  - apply Req_bool_false. intros E. apply H. nra.
Qed.

Lemma sc_add e a b : f_add XF (sc e a) (sc e b) = sc e (f_add XF a b).
Proof. destruct a, b; cbn; try reflexivity. f_equal. rewrite <- rnd_scale. f_equal. ring. Qed.
Lemma sc_sub e a b : f_sub XF (sc e a) (sc e b) = sc e (f_sub XF a b).
Proof. destruct a, b; cbn; try reflexivity. f_equal. rewrite <- rnd_scale. f_equal. ring. Qed.
Lemma sc_mul_r e a b : f_mul XF a (sc e b) = sc e (f_mul XF a b).
Proof. destruct a, b; cbn; try reflexivity. f_equal. rewrite <- rnd_scale. f_equal. ring. Qed.
Lemma sc_mul_l e a b : f_mul XF (sc e a) b = sc e (f_mul XF a b).
Proof. destruct a, b; cbn; try reflexivity. f_equal. rewrite <- rnd_scale. f_equal. ring. Qed.
Lemma sc_div e a b : f_div XF (sc e a) b = sc e (f_div XF a b).
Proof. destruct a, b; cbn; try reflexivity. f_equal. rewrite <- rnd_scale. f_equal. unfold Rdiv. ring. Qed.
Lemma sc_sq e a : f_mul XF (sc e a) (sc e a) = sc (2 * e) (f_mul XF a a).
Proof.
  destruct a as [x|]; [|reflexivity]. unfold sc, xlift1. cbn [XF f_mul xlift2]. f_equal. rewrite <- rnd_scale. f_equal.
  replace (2 * e)%Z with (e + e)%Z by ring. rewrite bpow_plus. ring.
Qed.
Lemma sc_sqrt e a : f_sqrt XF (sc (2 * e) a) = sc e (f_sqrt XF a).
Proof.
  destruct a as [x|]; [|reflexivity]. unfold sc. cbn [XF f_sqrt xlift1]. f_equal. rewrite <- rnd_scale. f_equal.
  destruct (Rle_or_lt 0 x) as [Hx|Hx].
  - rewrite sqrt_mult_alt by exact Hx. rewrite sqrt_bpow. reflexivity.
  - pose proof (bp_pos (2 * e)) as P.
    rewrite (sqrt_neg x) by lra. rewrite sqrt_neg by nra. ring.
Qed.

(* ---- homogeneity of the update formulas ---- *)
Fixpoint deg (e : fexp) : option nat :=
  match e with
  | Va | Vb | Vmd => Some 1%nat
  | Sa | Sb | Sx | Half | Quarter => Some 0%nat
  | Add x y | Sub x y =>
      match deg x, deg y with Some a, Some b => if Nat.eqb a b then Some a else None | _, _ => None end
  | Mul x y =>
      match deg x, deg y with Some a, Some b => if Nat.leb (a + b) 1 then Some (a + b)%nat else None | _, _ => None end
  | Div x y => match deg x, deg y with Some a, Some O => Some a | _, _ => None end
  | IfLt c1 c2 t e =>
      match deg c1, deg c2, deg t, deg e with
      | Some a, Some b, Some c, Some d => if Nat.eqb a b && Nat.eqb c d then Some c else None
      | _, _, _, _ => None
      end
  end.

Lemma deg_le1 e d : deg e = Some (S (S d)) -> False.
Proof.
  revert d. induction e as [| | | | | | | |x IHx y IHy|x IHx y IHy|x IHx y IHy|x IHx y IHy|c1 IH1 c2 IH2 t IHt el IHe];
    cbn [deg]; intros d H; try discriminate.
  - destruct (deg x) as [a|]; [|discriminate]. destruct (deg y) as [b|]; [|discriminate].
    destruct (Nat.eqb a b); [|discriminate]. inversion H; subst. exact (IHx d eq_refl).
  - destruct (deg x) as [a|]; [|discriminate]. destruct (deg y) as [b|]; [|discriminate].
    destruct (Nat.eqb a b); [|discriminate]. inversion H; subst. exact (IHx d eq_refl).
  - destruct (deg x) as [a|]; [|discriminate]. destruct (deg y) as [b|]; [|discriminate].
    destruct (Nat.leb_spec (a + b) 1); [|discriminate]. inversion H. lia.
  - destruct (deg x) as [a|]; [|discriminate]. destruct (deg y) as [[|b]|]; try discriminate.
    inversion H; subst. exact (IHx d eq_refl).
  - destruct (deg c1) as [a|]; [|discriminate]. destruct (deg c2) as [b|]; [|discriminate].
    destruct (deg t) as [c|]; [|discriminate]. destruct (deg el) as [dd|]; [|discriminate].
    destruct (Nat.eqb a b && Nat.eqb c dd); [|discriminate]. inversion H; subst. exact (IHt d eq_refl).
Qed.

Lemma formulas_degree_one meth : deg (formula meth) = Some 1%nat.
Proof. destruct meth; reflexivity. Qed.

Lemma feval_homog k (a b md : xr) sa sb sx : forall e,
  (deg e = Some 0%nat -> feval XF e (sc k a) (sc k b) (sc k md) sa sb sx = feval XF e a b md sa sb sx)
  /\ (deg e = Some 1%nat -> feval XF e (sc k a) (sc k b) (sc k md) sa sb sx = sc k (feval XF e a b md sa sb sx)).
Proof.
  induction e as [| | | | | | | |x IHx y IHy|x IHx y IHy|x IHx y IHy|x IHx y IHy|c1 IH1 c2 IH2 t IHt el IHe];
    cbn [deg feval]; try (split; intros H; try discriminate; reflexivity).
  - (* Add *)
    destruct (deg x) as [[|[|dx]]|], (deg y) as [[|[|dy]]|]; cbn; split; intros H; try discriminate.
    + rewrite (proj1 IHx eq_refl), (proj1 IHy eq_refl). reflexivity.
    + rewrite (proj2 IHx eq_refl), (proj2 IHy eq_refl). apply sc_add.
    + destruct (Nat.eqb dx dy); discriminate.
    + destruct (Nat.eqb dx dy); discriminate.
  - (* Sub *)
    destruct (deg x) as [[|[|dx]]|], (deg y) as [[|[|dy]]|]; cbn; split; intros H; try discriminate.
    + rewrite (proj1 IHx eq_refl), (proj1 IHy eq_refl). reflexivity.
    + rewrite (proj2 IHx eq_refl), (proj2 IHy eq_refl). apply sc_sub.
    + destruct (Nat.eqb dx dy); discriminate.
    + destruct (Nat.eqb dx dy); discriminate.
  - (* Mul *)
    destruct (deg x) as [[|[|dx]]|], (deg y) as [[|[|dy]]|]; cbn; split; intros H; try discriminate.
    + rewrite (proj1 IHx eq_refl), (proj1 IHy eq_refl). reflexivity.
    + rewrite (proj1 IHx eq_refl), (proj2 IHy eq_refl). apply sc_mul_r.
    + rewrite (proj2 IHx eq_refl), (proj1 IHy eq_refl). apply sc_mul_l.
  - (* Div *)
    destruct (deg x) as [[|[|dx]]|], (deg y) as [[|[|dy]]|]; cbn; split; intros H; try discriminate.
    + rewrite (proj1 IHx eq_refl), (proj1 IHy eq_refl). reflexivity.
    + rewrite (proj2 IHx eq_refl), (proj1 IHy eq_refl). apply sc_div.
  - (* IfLt *)
    change (f_ltb XF) with x_ltb.
    destruct (deg c1) as [d1|] eqn:E1; [|split; discriminate].
    destruct (deg c2) as [d2|] eqn:E2; [|split; discriminate].
    destruct (deg t) as [dt|] eqn:Et; [|split; discriminate].
    destruct (deg el) as [de|] eqn:Ee; [|split; discriminate].
    destruct (Nat.eqb_spec d1 d2) as [<-|N1]; [|split; discriminate].
    destruct (Nat.eqb_spec dt de) as [<-|N2]; [|split; discriminate]. cbn [andb].
    assert (Hc : x_ltb (feval XF c1 (sc k a) (sc k b) (sc k md) sa sb sx) (feval XF c2 (sc k a) (sc k b) (sc k md) sa sb sx)
              = x_ltb (feval XF c1 a b md sa sb sx) (feval XF c2 a b md sa sb sx)).
    { destruct d1 as [|[|d1]].
      - rewrite (proj1 IH1 eq_refl), (proj1 IH2 eq_refl). reflexivity.
      - rewrite (proj2 IH1 eq_refl), (proj2 IH2 eq_refl). apply sc_ltb.
      - exfalso. exact (deg_le1 c1 E1). }
    rewrite Hc.
    split; intros H; inversion H; subst dt.
    + rewrite (proj1 IHt eq_refl), (proj1 IHe eq_refl). reflexivity.
    + rewrite (proj2 IHt eq_refl), (proj2 IHe eq_refl). clear Hc.
      destruct (x_ltb (feval XF c1 a b md sa sb sx) (feval XF c2 a b md sa sb sx)); reflexivity.
Qed.

Lemma upd_scale meth k a b md sa sb sx :
  upd_of XF meth (sc k a) (sc k b) (sc k md) sa sb sx = sc k (upd_of XF meth a b md sa sb sx).
Proof. unfold upd_of. apply (proj2 (feval_homog k a b md sa sb sx (formula meth))). apply formulas_degree_one. Qed.

End XReal.

(* ---- the squaring pre-pass and the square-root post-pass factored out ---- *)
Section Core.
Variable T : Type.
Variable K : kops T.
Variable p : profile.

Definition kcore : kops T :=
  {| k_ltb := k_ltb K; k_eqb := k_eqb K; k_max := k_max K; k_inf := k_inf K; k_upd := k_upd K;
     k_sq := fun x => x; k_rt := fun x => x |}.

Definition post (r : res (lstate T * dend T * list T)) : res (lstate T * dend T * list T) :=
  match r with
  | Ok (s, d, m) => Ok (s, sqrt_all K d, m)
  | Panic k => Panic k
  | OutOfFuel => OutOfFuel
  end.

Lemma sqrt_all_core (d : dend T) : sqrt_all kcore d = d.
Proof.
  unfold sqrt_all. cbn [kcore k_rt]. destruct d as [st o]. cbn [d_steps d_obs]. f_equal.
  rewrite <- (map_id st) at 2. apply map_ext. intros [c1 c2 x sz]. reflexivity.
Qed.

Lemma square_all_core (m : list T) : square_all kcore m = m.
Proof. unfold square_all. cbn [kcore k_sq]. apply map_id. Qed.

Lemma sqrt_all_reset (d : dend T) n : sqrt_all K (d_reset d n) = d_reset d n.
Proof. reflexivity. Qed.

Lemma primitive_core meth s d m n :
  primitive_with K p meth s d m n = post (primitive_with kcore p meth s d (square_all K m) n).
Proof.
  unfold primitive_with. rewrite square_all_core.
  destruct (prologue p (square_all K m) n) as [M| |]; cbn [bind post]; try reflexivity.
  destruct (m_obs M =? 0); [reflexivity|].
  change (st_reset kcore s (m_obs M)) with (st_reset K s (m_obs M)).
  change (prim_iter kcore p meth) with (prim_iter K p meth).
  destruct (mfold (prim_iter K p meth) (seq 0 (m_obs M - 1)) (st_reset K s (m_obs M), d_reset d (m_obs M), M)) as [[[s1 d1] M1]| |];
    cbn [bind post]; try reflexivity.
  cbn [kcore k_ltb k_eqb].
  destruct (relabel (k_ltb K) (k_eqb K) (st_set s1) d1 (requires_sorting meth)) as [[u d2]| |]; cbn [bind post]; try reflexivity.
  rewrite sqrt_all_core. reflexivity.
Qed.

Lemma nnchain_core meth s d m n :
  nnchain_with K p meth s d m n = post (nnchain_with kcore p meth s d (square_all K m) n).
Proof.
  unfold nnchain_with. rewrite square_all_core.
  destruct (prologue p (square_all K m) n) as [M| |]; cbn [bind post]; try reflexivity.
  destruct (m_obs M =? 0); [reflexivity|].
  change (st_reset kcore s (m_obs M)) with (st_reset K s (m_obs M)).
  change (chain_iter kcore p meth) with (chain_iter K p meth).
  destruct (mfold (chain_iter K p meth) (seq 0 (m_obs M - 1)) (st_with_chain (st_reset K s (m_obs M)) [], d_reset d (m_obs M), M)) as [[[s1 d1] M1]| |];
    cbn [bind post]; try reflexivity.
  cbn [kcore k_ltb k_eqb].
  destruct (relabel (k_ltb K) (k_eqb K) (st_set s1) d1 (requires_sorting meth)) as [[u d2]| |]; cbn [bind post]; try reflexivity.
  rewrite sqrt_all_core. reflexivity.
Qed.

Lemma generic_core meth s d m n :
  generic_with K p meth s d m n = post (generic_with kcore p meth s d (square_all K m) n).
Proof.
  unfold generic_with. rewrite square_all_core.
  destruct (prologue p (square_all K m) n) as [M| |]; cbn [bind post]; try reflexivity.
  destruct (m_obs M =? 0); [reflexivity|].
  change (st_reset kcore s (m_obs M)) with (st_reset K s (m_obs M)).
  change (k_inf kcore) with (k_inf K). change (k_ltb kcore) with (k_ltb K). change (k_eqb kcore) with (k_eqb K).
  change (init_row kcore p M) with (init_row K p M).
  change (gen_iter kcore p meth) with (gen_iter K p meth).
  destruct (mfold (init_row K p M) (seq 0 (m_obs M - 1))
              (h_prio (h_heapify_pre (k_inf K) (st_queue (st_reset K s (m_obs M)))), st_nearest (st_reset K s (m_obs M))))
    as [[dists nearest]| |]; cbn [bind post]; try reflexivity.
  destruct (h_heapify_post (k_ltb K) (h_heapify_pre (k_inf K) (st_queue (st_reset K s (m_obs M)))) dists) as [q1| |];
    cbn [bind post]; try reflexivity.
  destruct (mfold (gen_iter K p meth) (seq 0 (m_obs M - 1))
              (st_with_nearest (st_with_queue (st_reset K s (m_obs M)) q1) nearest, d_reset d (m_obs M), M)) as [[[s1 d1] M1]| |];
    cbn [bind post]; try reflexivity.
  destruct (relabel (k_ltb K) (k_eqb K) (st_set s1) d1 (requires_sorting meth)) as [[u d2]| |]; cbn [bind post]; try reflexivity.
  rewrite sqrt_all_core. reflexivity.
Qed.

End Core.

(* ---- scale equivariance of every entry point ---- *)
Section Scale.
Variable prec : Z.
Context {prec_gt_0_ : Prec_gt_0 prec}.
Variable p : profile.

Notation X := (XF prec).

Definition em (meth : method) (e : Z) : Z := if on_squares meth then (2 * e)%Z else e.

Definition scale_out (e eM : Z) (r : res (dend xr * list xr)) : res (dend xr * list xr) :=
  match r with
  | Ok (d, m) => Ok (map_dend (sc e) d, map (sc eM) m)
  | Panic k => Panic k
  | OutOfFuel => OutOfFuel
  end.

Definition post_out (K : kops xr) (r : res (dend xr * list xr)) : res (dend xr * list xr) :=
  match r with
  | Ok (d, m) => Ok (sqrt_all K d, m)
  | Panic k => Panic k
  | OutOfFuel => OutOfFuel
  end.

Lemma out_post (K : kops xr) r : out_of (post K r) = post_out K (out_of r).
Proof. destruct r as [[[s d] m]| |]; reflexivity. Qed.

Lemma square_scale meth e (m : list xr) :
  square_all (kops_of X meth) (map (sc e) m) = map (sc (em meth e)) (square_all (kops_of X meth) m).
Proof.
  unfold square_all, em. rewrite !map_map. apply map_ext. intros x. cbn [kops_of k_sq].
  destruct (on_squares meth); [apply sc_sq|reflexivity].
Qed.

Lemma post_scale meth e r :
  post_out (kops_of X meth) (map_out (sc (em meth e)) r) = scale_out e (em meth e) (post_out (kops_of X meth) r).
Proof.
  destruct r as [[d m]| |]; cbn [map_out post_out scale_out]; try reflexivity. f_equal. f_equal.
  unfold sqrt_all, map_dend. cbn [d_steps d_obs]. f_equal. rewrite !map_map. apply map_ext.
  intros [c1 c2 x sz]. unfold map_step, step_set_dis. cbn [s_c1 s_c2 s_dis s_size kops_of k_rt]. f_equal.
  unfold em. destruct (on_squares meth); [apply sc_sqrt|reflexivity].
Qed.

(* the core (no squaring, no square root) commutes with scaling its matrix *)
Section CoreEquivariance.
Variable meth : method.
Notation KC := (kcore (kops_of X meth)).
Variable eM : Z.

Let Hlt : forall x y : xr, True -> True -> k_ltb KC (sc eM x) (sc eM y) = k_ltb KC x y.
Proof. intros x y _ _. apply sc_ltb. Qed.
Let Heq : forall x y : xr, True -> True -> k_eqb KC (sc eM x) (sc eM y) = k_eqb KC x y.
Proof. intros x y _ _. apply sc_eqb. Qed.
Let Hmax : True /\ k_max KC = sc eM (k_max KC). Proof. split; [exact I|reflexivity]. Qed.
Let Hinf : True /\ k_inf KC = sc eM (k_inf KC). Proof. split; [exact I|reflexivity]. Qed.
Let Hupd : forall (a b md : xr) (sa sb sx : nat), True -> True -> True ->
  True /\ k_upd KC (sc eM a) (sc eM b) (sc eM md) sa sb sx = sc eM (k_upd KC a b md sa sb sx).
Proof. intros a b md sa sb sx _ _ _. split; [exact I|]. apply upd_scale. Qed.
Let Hsq : forall x : xr, True -> True /\ k_sq KC (sc eM x) = sc eM (k_sq KC x).
Proof. intros x _. split; [exact I|reflexivity]. Qed.
Let Hrt : forall x : xr, True -> True /\ k_rt KC (sc eM x) = sc eM (k_rt KC x).
Proof. intros x _. split; [exact I|reflexivity]. Qed.

Lemma all_true (m : list xr) : Forall (fun _ => True) m.
Proof. apply Forall_forall. intros; exact I. Qed.

Lemma primitive_core_scale s1 d1 s2 d2 m n :
  out_of (primitive_with KC p meth s1 d1 (map (sc eM) m) n) = map_out (sc eM) (out_of (primitive_with KC p meth s2 d2 m n)).
Proof.
  rewrite (primitive_pure p KC s1 (st_new xr) d1 (d_new xr 0)), (primitive_pure p KC s2 (st_new xr) d2 (d_new xr 0)).
  exact (@primitive_equivariant xr xr (sc eM) (fun _ => True) KC KC p Hlt Heq Hmax Hinf Hupd Hsq Hrt meth m n (all_true m)).
Qed.

Lemma nnchain_core_scale s1 d1 s2 d2 m n :
  out_of (nnchain_with KC p meth s1 d1 (map (sc eM) m) n) = map_out (sc eM) (out_of (nnchain_with KC p meth s2 d2 m n)).
Proof.
  rewrite (nnchain_pure p KC s1 (st_new xr) d1 (d_new xr 0)), (nnchain_pure p KC s2 (st_new xr) d2 (d_new xr 0)).
  exact (@nnchain_equivariant xr xr (sc eM) (fun _ => True) KC KC p Hlt Heq Hmax Hinf Hupd Hsq Hrt meth m n (all_true m)).
Qed.

Lemma generic_core_scale s1 d1 s2 d2 m n :
  out_of (generic_with KC p meth s1 d1 (map (sc eM) m) n) = map_out (sc eM) (out_of (generic_with KC p meth s2 d2 m n)).
Proof.
  rewrite (generic_pure p KC s1 (st_new xr) d1 (d_new xr 0)), (generic_pure p KC s2 (st_new xr) d2 (d_new xr 0)).
  exact (@generic_equivariant xr xr (sc eM) (fun _ => True) KC KC p Hlt Heq Hmax Hinf Hupd Hsq Hrt meth m n (all_true m)).
Qed.

End CoreEquivariance.

Theorem primitive_scale meth e s1 d1 s2 d2 m n :
  out_of (primitive_with (kops_of X meth) p meth s1 d1 (map (sc e) m) n)
  = scale_out e (em meth e) (out_of (primitive_with (kops_of X meth) p meth s2 d2 m n)).
Proof.
  rewrite (primitive_core (kops_of X meth) p meth s1 d1 (map (sc e) m) n), (primitive_core (kops_of X meth) p meth s2 d2 m n).
  rewrite !out_post, square_scale.
  rewrite (primitive_core_scale meth (em meth e) s1 d1 s2 d2). apply post_scale.
Qed.

Theorem nnchain_scale meth e s1 d1 s2 d2 m n :
  out_of (nnchain_with (kops_of X meth) p meth s1 d1 (map (sc e) m) n)
  = scale_out e (em meth e) (out_of (nnchain_with (kops_of X meth) p meth s2 d2 m n)).
Proof.
  rewrite (nnchain_core (kops_of X meth) p meth s1 d1 (map (sc e) m) n), (nnchain_core (kops_of X meth) p meth s2 d2 m n).
  rewrite !out_post, square_scale.
  rewrite (nnchain_core_scale meth (em meth e) s1 d1 s2 d2). apply post_scale.
Qed.

Theorem generic_scale meth e s1 d1 s2 d2 m n :
  out_of (generic_with (kops_of X meth) p meth s1 d1 (map (sc e) m) n)
  = scale_out e (em meth e) (out_of (generic_with (kops_of X meth) p meth s2 d2 m n)).
Proof.
  rewrite (generic_core (kops_of X meth) p meth s1 d1 (map (sc e) m) n), (generic_core (kops_of X meth) p meth s2 d2 m n).
  rewrite !out_post, square_scale.
  rewrite (generic_core_scale meth (em meth e) s1 d1 s2 d2). apply post_scale.
Qed.

(* mst has no squaring pass: directly *)
Theorem mst_scale e s1 d1 s2 d2 m n :
  out_of (mst_with (kops_of X Single) p s1 d1 (map (sc e) m) n)
  = scale_out e e (out_of (mst_with (kops_of X Single) p s2 d2 m n)).
Proof.
  rewrite (mst_pure p (kops_of X Single) s1 (st_new xr) d1 (d_new xr 0)), (mst_pure p (kops_of X Single) s2 (st_new xr) d2 (d_new xr 0)).
  rewrite (@mst_equivariant xr xr (sc e) (fun _ => True) (kops_of X Single) (kops_of X Single) p
             ltac:(intros x y _ _; apply sc_ltb) ltac:(intros x y _ _; apply sc_eqb)
             ltac:(split; [exact I|reflexivity]) ltac:(split; [exact I|reflexivity])
             ltac:(intros a b md sa sb sx _ _ _; split; [exact I|apply upd_scale])
             ltac:(intros x _; split; [exact I|reflexivity]) ltac:(intros x _; split; [exact I|reflexivity])
             m n (all_true m)).
  destruct (out_of (mst_with (kops_of X Single) p (st_new xr) (d_new xr 0) m n)) as [[d mm]| |]; reflexivity.
Qed.

(* every entry point, every method *)
Theorem scale_equivariance (a : algo) (meth : method) e s1 d1 s2 d2 m n :
  out_of (run_with X p a meth s1 d1 (map (sc e) m) n)
  = scale_out e (match a with AMst => e | _ => em meth e end) (out_of (run_with X p a meth s2 d2 m n)).
Proof.
  destruct a; cbn [run_with].
  - unfold linkage_with. destruct meth; cbn [chain_capable];
      first [apply mst_scale | apply nnchain_scale | apply generic_scale].
  - apply mst_scale.
  - apply nnchain_scale.
  - apply generic_scale.
  - apply primitive_scale.
Qed.

End Scale.
