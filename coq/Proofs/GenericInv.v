(* Muellner's generic algorithm (src/generic.rs): loop invariant.

   Heap = live clusters, ordered; every live cluster but the last has a live
   nearest-neighbour candidate above it; the last cluster keeps the sentinel
   priority max_value while every other priority and every working
   dissimilarity stays strictly below it - so the cluster popped is never the
   last one, its candidate is a valid partner, the repair loop terminates, and
   every merge joins two distinct live clusters. *)
Require Import KV.Model.Prelude KV.Model.Condensed KV.Model.Active KV.Model.Heap
  KV.Model.UnionFind KV.Model.Dendrogram KV.Model.Methods KV.Model.State KV.Model.Generic
  KV.Proofs.ResetCanon KV.Proofs.ActiveRefine KV.Proofs.CondensedIdx KV.Proofs.SortProofs KV.Proofs.Monotone
  KV.Proofs.MstCost KV.Proofs.Shape KV.Proofs.PrimitiveGreedy KV.Proofs.Forest KV.Proofs.UnionFindInv
  KV.Proofs.RelabelWF KV.Proofs.PrimitiveWF KV.Proofs.PrimitiveTotal KV.Proofs.UpdateSpec KV.Proofs.ShapeCheck
  KV.Proofs.LWInvariant KV.Proofs.ChainInv KV.Proofs.ChainIter KV.Proofs.HeapInv.
From Coq Require Import Sorting.Sorted.

Set Implicit Arguments.

Lemma pair_eq_dec (p1 p2 : nat * nat) : {p1 = p2} + {p1 <> p2}.
Proof. decide equality; apply Nat.eq_dec. Qed.

Lemma filter_len_le_all {A} (f : A -> bool) (l : list A) : length (filter f l) <= length l.
Proof. induction l as [|x l IH]; [reflexivity|]. cbn [filter]. destruct (f x); cbn [length]; lia. Qed.

Section GenericInv.
Variable T : Type.
Variable K : kops T.
Variable p : profile.
Variable meth : method.
Hypothesis ltb_irrefl : forall a, k_ltb K a a = false.
Hypothesis ltb_trans : forall a b c, k_ltb K a b = true -> k_ltb K b c = true -> k_ltb K a c = true.
Hypothesis ltb_negtrans : forall a b c, k_ltb K a b = false -> k_ltb K b c = false -> k_ltb K a c = false.
Hypothesis eqb_refl : forall a, k_eqb K a a = true.

Notation ltb := (k_ltb K).
Notation mx := (k_inf K).

(* the update formula keeps values below max_value *)
Hypothesis upd_below_max : forall va vb md sa sb sx,
  ltb va mx = true -> ltb vb mx = true -> ltb md mx = true -> ltb (k_upd K va vb md sa sb sx) mx = true.

Definition below_max (M : cmat T) (L : list nat) : Prop :=
  forall x y v, In x L -> In y L -> x <> y -> wcell M x y = Some v -> ltb v mx = true.

(* the heap / candidate part of the invariant, for a live set L whose largest
   element is z *)
Definition QN (n0 z : nat) (q : heap T) (nearest : list nat) (L : list nat) : Prop :=
  HInv n0 q /\ HOrd ltb q /\ (forall x, inh q x <-> In x L)
  /\ length nearest = n0
  /\ (forall x, In x L -> x <> z -> exists y, nth_error nearest x = Some y /\ In y L /\ x < y)
  /\ nth_error (h_prio q) z = Some mx
  /\ (forall x, In x L -> x <> z -> exists v, nth_error (h_prio q) x = Some v /\ ltb v mx = true).

(* with at least two live clusters the top of the heap is not z *)
Lemma top_not_z n0 z q nearest L : QN n0 z q nearest L -> In z L -> 2 <= length L -> NoDup L ->
  exists a, nth_error (h_heap q) 0 = Some a /\ In a L /\ a <> z.
Proof.
  intros (HI & HO & Hin & _ & _ & Hz & Hlt) Hzl HL2 Hnd.
  (* some other live cluster exists *)
  assert (Hother : exists x, In x L /\ x <> z).
  { destruct L as [|x1 [|x2 t]]; cbn [length] in HL2; try lia.
    destruct (Nat.eq_dec x1 z) as [->|E]; [|exists x1; split; [left; reflexivity|exact E]].
    exists x2. split; [right; left; reflexivity|]. intros ->. inversion Hnd as [|? ? Hn _]; subst. apply Hn. left. reflexivity. }
  destruct Hother as (x & Hx & Hxz).
  assert (Hxq : inh q x) by (apply Hin; exact Hx).
  destruct (@inh_pos T n0 q x HI Hxq) as (kx & Kx & Bx & _).
  destruct (nth_error (h_heap q) 0) as [a|] eqn:E0; [|apply nth_error_None in E0; lia].
  exists a. assert (Ha : In a L) by (apply Hin; eapply nth_error_In; exact E0).
  split; [reflexivity|]. split; [exact Ha|]. intros ->.
  destruct (Hlt x Hx Hxz) as (v & Hv & Hvlt).
  assert (Hpx : pp q kx = Some v) by (unfold pp; rewrite Kx; exact Hv).
  assert (Hp0 : pp q 0 = Some mx) by (unfold pp; rewrite E0; exact Hz).
  pose proof (@top_min T ltb ltb_irrefl ltb_negtrans n0 q HI HO kx v mx Hpx Hp0) as Hmin. congruence.
Qed.

(* ---- the rescan of one row (inside the repair loop) ---- *)
Definition rescan_step (M : cmat T) (a : nat) (acc : T * list nat) (x : nat) : res (T * list nat) :=
  let '(mn, nr) := acc in
  do v <- mget p M a x;
  if ltb v mn then do nr' <- vset nr a x; Ok (v, nr') else Ok (mn, nr).

Lemma rescan_spec (M : cmat T) (a : nat) : wf_mat M -> forall xs mn0 nr0,
  (forall x, In x xs -> a < x /\ x < m_obs M) -> a < length nr0 ->
  exists mn nr, mfold (rescan_step M a) xs (mn0, nr0) = Ok (mn, nr)
    /\ length nr = length nr0 /\ (forall y, y <> a -> nth_error nr y = nth_error nr0 y)
    /\ (forall x v, In x xs -> wcell M a x = Some v -> ltb v mn = false)
    /\ ((mn = mn0 /\ nr = nr0)
        \/ (exists x, In x xs /\ nth_error nr a = Some x /\ wcell M a x = Some mn /\ ltb mn mn0 = true)).
Proof.
  intros Hwf. induction xs as [|x xs IH]; intros mn0 nr0 Hxs Ha.
  - exists mn0, nr0. split; [reflexivity|]. split; [reflexivity|]. split; [reflexivity|]. split; [intros x v []|left; split; reflexivity].
  - cbn [mfold]. unfold rescan_step at 1. destruct (Hxs x (or_introl eq_refl)) as [Hax Hxn].
    destruct (@mget_cellv T p M Hwf a x Hax Hxn) as (v & Hv & Hg). rewrite Hg. cbn [bind].
    destruct (ltb v mn0) eqn:C.
    + unfold vset. destruct (Nat.ltb_spec a (length nr0)); [|lia]. cbn [bind].
      destruct (IH v (set_nth nr0 a x) (fun y Hy => Hxs y (or_intror Hy)) ltac:(rewrite set_nth_length; exact Ha))
        as (mn & nr & Hf & Hl & Hfr & Hmin & Hcase).
      exists mn, nr. split; [exact Hf|]. split; [rewrite Hl; apply set_nth_length|].
      split; [intros y Hy; rewrite (Hfr y Hy); apply nth_error_set_nth_neq; exact Hy|].
      assert (Hlow : mn = v \/ ltb mn v = true).
      { destruct Hcase as [[-> _]|(x' & _ & _ & _ & Hlt)]; [left; reflexivity|right; exact Hlt]. }
      split.
      * intros y w [<-|Hy] Hw; [|exact (Hmin y w Hy Hw)].
        unfold cellv in Hv. rewrite Hv in Hw. inversion Hw; subst w.
        destruct Hlow as [->|Hlt]; [apply ltb_irrefl|]. destruct (ltb v mn) eqn:C2; [|reflexivity].
        pose proof (@ltb_trans _ _ _ C2 Hlt) as C3. rewrite ltb_irrefl in C3. discriminate.
      * right. destruct Hcase as [[-> ->]|(x' & Hin' & Hn' & Hc' & Hlt')].
        -- exists x. split; [left; reflexivity|]. split; [apply nth_error_set_nth_eq; exact Ha|]. split; [exact Hv|exact C].
        -- exists x'. split; [right; exact Hin'|]. split; [exact Hn'|]. split; [exact Hc'|exact (@ltb_trans _ _ _ Hlt' C)].
    + destruct (IH mn0 nr0 (fun y Hy => Hxs y (or_intror Hy)) Ha) as (mn & nr & Hf & Hl & Hfr & Hmin & Hcase).
      exists mn, nr. split; [exact Hf|]. split; [exact Hl|]. split; [exact Hfr|].
      assert (Hlow : mn = mn0 \/ ltb mn mn0 = true).
      { destruct Hcase as [[-> _]|(x' & _ & _ & _ & Hlt)]; [left; reflexivity|right; exact Hlt]. }
      split.
      * intros y w [<-|Hy] Hw; [|exact (Hmin y w Hy Hw)].
        unfold cellv in Hv. rewrite Hv in Hw. inversion Hw; subst w.
        destruct Hlow as [->|Hlt]; [exact C|]. destruct (ltb v mn) eqn:C2; [|reflexivity].
        rewrite (@ltb_trans _ _ _ C2 Hlt) in C. discriminate.
      * destruct Hcase as [[-> ->]|(x' & Hin' & Hn' & Hc' & Hlt')]; [left; split; reflexivity|].
        right. exists x'. split; [right; exact Hin'|]. split; [exact Hn'|]. split; assumption.
Qed.

(* ---- the repair loop ---- *)
Definition stale (M : cmat T) (q : heap T) (nr : list nat) (x : nat) : bool :=
  match nth_error nr x with
  | Some y => match wcell M x y with
              | Some v => match nth_error (h_prio q) x with Some pv => negb (k_eqb K v pv) | None => false end
              | None => false end
  | None => false end.

Lemma filter_lt_one {A} (f g : A -> bool) (l : list A) (a : A) :
  In a l -> g a = true -> f a = false -> (forall x, x <> a -> f x = g x) ->
  length (filter f l) < length (filter g l).
Proof.
  intros Hin Hg Hf Hother. induction l as [|x l IH]; [destruct Hin|]. cbn [filter].
  assert (Hle : forall l', length (filter f l') <= length (filter g l')).
  { induction l' as [|y l' IH']; [reflexivity|]. cbn [filter].
    destruct (f y) eqn:Ef.
    - assert (g y = true) by (destruct (g y) eqn:Eg; [reflexivity|]; rewrite <- Ef, <- Eg;
        symmetry; apply Hother; intros ->; congruence). rewrite H. cbn [length]. lia.
    - destruct (g y); cbn [length]; lia. }
  destruct Hin as [->|Hin].
  - rewrite Hg, Hf. cbn [length]. pose proof (Hle l). lia.
  - specialize (IH Hin). destruct (f x) eqn:Ef.
    + assert (g x = true) by (destruct (g x) eqn:Eg; [reflexivity|]; rewrite <- Ef, <- Eg;
        symmetry; apply Hother; intros ->; congruence). rewrite H. cbn [length]. lia.
    + destruct (g x); cbn [length]; lia.
Qed.

Section Repair.
Variable M : cmat T.
Hypothesis Hwf : wf_mat M.
Variable L : list nat.
Variable n0 z : nat.
Hypothesis HMo : m_obs M = n0.
Hypothesis Hz : In z L.
Hypothesis Hzmax : forall x, In x L -> x <= z.
Hypothesis Hzn : z < n0.
Hypothesis HL2 : 2 <= length L.
Hypothesis Hnd : NoDup L.
Hypothesis Hbm : below_max M L.

Lemma repair_spec : forall fuel s,
  AInv (st_active s) L -> QN n0 z (st_queue s) (st_nearest s) L ->
  length (filter (stale M (st_queue s) (st_nearest s)) L) < fuel ->
  exists q' nr', repair K p fuel s M = Ok (st_with_queue (st_with_nearest s nr') q')
    /\ QN n0 z q' nr' L.
Proof.
  induction fuel as [|fuel IH]; intros s HA HQ Hf; [lia|].
  pose proof HQ as (HI & HO & Hin & Hnl & Hnear & Hpz & Hplt).
  pose proof HA as (Hlen & Hl & Hdead).
  assert (HB : forall x, In x L -> x < n0) by (intros x Hx; pose proof (Hzmax x Hx); lia).
  destruct (@top_not_z n0 z (st_queue s) (st_nearest s) L HQ Hz HL2 Hnd) as (a & E0 & Ha & Haz).
  cbn [repair]. unfold h_peek. rewrite E0. cbn [opt_unwrap bind].
  destruct (Hnear a Ha Haz) as (na & Hna & Hnal & Hana).
  unfold vget at 1. rewrite Hna. cbn [bind].
  destruct (@mget_cellv T p M Hwf a na Hana ltac:(rewrite HMo; apply HB; exact Hnal)) as (v & Hv & Hg). rewrite Hg. cbn [bind].
  assert (Haq : inh (st_queue s) a) by (apply Hin; exact Ha).
  destruct (@priority_spec T n0 (st_queue s) a HI Haq) as (pa & Hpa & Hpa').
  rewrite Hpa. cbn [bind].
  destruct (k_eqb K v pa) eqn:Ceq.
  - exists (st_queue s), (st_nearest s). split; [|exact HQ]. destruct s; reflexivity.
  - (* rescan the row of a *)
    rewrite (@a_above_spec (st_active s) L a HA Ha). cbn [bind].
    set (xs := filter (fun x => a <? x) L).
    assert (Hxs : forall x, In x xs -> a < x /\ x < m_obs M).
    { intros x Hx. apply filter_In in Hx. destruct Hx as [Hx Hlt]. apply Nat.ltb_lt in Hlt. rewrite HMo. split; [exact Hlt|apply HB; exact Hx]. }
    assert (Haz' : a < z) by (pose proof (Hzmax a Ha); lia).
    assert (Hzxs : In z xs) by (apply filter_In; split; [exact Hz|apply Nat.ltb_lt; exact Haz']).
    destruct (@rescan_spec M a Hwf xs mx (st_nearest s) Hxs ltac:(rewrite Hnl; apply HB; exact Ha))
      as (mn & nr & Hfold & Hnrl & Hfr & Hmin & Hcase).
    change (mfold (rescan_step M a) xs (mx, st_nearest s)) with
      (mfold (fun (acc : T * list nat) x => let '(mn, nr) := acc in
                do v <- mget p M a x; if ltb v mn then do nr' <- vset nr a x; Ok (v, nr') else Ok (mn, nr))
             xs (mx, st_nearest s)) in Hfold.
    rewrite Hfold. cbn [bind].
    (* the scan improved on max_value: the cell to z is below it *)
    destruct (@cellv_ex T p M Hwf a z ltac:(lia) ltac:(rewrite HMo; apply HB; exact Ha) ltac:(rewrite HMo; exact Hzn)) as (vz & Hvz).
    pose proof (Hbm Ha Hz ltac:(lia) Hvz) as Hvzlt.
    assert (Himp : exists x, In x xs /\ nth_error nr a = Some x /\ wcell M a x = Some mn /\ ltb mn mx = true).
    { destruct Hcase as [[-> _]|Hex]; [|exact Hex]. pose proof (Hmin z vz Hzxs Hvz). congruence. }
    destruct Himp as (x' & Hx' & Hnx' & Hcx' & Hmnlt).
    destruct (@set_priority_spec T ltb n0 (st_queue s) a mn HI Haq) as (q' & Hset & HI' & Hprio' & Hrem' & Hlen' & Hin').
    rewrite Hset. cbn [bind].
    assert (HO' : HOrd ltb q') by exact (@set_priority_ord T ltb ltb_irrefl ltb_trans ltb_negtrans n0 (st_queue s) a mn q' HI HO Haq Hset).
    assert (Han0 : a < n0) by (apply HB; exact Ha).
    assert (HQ' : QN n0 z q' nr L).
    { unfold QN. split; [exact HI'|]. split; [exact HO'|]. split; [intros x; rewrite Hin'; apply Hin|].
      split; [rewrite Hnrl; exact Hnl|]. split.
      - intros x Hx Hxz. destruct (Nat.eq_dec x a) as [->|Hxa].
        + exists x'. split; [exact Hnx'|]. apply filter_In in Hx'. destruct Hx' as [Hx'l Hlt]. apply Nat.ltb_lt in Hlt. split; assumption.
        + rewrite (Hfr x Hxa). exact (Hnear x Hx Hxz).
      - split.
        + rewrite Hprio'. rewrite nth_error_set_nth_neq by exact (not_eq_sym Haz). exact Hpz.
        + intros x Hx Hxz. rewrite Hprio'. destruct (Nat.eq_dec x a) as [->|Hxa].
          * exists mn. split; [apply nth_error_set_nth_eq; pose proof HI as (_ & Lp & _); lia|exact Hmnlt].
          * rewrite nth_error_set_nth_neq by exact Hxa. exact (Hplt x Hx Hxz). }
    (* one stale entry fewer *)
    set (s1 := st_with_queue (st_with_nearest s nr) q').
    assert (Hcnt : length (filter (stale M q' nr) L) < length (filter (stale M (st_queue s) (st_nearest s)) L)).
    { apply filter_lt_one with (a := a); [exact Ha| | |].
      - unfold stale. rewrite Hna. unfold cellv in Hv. rewrite Hv, Hpa'. rewrite Ceq. reflexivity.
      - unfold stale. rewrite Hnx', Hcx', Hprio'. rewrite nth_error_set_nth_eq by (pose proof HI as (_ & Lp & _); lia).
        rewrite eqb_refl. reflexivity.
      - intros x Hxa. unfold stale. rewrite (Hfr x Hxa), Hprio'. rewrite nth_error_set_nth_neq by exact Hxa. reflexivity. }
    destruct (IH s1 HA HQ' ltac:(cbn [s1 st_with_queue st_with_nearest st_queue st_nearest]; lia)) as (q2 & nr2 & Hrep & HQ2).
    cbn [s1] in Hrep. rewrite Hrep. exists q2, nr2. split; [|exact HQ2]. destruct s; reflexivity.
Qed.

End Repair.

(* ---- bookkeeping during the update of one merge (a, b) ---- *)
Section Update.
Variable L : list nat.
Variable n0 z a b : nat.
Hypothesis Hz : In z L.
Hypothesis Hzmax : forall x, In x L -> x <= z.
Hypothesis Hzn : z < n0.
Hypothesis Ha : In a L.
Hypothesis Hb : In b L.
Hypothesis Hab : a < b.

(* heap = live clusters minus a; candidates may still point at a *)
Definition BK (q : heap T) (nr : list nat) : Prop :=
  HInv n0 q /\ HOrd ltb q /\ (forall x, inh q x <-> In x L /\ x <> a)
  /\ length nr = n0
  /\ (forall x, In x L -> x <> a -> x <> z -> exists y, nth_error nr x = Some y /\ In y L /\ x < y)
  /\ nth_error (h_prio q) z = Some mx
  /\ (forall x, In x L -> x <> a -> x <> z -> exists v, nth_error (h_prio q) x = Some v /\ ltb v mx = true).

Lemma bk_priority q nr x : BK q nr -> In x L -> x <> a -> exists v, h_priority q x = Ok v.
Proof.
  intros (HI & _ & Hin & _) Hx Hxa. destruct (@priority_spec T n0 q x HI (proj2 (Hin x) (conj Hx Hxa))) as (v & Hv & _).
  exists v. exact Hv.
Qed.

Lemma bk_set_prio q nr x v : BK q nr -> In x L -> x <> a -> x <> z -> ltb v mx = true ->
  exists q', h_set_priority ltb q x v = Ok q' /\ BK q' nr.
Proof.
  intros (HI & HO & Hin & Hnl & Hnear & Hpz & Hplt) Hx Hxa Hxz Hv.
  assert (Hxq : inh q x) by (apply Hin; split; assumption).
  destruct (@set_priority_spec T ltb n0 q x v HI Hxq) as (q' & Hset & HI' & Hprio' & _ & _ & Hin').
  exists q'. split; [exact Hset|].
  assert (HO' : HOrd ltb q') by exact (@set_priority_ord T ltb ltb_irrefl ltb_trans ltb_negtrans n0 q x v q' HI HO Hxq Hset).
  unfold BK. split; [exact HI'|]. split; [exact HO'|]. split; [intros y; rewrite Hin'; apply Hin|]. split; [exact Hnl|].
  split; [exact Hnear|]. rewrite Hprio'. split.
  - rewrite nth_error_set_nth_neq by exact (not_eq_sym Hxz). exact Hpz.
  - intros y Hy Hya Hyz. destruct (Nat.eq_dec y x) as [->|Hyx].
    + exists v. split; [|exact Hv]. apply nth_error_set_nth_eq. pose proof HI as (_ & Lp & _). pose proof (Hzmax x Hx). lia.
    + rewrite nth_error_set_nth_neq by exact Hyx. exact (Hplt y Hy Hya Hyz).
Qed.

Lemma bk_set_near q nr x w : BK q nr -> In x L -> In w L -> x < w ->
  exists nr', vset nr x w = Ok nr' /\ BK q nr' /\ nth_error nr' x = Some w
    /\ (forall y, y <> x -> nth_error nr' y = nth_error nr y).
Proof.
  intros (HI & HO & Hin & Hnl & Hnear & Hpz & Hplt) Hx Hw Hxw.
  assert (Hxn : x < n0) by (pose proof (Hzmax x Hx); lia).
  unfold vset. destruct (Nat.ltb_spec x (length nr)); [|lia]. eexists. split; [reflexivity|].
  split; [|split; [apply nth_error_set_nth_eq; lia|intros y Hy; apply nth_error_set_nth_neq; exact Hy]].
  unfold BK. split; [exact HI|]. split; [exact HO|]. split; [exact Hin|]. split; [rewrite set_nth_length; exact Hnl|].
  split; [|split; [exact Hpz|exact Hplt]].
  intros y Hy Hya Hyz. destruct (Nat.eq_dec y x) as [->|Hyx].
  - exists w. split; [apply nth_error_set_nth_eq; lia|]. split; assumption.
  - rewrite nth_error_set_nth_neq by exact Hyx. exact (Hnear y Hy Hya Hyz).
Qed.

Lemma bk_get_near q nr x : BK q nr -> In x L -> exists y, vget nr x = Ok y.
Proof.
  intros (_ & _ & _ & Hnl & _) Hx. assert (Hxn : x < n0) by (pose proof (Hzmax x Hx); lia).
  unfold vget. destruct (nth_error nr x) eqn:E; [eexists; reflexivity|apply nth_error_None in E; lia].
Qed.

(* state of the three update loops *)
Variable act : active.
Variable szs : list nat.
Hypothesis HAct : AInv act L.
Hypothesis HActN : length (a_next act) = n0.
Hypothesis Hszs : length szs = n0.

Definition GI (s : lstate T) (M : cmat T) : Prop :=
  st_active s = act /\ st_sizes s = szs /\ wf_mat M /\ m_obs M = n0 /\ below_max M L
  /\ BK (st_queue s) (st_nearest s).

Lemma live_lt x : In x L -> x < n0.
Proof. intros Hx. pose proof (Hzmax x Hx). lia. Qed.

(* one cell update keeps everything below max_value *)
Lemma upd_cell_bm (M : cmat T) r1 c1 x dist sa sb (u w : nat) :
  wf_mat M -> m_obs M = n0 -> below_max M L -> ltb dist mx = true ->
  In u L -> In w L -> u < w -> In x L ->
  (* source cell {x, a}, target cell {u, w} = {x, b} *)
  (r1, c1) = (Nat.min x a, Nat.max x a) -> x <> a -> x <> b -> (u, w) = (Nat.min x b, Nat.max x b) ->
  exists M', upd_cell K p meth szs M r1 c1 u w x dist sa sb = Ok M'
    /\ wf_mat M' /\ m_obs M' = n0 /\ below_max M' L.
Proof.
  intros Hwf Ho Hbm Hd Hu Hw Huw Hx Esrc Hxa Hxb Etgt. inversion Esrc; subst r1 c1.
  assert (Hxn : x < n0) by (apply live_lt; exact Hx). assert (Han : a < n0) by (apply live_lt; exact Ha).
  assert (Hwn : w < n0) by (apply live_lt; exact Hw).
  destruct (@upd_cell_ok T K p meth szs M (Nat.min x a) (Nat.max x a) u w x dist sa sb Hwf ltac:(lia) ltac:(lia) Huw ltac:(lia) ltac:(lia))
    as (M' & Hupd & Hwf' & Ho').
  exists M'. split; [exact Hupd|]. split; [exact Hwf'|]. split; [lia|].
  destruct (@upd_cell_spec T K p meth szs M M' (Nat.min x a) (Nat.max x a) u w x dist sa sb Hwf ltac:(lia) ltac:(lia) Huw ltac:(lia) Hupd)
    as (va & vb & sx & Ca & Cb & _ & Cnew & Cother & _ & _).
  intros y1 y2 v Hy1 Hy2 Hy12 Hv. unfold wcell in Hv.
  destruct (pair_eq_dec (Nat.min y1 y2, Nat.max y1 y2) (u, w)) as [E|E].
  - inversion E as [[E1 E2]]. rewrite E1, E2, Cnew in Hv. inversion Hv; subst v.
    apply upd_below_max; [| |exact Hd].
    + apply (Hbm x a va Hx Ha Hxa). exact Ca.
    + apply (Hbm x b vb Hx Hb Hxb). unfold wcell. inversion Etgt as [[F1 F2]]. rewrite <- F1, <- F2. exact Cb.
  - rewrite Cother in Hv; [exact (Hbm y1 y2 v Hy1 Hy2 Hy12 Hv)|lia| |exact E].
    pose proof (@live_lt _ Hy1). pose proof (@live_lt _ Hy2). lia.
Qed.

Lemma gi_mget s M x y : GI s M -> In x L -> In y L -> x < y ->
  exists v, mget p M x y = Ok v /\ wcell M x y = Some v /\ ltb v mx = true.
Proof.
  intros (_ & _ & Hwf & Ho & Hbm & _) Hx Hy Hxy.
  destruct (@mget_cellv T p M Hwf x y Hxy ltac:(rewrite Ho; apply live_lt; exact Hy)) as (v & Hv & Hg).
  exists v. split; [exact Hg|]. split; [exact Hv|]. exact (Hbm x y v Hx Hy ltac:(lia) Hv).
Qed.

(* common tail: rename a stale candidate a into b *)
Lemma rename_tail s M x : GI s M -> In x L -> x < a ->
  exists s', (do nx <- vget (st_nearest s) x;
              if nx =? a then do nr <- vset (st_nearest s) x b; Ok (st_with_nearest s nr, M) else Ok (s, M)) = Ok (s', M)
    /\ GI s' M /\ nth_error (st_nearest s') x <> Some a
    /\ (forall y, y <> x -> nth_error (st_nearest s') y = nth_error (st_nearest s) y).
Proof.
  intros HG Hx Hxa. pose proof HG as (E1 & E2 & Hwf & Ho & Hbm & HBK).
  destruct (@bk_get_near _ _ _ HBK Hx) as (nx & Hnx). rewrite Hnx. cbn [bind].
  destruct (Nat.eqb_spec nx a) as [->|Hne].
  - destruct (@bk_set_near (st_queue s) (st_nearest s) x b HBK Hx Hb ltac:(lia)) as (nr' & Hset & HBK' & Hnew & Hfr).
    rewrite Hset. cbn [bind]. eexists. split; [reflexivity|]. cbn [st_with_nearest st_nearest st_queue].
    split; [unfold GI; cbn [st_with_nearest st_active st_sizes st_queue st_nearest]; auto 10|].
    split; [rewrite Hnew; intros E; inversion E; lia|exact Hfr].
  - exists s. split; [reflexivity|]. split; [exact HG|]. split; [|reflexivity].
    unfold vget in Hnx. destruct (nth_error (st_nearest s) x); inversion Hnx; subst. intros E; inversion E; contradiction.
Qed.

(* offer the new cell {x,b} to x's candidate *)
Lemma offer_tail s M x v : GI s M -> In x L -> x < b -> x <> a -> ltb v mx = true ->
  exists q' nr', (do q <- h_set_priority ltb (st_queue s) x v;
                  do nr <- vset (st_nearest s) x b; Ok (st_with_nearest (st_with_queue s q) nr, M))
                 = Ok (st_with_nearest (st_with_queue s q') nr', M)
    /\ GI (st_with_nearest (st_with_queue s q') nr') M /\ nth_error nr' x = Some b
    /\ (forall y, y <> x -> nth_error nr' y = nth_error (st_nearest s) y).
Proof.
  intros HG Hx Hxb Hxa Hlt. pose proof HG as (E1 & E2 & Hwf & Ho & Hbm & HBK).
  assert (Hxz : x <> z) by (pose proof (Hzmax b Hb); lia).
  destruct (@bk_set_prio (st_queue s) (st_nearest s) x v HBK Hx Hxa Hxz Hlt) as (q' & Hset & HBK').
  rewrite Hset. cbn [bind].
  destruct (@bk_set_near q' (st_nearest s) x b HBK' Hx Hb Hxb) as (nr' & Hsn & HBK2 & Hnew & Hfr).
  rewrite Hsn. cbn [bind]. exists q', nr'. split; [reflexivity|].
  split; [unfold GI; cbn [st_with_nearest st_with_queue st_active st_sizes st_queue st_nearest]; auto 10|].
  split; [exact Hnew|exact Hfr].
Qed.

Lemma gen_below_step dist sa sb s M x : GI s M -> In x L -> x < a -> ltb dist mx = true ->
  exists s' M', gen_below K p meth a b dist sa sb (s, M) x = Ok (s', M')
    /\ GI s' M' /\ nth_error (st_nearest s') x <> Some a
    /\ (forall y, y <> x -> nth_error (st_nearest s') y = nth_error (st_nearest s) y).
Proof.
  intros HG Hx Hxa Hd. pose proof HG as (E1 & E2 & Hwf & Ho & Hbm & HBK).
  unfold gen_below. rewrite E2.
  destruct (@upd_cell_bm M x a x dist sa sb x b Hwf Ho Hbm Hd Hx Hb ltac:(lia) Hx
              ltac:(rewrite Nat.min_l, Nat.max_r by lia; reflexivity) ltac:(lia) ltac:(lia)
              ltac:(rewrite Nat.min_l, Nat.max_r by lia; reflexivity))
    as (M' & Hupd & Hwf' & Ho' & Hbm').
  rewrite Hupd. cbn [bind].
  assert (HG' : GI s M') by (unfold GI; auto 10).
  destruct (below_kind_of meth).
  - destruct (@rename_tail _ _ _ HG' Hx Hxa) as (s' & Hr & HGs & Hna & Hfr). rewrite Hr. exists s', M'. auto.
  - destruct (@gi_mget _ _ _ _ HG' Hx Hb ltac:(lia)) as (v & Hg & Hc & Hlt). rewrite Hg. cbn [bind].
    destruct (@bk_priority _ _ _ HBK Hx ltac:(lia)) as (px & Hpx). rewrite Hpx. cbn [bind].
    destruct (ltb v px).
    + destruct (@offer_tail s M' x v HG' Hx ltac:(lia) ltac:(lia) Hlt) as (q' & nr' & Ho2 & HG2 & Hnew & Hfr).
      rewrite Ho2. eexists _, M'. split; [reflexivity|]. split; [exact HG2|]. cbn [st_with_nearest st_nearest].
      split; [rewrite Hnew; intros E; inversion E; lia|exact Hfr].
    + destruct (@rename_tail _ _ _ HG' Hx Hxa) as (s' & Hr & HGs & Hna & Hfr). rewrite Hr. exists s', M'. auto.
Qed.

Lemma gen_between_step dist sa sb s M x : GI s M -> In x L -> a < x -> x < b -> ltb dist mx = true ->
  exists s' M', gen_between K p meth a b dist sa sb (s, M) x = Ok (s', M')
    /\ GI s' M' /\ (forall y, y <> x -> nth_error (st_nearest s') y = nth_error (st_nearest s) y).
Proof.
  intros HG Hx Hax Hxb Hd. pose proof HG as (E1 & E2 & Hwf & Ho & Hbm & HBK).
  unfold gen_between. rewrite E2.
  destruct (@upd_cell_bm M a x x dist sa sb x b Hwf Ho Hbm Hd Hx Hb ltac:(lia) Hx
              ltac:(rewrite Nat.min_r, Nat.max_l by lia; reflexivity) ltac:(lia) ltac:(lia)
              ltac:(rewrite Nat.min_l, Nat.max_r by lia; reflexivity))
    as (M' & Hupd & Hwf' & Ho' & Hbm').
  rewrite Hupd. cbn [bind].
  assert (HG' : GI s M') by (unfold GI; auto 10).
  destruct (tracks_candidates meth); [|exists s, M'; split; [reflexivity|]; split; [exact HG'|reflexivity]].
  destruct (@gi_mget _ _ _ _ HG' Hx Hb Hxb) as (v & Hg & Hc & Hlt). rewrite Hg. cbn [bind].
  destruct (@bk_priority _ _ _ HBK Hx ltac:(lia)) as (px & Hpx). rewrite Hpx. cbn [bind].
  destruct (ltb v px).
  - destruct (@offer_tail s M' x v HG' Hx Hxb ltac:(lia) Hlt) as (q' & nr' & Ho2 & HG2 & Hnew & Hfr).
    rewrite Ho2. eexists _, M'. split; [reflexivity|]. split; [exact HG2|exact Hfr].
  - exists s, M'. split; [reflexivity|]. split; [exact HG'|reflexivity].
Qed.

Lemma gen_above_step dist sa sb s M mn x : GI s M -> In x L -> b < x -> ltb dist mx = true ->
  exists s' M' mn', gen_above K p meth a b dist sa sb (s, M, mn) x = Ok (s', M', mn')
    /\ GI s' M' /\ (forall y, y <> b -> nth_error (st_nearest s') y = nth_error (st_nearest s) y).
Proof.
  intros HG Hx Hbx Hd. pose proof HG as (E1 & E2 & Hwf & Ho & Hbm & HBK).
  unfold gen_above. rewrite E2.
  destruct (@upd_cell_bm M a x x dist sa sb b x Hwf Ho Hbm Hd Hb Hx Hbx Hx
              ltac:(rewrite Nat.min_r, Nat.max_l by lia; reflexivity) ltac:(lia) ltac:(lia)
              ltac:(rewrite Nat.min_r, Nat.max_l by lia; reflexivity))
    as (M' & Hupd & Hwf' & Ho' & Hbm').
  rewrite Hupd. cbn [bind].
  assert (HG' : GI s M') by (unfold GI; auto 10).
  destruct (tracks_candidates meth); [|exists s, M', mn; split; [reflexivity|]; split; [exact HG'|reflexivity]].
  destruct (@gi_mget _ _ _ _ HG' Hb Hx Hbx) as (v & Hg & Hc & Hlt). rewrite Hg. cbn [bind].
  destruct (ltb v mn); [|exists s, M', mn; split; [reflexivity|]; split; [exact HG'|reflexivity]].
  cbn [bind].
  assert (Hbz : b <> z) by (pose proof (Hzmax x Hx); lia).
  destruct (@bk_set_prio (st_queue s) (st_nearest s) b v HBK Hb ltac:(lia) Hbz Hlt) as (q' & Hset & HBK').
  rewrite Hset. cbn [bind].
  destruct (@bk_set_near q' (st_nearest s) b x HBK' Hb Hx Hbx) as (nr' & Hsn & HBK2 & Hnew & Hfr).
  rewrite Hsn. cbn [bind].
  eexists _, M', v. split; [reflexivity|].
  split; [unfold GI; cbn [st_with_nearest st_with_queue st_active st_sizes st_queue st_nearest]; auto 10|].
  cbn [st_with_nearest st_nearest]. exact Hfr.
Qed.

(* the three loops *)
Lemma below_fold dist sa sb : ltb dist mx = true -> forall xs s M,
  (forall x, In x xs -> In x L /\ x < a) -> NoDup xs -> GI s M ->
  exists s' M', mfold (gen_below K p meth a b dist sa sb) xs (s, M) = Ok (s', M')
    /\ GI s' M' /\ (forall x, In x xs -> nth_error (st_nearest s') x <> Some a)
    /\ (forall y, ~ In y xs -> nth_error (st_nearest s') y = nth_error (st_nearest s) y).
Proof.
  intros Hd. induction xs as [|x xs IH]; intros s M Hxs Hnd HG.
  - exists s, M. split; [reflexivity|]. split; [exact HG|]. split; [intros x []|reflexivity].
  - inversion Hnd as [|? ? Hnx Hnd']; subst. destruct (Hxs x (or_introl eq_refl)) as [Hx Hxa].
    destruct (@gen_below_step dist sa sb s M x HG Hx Hxa Hd) as (s1 & M1 & Hstep & HG1 & Hna & Hfr).
    destruct (IH s1 M1 (fun y Hy => Hxs y (or_intror Hy)) Hnd' HG1) as (s2 & M2 & Hf & HG2 & Hna2 & Hfr2).
    exists s2, M2. cbn [mfold]. rewrite Hstep. cbn [bind]. split; [exact Hf|]. split; [exact HG2|]. split.
    + intros y [<-|Hy]; [rewrite (Hfr2 x Hnx); exact Hna|exact (Hna2 y Hy)].
    + intros y Hy. rewrite Hfr2 by (intros Hin; apply Hy; right; exact Hin).
      apply Hfr. intros ->. apply Hy. left. reflexivity.
Qed.

Lemma between_fold dist sa sb : ltb dist mx = true -> forall xs s M,
  (forall x, In x xs -> In x L /\ a < x /\ x < b) -> GI s M ->
  exists s' M', mfold (gen_between K p meth a b dist sa sb) xs (s, M) = Ok (s', M')
    /\ GI s' M' /\ (forall y, ~ In y xs -> nth_error (st_nearest s') y = nth_error (st_nearest s) y).
Proof.
  intros Hd. induction xs as [|x xs IH]; intros s M Hxs HG.
  - exists s, M. split; [reflexivity|]. split; [exact HG|reflexivity].
  - destruct (Hxs x (or_introl eq_refl)) as (Hx & Hax & Hxb).
    destruct (@gen_between_step dist sa sb s M x HG Hx Hax Hxb Hd) as (s1 & M1 & Hstep & HG1 & Hfr).
    destruct (IH s1 M1 (fun y Hy => Hxs y (or_intror Hy)) HG1) as (s2 & M2 & Hf & HG2 & Hfr2).
    exists s2, M2. cbn [mfold]. rewrite Hstep. cbn [bind]. split; [exact Hf|]. split; [exact HG2|].
    intros y Hy. rewrite Hfr2 by (intros Hin; apply Hy; right; exact Hin).
    apply Hfr. intros ->. apply Hy. left. reflexivity.
Qed.

Lemma above_fold dist sa sb : ltb dist mx = true -> forall xs s M mn,
  (forall x, In x xs -> In x L /\ b < x) -> GI s M ->
  exists s' M' mn', mfold (gen_above K p meth a b dist sa sb) xs (s, M, mn) = Ok (s', M', mn')
    /\ GI s' M' /\ (forall y, y <> b -> nth_error (st_nearest s') y = nth_error (st_nearest s) y).
Proof.
  intros Hd. induction xs as [|x xs IH]; intros s M mn Hxs HG.
  - exists s, M, mn. split; [reflexivity|]. split; [exact HG|reflexivity].
  - destruct (Hxs x (or_introl eq_refl)) as (Hx & Hbx).
    destruct (@gen_above_step dist sa sb s M mn x HG Hx Hbx Hd) as (s1 & M1 & mn1 & Hstep & HG1 & Hfr).
    destruct (IH s1 M1 mn1 (fun y Hy => Hxs y (or_intror Hy)) HG1) as (s2 & M2 & mn2 & Hf & HG2 & Hfr2).
    exists s2, M2, mn2. cbn [mfold]. rewrite Hstep. cbn [bind]. split; [exact Hf|]. split; [exact HG2|].
    intros y Hy. rewrite (Hfr2 y Hy). exact (Hfr y Hy).
Qed.

(* the whole update of one merge *)
Theorem gen_update_spec s M dist0 : GI s M -> wcell M a b = Some dist0 ->
  exists s' M', gen_update K p meth s M a b dist0 = Ok (s', M')
    /\ GI s' M' /\ (forall x, In x L -> x < a -> nth_error (st_nearest s') x <> Some a).
Proof.
  intros HG Hd0. pose proof HG as (E1 & E2 & Hwf & Ho & Hbm & HBK).
  pose proof HAct as (Hlen & Hl & Hdead).
  assert (Han : a < n0) by (apply live_lt; exact Ha). assert (Hbn : b < n0) by (apply live_lt; exact Hb).
  assert (Hdlt : ltb dist0 mx = true) by (exact (Hbm a b dist0 Ha Hb ltac:(lia) Hd0)).
  unfold gen_update.
  (* sizes *)
  assert (Hsab : exists sa sb, sizes_ab meth s a b = Ok (sa, sb)).
  { unfold sizes_ab. rewrite E2. destruct (uses_sizes_ab meth); [|eexists _, _; reflexivity].
    unfold vget. destruct (nth_error szs a) eqn:Ea; [|apply nth_error_None in Ea; lia].
    destruct (nth_error szs b) eqn:Eb; [|apply nth_error_None in Eb; lia]. cbn [bind]. eexists _, _. reflexivity. }
  destruct Hsab as (sa & sb & Hsab). rewrite Hsab. cbn [bind].
  (* dist *)
  assert (Hdist : (if reads_dist meth then mget p M a b else Ok dist0) = Ok dist0).
  { destruct (reads_dist meth); [|reflexivity].
    destruct (@mget_cellv T p M Hwf a b Hab ltac:(lia)) as (v & Hv & Hg). rewrite Hg.
    unfold cellv in Hv. rewrite Hd0 in Hv. inversion Hv. reflexivity. }
  rewrite Hdist. cbn [bind]. rewrite E1.
  assert (HB : forall x, In x L -> x < n0) by (intros x Hx; apply live_lt; exact Hx).
  assert (HndL : NoDup L).
  { pose proof (linked_sorted Hl) as Hsorted. clear - Hsorted.
    induction Hsorted as [|x t Hs IH Hall]; constructor; [|exact IH].
    intros Hin. rewrite Forall_forall in Hall. apply Hall in Hin. lia. }
  assert (HN : length (a_next act) = n0).
  { pose proof (linked_bounds Hl) as (_ & Hb' & _). (* the length is fixed by the caller through HActN *) exact HActN. }
  (* below *)
  unfold a_below. rewrite (@a_range_spec _ _ Unb (Excl a) HAct) by (cbn [lo_of hi_of]; pose proof (proj1 (linked_bounds Hl)); lia).
  cbn [bind lo_of hi_of].
  destruct (@below_fold dist0 sa sb Hdlt (filter (in_range (a_start act) a) L) s M) as (s1 & M1 & F1 & HG1 & Hna1 & Hfr1).
  { intros x Hx. apply filter_In in Hx. destruct Hx as [Hx Hr]. unfold in_range in Hr.
    apply Bool.andb_true_iff in Hr. destruct Hr as [_ Hr]. apply Nat.ltb_lt in Hr. split; assumption. }
  { apply NoDup_filter. exact HndL. }
  { exact HG. }
  rewrite F1. cbn [bind].
  (* between *)
  unfold a_between. rewrite (@a_range_spec _ _ (Incl a) (Excl b) HAct) by (cbn [lo_of hi_of]; lia).
  cbn [bind lo_of hi_of]. rewrite (filter_between_sorted (linked_sorted Hl) Ha Hab).
  destruct (@between_fold dist0 sa sb Hdlt (filter (fun z0 => (a <? z0) && (z0 <? b)) L) s1 M1) as (s2 & M2 & F2 & HG2 & Hfr2).
  { intros x Hx. apply filter_In in Hx. destruct Hx as [Hx Hr].
    apply Bool.andb_true_iff in Hr. destruct Hr as [Hr1 Hr2]. apply Nat.ltb_lt in Hr1, Hr2. auto. }
  { exact HG1. }
  rewrite F2. cbn [bind].
  pose proof HG2 as (E1' & E2' & _ & _ & _ & HBK2).
  (* mn *)
  assert (Hmn : exists mn, (if tracks_candidates meth then h_priority (st_queue s2) b else Ok dist0) = Ok mn).
  { destruct (tracks_candidates meth); [|eexists; reflexivity]. exact (@bk_priority _ _ _ HBK2 Hb ltac:(lia)). }
  destruct Hmn as (mn & Hmn). rewrite Hmn. cbn [bind]. rewrite E1'.
  rewrite (@a_above_spec act L b HAct Hb). cbn [bind].
  destruct (@above_fold dist0 sa sb Hdlt (filter (fun z0 => b <? z0) L) s2 M2 mn) as (s3 & M3 & mn3 & F3 & HG3 & Hfr3).
  { intros x Hx. apply filter_In in Hx. destruct Hx as [Hx Hr]. apply Nat.ltb_lt in Hr. auto. }
  { exact HG2. }
  rewrite F3. cbn [bind]. exists s3, M3. split; [reflexivity|]. split; [exact HG3|].
  intros x Hx Hxa. rewrite (Hfr3 x ltac:(lia)).
  rewrite Hfr2 by (intros Hin; apply filter_In in Hin; destruct Hin as [_ Hr];
                   apply Bool.andb_true_iff in Hr; destruct Hr as [Hr _]; apply Nat.ltb_lt in Hr; lia).
  apply Hna1. apply filter_In. split; [exact Hx|]. unfold in_range. apply Bool.andb_true_iff.
  split; [apply Nat.leb_le; apply (linked_bounds Hl); exact Hx|apply Nat.ltb_lt; exact Hxa].
Qed.

End Update.

(* ---- the matrix part of gen_update is update3 (the bookkeeping on the heap
   and the candidates does not touch the matrix) ---- *)
Ltac unbind H :=
  repeat (match type of H with
          | bind ?x _ = Ok _ => let E := fresh "E" in destruct x eqn:E; cbn [bind] in H; [|discriminate H|discriminate H]
          | (let '(_, _) := ?x in _) = Ok _ => destruct x
          | (if ?c then _ else _) = Ok _ => destruct c
          | (match ?c with BelowRename => _ | BelowCheck => _ end) = Ok _ => destruct c
          end).

Lemma gen_below_fst a b dist sa sb s M x s1 M1 :
  gen_below K p meth a b dist sa sb (s, M) x = Ok (s1, M1) ->
  upd_cell K p meth (st_sizes s) M x a x b x dist sa sb = Ok M1
  /\ st_sizes s1 = st_sizes s /\ st_active s1 = st_active s.
Proof.
  unfold gen_below. intros H.
  destruct (upd_cell K p meth (st_sizes s) M x a x b x dist sa sb) as [M'| |]; cbn [bind] in H; try discriminate.
  unbind H; inversion H; subst; repeat split; reflexivity.
Qed.

Lemma gen_between_fst a b dist sa sb s M x s1 M1 :
  gen_between K p meth a b dist sa sb (s, M) x = Ok (s1, M1) ->
  upd_cell K p meth (st_sizes s) M a x x b x dist sa sb = Ok M1
  /\ st_sizes s1 = st_sizes s /\ st_active s1 = st_active s.
Proof.
  unfold gen_between. intros H.
  destruct (upd_cell K p meth (st_sizes s) M a x x b x dist sa sb) as [M'| |]; cbn [bind] in H; try discriminate.
  unbind H; inversion H; subst; repeat split; reflexivity.
Qed.

Lemma gen_above_fst a b dist sa sb s M mn x s1 M1 mn1 :
  gen_above K p meth a b dist sa sb (s, M, mn) x = Ok (s1, M1, mn1) ->
  upd_cell K p meth (st_sizes s) M a x b x x dist sa sb = Ok M1
  /\ st_sizes s1 = st_sizes s /\ st_active s1 = st_active s.
Proof.
  unfold gen_above. intros H.
  destruct (upd_cell K p meth (st_sizes s) M a x b x x dist sa sb) as [M'| |]; cbn [bind] in H; try discriminate.
  unbind H; inversion H; subst; repeat split; reflexivity.
Qed.

Lemma below_fold_fst a b dist sa sb : forall xs s M s' M',
  mfold (gen_below K p meth a b dist sa sb) xs (s, M) = Ok (s', M') ->
  mfold (fun M x => upd_cell K p meth (st_sizes s) M x a x b x dist sa sb) xs M = Ok M'
  /\ st_sizes s' = st_sizes s /\ st_active s' = st_active s.
Proof.
  induction xs as [|x xs IH]; intros s M s' M' H; cbn [mfold] in H |- *.
  - inversion H; subst. repeat split; reflexivity.
  - destruct (gen_below K p meth a b dist sa sb (s, M) x) as [[s1 M1]| |] eqn:E; cbn [bind] in H; try discriminate.
    destruct (gen_below_fst _ _ _ _ _ _ _ _ E) as (U & S1 & A1). rewrite U. cbn [bind].
    destruct (IH _ _ _ _ H) as (F & S2 & A2). rewrite S1 in F. split; [exact F|]. split; congruence.
Qed.

Lemma between_fold_fst a b dist sa sb : forall xs s M s' M',
  mfold (gen_between K p meth a b dist sa sb) xs (s, M) = Ok (s', M') ->
  mfold (fun M x => upd_cell K p meth (st_sizes s) M a x x b x dist sa sb) xs M = Ok M'
  /\ st_sizes s' = st_sizes s /\ st_active s' = st_active s.
Proof.
  induction xs as [|x xs IH]; intros s M s' M' H; cbn [mfold] in H |- *.
  - inversion H; subst. repeat split; reflexivity.
  - destruct (gen_between K p meth a b dist sa sb (s, M) x) as [[s1 M1]| |] eqn:E; cbn [bind] in H; try discriminate.
    destruct (gen_between_fst _ _ _ _ _ _ _ _ E) as (U & S1 & A1). rewrite U. cbn [bind].
    destruct (IH _ _ _ _ H) as (F & S2 & A2). rewrite S1 in F. split; [exact F|]. split; congruence.
Qed.

Lemma above_fold_fst a b dist sa sb : forall xs s M mn s' M' mn',
  mfold (gen_above K p meth a b dist sa sb) xs (s, M, mn) = Ok (s', M', mn') ->
  mfold (fun M x => upd_cell K p meth (st_sizes s) M a x b x x dist sa sb) xs M = Ok M'
  /\ st_sizes s' = st_sizes s /\ st_active s' = st_active s.
Proof.
  induction xs as [|x xs IH]; intros s M mn s' M' mn' H; cbn [mfold] in H |- *.
  - inversion H; subst. repeat split; reflexivity.
  - destruct (gen_above K p meth a b dist sa sb (s, M, mn) x) as [[[s1 M1] mn1]| |] eqn:E; cbn [bind] in H; try discriminate.
    destruct (gen_above_fst _ _ _ _ _ _ _ _ _ E) as (U & S1 & A1). rewrite U. cbn [bind].
    destruct (IH _ _ _ _ _ _ H) as (F & S2 & A2). rewrite S1 in F. split; [exact F|]. split; congruence.
Qed.

Theorem gen_update_update3 s M a b dist0 s' M' :
  gen_update K p meth s M a b dist0 = Ok (s', M') ->
  exists sa sb dist, sizes_ab meth s a b = Ok (sa, sb)
    /\ (if reads_dist meth then mget p M a b else Ok dist0) = Ok dist
    /\ update3 K p meth s M a b dist sa sb = Ok M'
    /\ st_sizes s' = st_sizes s /\ st_active s' = st_active s.
Proof.
  unfold gen_update, update3. intros H.
  destruct (sizes_ab meth s a b) as [[sa sb]| |]; cbn [bind] in H; try discriminate.
  destruct (if reads_dist meth then mget p M a b else Ok dist0) as [dist| |]; cbn [bind] in H; try discriminate.
  exists sa, sb, dist. split; [reflexivity|]. split; [reflexivity|].
  destruct (a_below (st_active s) a) as [xs1| |]; cbn [bind] in H |- *; try discriminate.
  destruct (mfold (gen_below K p meth a b dist sa sb) xs1 (s, M)) as [[s1 M1]| |] eqn:F1; cbn [bind] in H; try discriminate.
  destruct (below_fold_fst _ _ _ _ _ _ _ _ F1) as (G1 & S1 & A1). rewrite G1. cbn [bind].
  destruct (a_between (st_active s) a b) as [xs2| |]; cbn [bind] in H |- *; try discriminate.
  destruct (mfold (gen_between K p meth a b dist sa sb) xs2 (s1, M1)) as [[s2 M2]| |] eqn:F2; cbn [bind] in H; try discriminate.
  destruct (between_fold_fst _ _ _ _ _ _ _ _ F2) as (G2 & S2 & A2). rewrite S1 in G2. rewrite G2. cbn [bind].
  destruct (if tracks_candidates meth then h_priority (st_queue s2) b else Ok dist0) as [mn| |]; cbn [bind] in H; try discriminate.
  rewrite A2, A1 in H.
  destruct (a_above (st_active s) b) as [xs3| |]; cbn [bind] in H |- *; try discriminate.
  destruct (mfold (gen_above K p meth a b dist sa sb) xs3 (s2, M2, mn)) as [[[s3 M3] mn3]| |] eqn:F3; cbn [bind] in H; try discriminate.
  destruct (above_fold_fst _ _ _ _ _ _ _ _ _ F3) as (G3 & S3 & A3). rewrite S2, S1 in G3.
  inversion H; subst s' M'. split; [exact G3|]. split; congruence.
Qed.

(* ---- loop invariant of generic_with ---- *)
Definition GInv (n0 : nat) (s : lstate T) (d : dend T) (M : cmat T) (L : list nat) : Prop :=
  AInv (st_active s) L /\ wf_mat M /\ m_obs M = n0 /\ length (a_next (st_active s)) = n0 /\ NoDup L
  /\ length (st_sizes s) = n0
  /\ 1 <= n0 /\ In (n0 - 1) L /\ (forall x, In x L -> x <= n0 - 1)
  /\ QN n0 (n0 - 1) (st_queue s) (st_nearest s) L
  /\ below_max M L
  /\ d_obs d = n0 /\ length (d_steps d) + length L = n0.

Theorem gen_iter_step_ext n0 s d M L i : GInv n0 s d M L -> 2 <= length L ->
  exists s' d' M' a b v sz,
    gen_iter K p meth (s, d, M) i = Ok (s', d', M')
    /\ In a L /\ In b L /\ a < b
    /\ d_steps d' = d_steps d ++ [step_new a b v sz]
    /\ GInv n0 s' d' M' (without a L)
    /\ merge_facts K meth s s' M M' L a b v.
Proof.
  intros (HA & Hwf & HMo & HN & Hnd & Hsz & Hn1 & Hz & Hzmax & HQ & Hbm & Hobs & Hcount) HL2.
  set (z := n0 - 1) in *. assert (Hzn : z < n0) by (unfold z; lia).
  pose proof HA as (Hlen & Hl & Hdead).
  assert (HB : forall x, In x L -> x < n0) by (intros x Hx; pose proof (Hzmax x Hx); lia).
  unfold gen_iter.
  (* repair *)
  destruct (@repair_spec M Hwf L n0 z HMo Hz Hzmax Hzn HL2 Hnd Hbm (gen_fuel s) s HA HQ
              ltac:(unfold gen_fuel; destruct HQ as (_ & _ & _ & Hnl & _); rewrite Hnl;
                    pose proof (@filter_len_le_all nat (stale M (st_queue s) (st_nearest s)) L);
                    assert (length L <= n0) by lia; lia))
    as (q1 & nr1 & Hrep & HQ1).
  rewrite Hrep. cbn [bind]. cbn [st_with_queue st_with_nearest st_queue].
  (* pop *)
  pose proof HQ1 as (HI1 & HO1 & Hin1 & Hnl1 & Hnear1 & Hpz1 & Hplt1).
  destruct (@top_not_z n0 z q1 nr1 L HQ1 Hz HL2 Hnd) as (a & E0 & Ha & Haz).
  assert (Hne : length (h_heap q1) <> 0).
  { intros E. assert (0 < length (h_heap q1)) by (apply nth_error_Some; congruence). lia. }
  destruct (@pop_spec T ltb n0 q1 HI1 Hne) as (f & q2 & Ef & Hpop & HI2 & Hp2 & Hl2 & Hin2 & Hrm2).
  rewrite E0 in Ef. inversion Ef; subst f.
  rewrite Hpop. cbn [bind opt_unwrap]. cbn [st_with_queue st_with_nearest st_queue st_nearest].
  assert (HO2 : HOrd ltb q2) by exact (@pop_ord T ltb ltb_irrefl ltb_trans n0 q1 a q2 HI1 HO1 Hpop).
  destruct (Hnear1 a Ha Haz) as (b & Hnb & Hb & Hab).
  unfold vget at 1. rewrite Hnb. cbn [bind].
  destruct (@mget_cellv T p M Hwf a b Hab ltac:(rewrite HMo; apply HB; exact Hb)) as (dist & Hdc & Hg). rewrite Hg. cbn [bind].
  (* the update *)
  set (s2 := st_with_queue (st_with_queue (st_with_nearest s nr1) q1) q2).
  assert (HBK : BK L n0 z a q2 nr1).
  { unfold BK. split; [exact HI2|]. split; [exact HO2|].
    split; [intros x; rewrite Hin2, Hin1; reflexivity|]. split; [exact Hnl1|].
    split; [intros x Hx _ Hxz; exact (Hnear1 x Hx Hxz)|]. rewrite Hp2. split; [exact Hpz1|].
    intros x Hx _ Hxz. exact (Hplt1 x Hx Hxz). }
  assert (HG : GI L n0 z a (st_active s) (st_sizes s) s2 M).
  { unfold GI, s2. cbn [st_with_queue st_with_nearest st_active st_sizes st_queue st_nearest]. auto 10. }
  destruct (@gen_update_spec L n0 z a b Hzmax Hzn Ha Hb Hab (st_active s) (st_sizes s) HA HN Hsz s2 M dist HG Hdc)
    as (s3 & M3 & Hupd & HG3 & Hna3).
  fold s2. rewrite Hupd. cbn [bind].
  destruct HG3 as (E1 & E2 & Hwf3 & Ho3 & Hbm3 & HBK3).
  (* merge *)
  unfold st_merge. rewrite E2, E1.
  pose proof (HB a Ha) as Han. pose proof (HB b Hb) as Hbn.
  unfold vget at 1. destruct (nth_error (st_sizes s) a) as [za|] eqn:Eza; [|apply nth_error_None in Eza; lia]. cbn [bind].
  unfold vget at 1. destruct (nth_error (st_sizes s) b) as [zb|] eqn:Ezb; [|apply nth_error_None in Ezb; lia]. cbn [bind].
  unfold vset. destruct (Nat.ltb_spec b (length (st_sizes s))); [|lia]. cbn [bind].
  destruct (@a_remove_spec _ _ a HA ltac:(lia)) as (act' & Hrem & HA' & Hlen').
  rewrite Hrem. cbn [bind]. unfold vget at 1. rewrite nth_error_set_nth_eq by lia. cbn [bind].
  pose proof (without_length a Hnd Ha) as Hwl.
  unfold d_push, d_len, assert_. destruct (Nat.ltb_spec (length (d_steps d)) (d_obs d - 1)); [|lia]. cbn [bind].
  eexists _, _, M3, a, b, dist, (za + zb). split; [reflexivity|].
  split; [exact Ha|]. split; [exact Hb|]. split; [exact Hab|]. split; [reflexivity|].
  assert (Hmf : merge_facts K meth s (st_with_active (st_with_sizes s3 (set_nth (st_sizes s) b (za + zb))) act') M M3 L a b dist).
  { destruct (gen_update_update3 _ _ _ _ _ Hupd) as (sa & sb & dist' & Hsab & Hdist' & Hu3 & _ & _).
    assert (dist' = dist).
    { destruct (reads_dist meth); [rewrite Hg in Hdist'|]; inversion Hdist'; reflexivity. } subst dist'.
    assert (HA2 : AInv (st_active s2) L) by exact HA.
    destruct (@update3_spec T K p meth s2 M M3 L a b dist sa sb HA2 Hwf
                ltac:(unfold s2; cbn [st_with_queue st_with_nearest st_active]; lia) Ha Hb Hab Hu3)
      as (_ & _ & Hin & Hout).
    split; [exact Hdc|]. exists za, zb, sa, sb. split; [exact Eza|]. split; [exact Ezb|].
    split; [reflexivity|]. split.
    { unfold sizes_ab in Hsab. unfold s2 in Hsab. cbn [st_with_queue st_with_nearest st_sizes] in Hsab.
      destruct (uses_sizes_ab meth).
      - unfold vget in Hsab. rewrite Eza, Ezb in Hsab. cbn [bind] in Hsab. inversion Hsab. split; reflexivity.
      - inversion Hsab. split; reflexivity. }
    split; [exact Hin|].
    intros x y Hx Hy Hxy Hxa Hxb Hya Hyb. unfold wcell. apply Hout.
    - lia.
    - destruct (Nat.max_spec x y) as [[_ ->]|[_ ->]]; [rewrite HMo; exact (HB y Hy)|rewrite HMo; exact (HB x Hx)].
    - intros z0 Hz0 Hza' Hzb' E. inversion E as [[F1 F2]]. lia. }
  split; [|exact Hmf].
  unfold GInv. cbn [st_with_active st_with_sizes st_active st_sizes st_queue st_nearest d_steps d_obs].
  split; [exact HA'|]. split; [exact Hwf3|]. split; [exact Ho3|]. split; [lia|].
  split; [apply NoDup_filter; exact Hnd|]. split; [rewrite set_nth_length; exact Hsz|]. split; [exact Hn1|].
  split; [apply without_In; split; [exact Hz|exact (not_eq_sym Haz)]|].
  split; [intros x Hx; apply without_In in Hx; apply Hzmax; exact (proj1 Hx)|].
  split.
  { destruct HBK3 as (HI3 & HO3 & Hin3 & Hnl3 & Hnear3 & Hpz3 & Hplt3). unfold QN.
    split; [exact HI3|]. split; [exact HO3|]. split; [intros x; rewrite Hin3, without_In; reflexivity|].
    split; [exact Hnl3|]. split.
    - intros x Hx Hxz. apply without_In in Hx. destruct Hx as [Hx Hxa].
      destruct (Hnear3 x Hx Hxa Hxz) as (y & Hy & HyL & Hxy). exists y. split; [exact Hy|]. split; [|exact Hxy].
      apply without_In. split; [exact HyL|]. intros ->.
      destruct (Nat.lt_trichotomy x a) as [Hlt|[?|Hgt]]; [|contradiction|lia]. exact (Hna3 x Hx Hlt Hy).
    - split; [exact Hpz3|]. intros x Hx Hxz. apply without_In in Hx. destruct Hx as [Hx Hxa]. exact (Hplt3 x Hx Hxa Hxz). }
  split.
  { intros x y v Hx Hy Hxy Hv. apply without_In in Hx. apply without_In in Hy. exact (Hbm3 x y v (proj1 Hx) (proj1 Hy) Hxy Hv). }
  split; [exact Hobs|]. rewrite app_length. cbn [length]. lia.
Qed.

Corollary gen_iter_step n0 s d M L i : GInv n0 s d M L -> 2 <= length L ->
  exists s' d' M' a b v sz,
    gen_iter K p meth (s, d, M) i = Ok (s', d', M')
    /\ In a L /\ In b L /\ a < b
    /\ d_steps d' = d_steps d ++ [step_new a b v sz]
    /\ GInv n0 s' d' M' (without a L).
Proof.
  intros HI HL. destruct (gen_iter_step_ext i HI HL) as (s' & d' & M' & a & b & v & sz & H1 & H2 & H3 & H4 & H5 & H6 & _).
  exists s', d', M', a, b, v, sz. repeat (split; [assumption|]). assumption.
Qed.

(* ---- initialisation: nearest-neighbour candidates of every row ---- *)
Lemma init_col_spec (M : cmat T) (row : nat) : wf_mat M -> forall cols mn mind,
  (forall c, In c cols -> row < c /\ c < m_obs M) ->
  exists mn' mind', mfold (init_col K p M row) cols (mn, mind) = Ok (mn', mind')
    /\ ((mn' = mn /\ mind' = mind) \/ (In mn' cols /\ wcell M row mn' = Some mind')).
Proof.
  intros Hwf. induction cols as [|c cols IH]; intros mn mind Hc.
  - exists mn, mind. split; [reflexivity|left; split; reflexivity].
  - cbn [mfold]. unfold init_col at 1. destruct (Hc c (or_introl eq_refl)) as [H1 H2].
    destruct (@mget_cellv T p M Hwf row c H1 H2) as (v & Hv & Hg). rewrite Hg. cbn [bind].
    destruct (ltb v mind).
    + destruct (IH c v (fun y Hy => Hc y (or_intror Hy))) as (mn' & mind' & Hf & Hcase).
      exists mn', mind'. split; [exact Hf|]. right. destruct Hcase as [[-> ->]|[Hin Hw]].
      * split; [left; reflexivity|exact Hv].
      * split; [right; exact Hin|exact Hw].
    + destruct (IH mn mind (fun y Hy => Hc y (or_intror Hy))) as (mn' & mind' & Hf & Hcase).
      exists mn', mind'. split; [exact Hf|]. destruct Hcase as [H|[Hin Hw]]; [left; exact H|right; split; [right; exact Hin|exact Hw]].
Qed.

Lemma init_rows_spec (M : cmat T) n0 : wf_mat M -> m_obs M = n0 -> below_max M (seq 0 n0) ->
  forall r dists nearest, r <= n0 - 1 -> length dists = n0 -> length nearest = n0 ->
  exists dists' nearest',
    mfold (init_row K p M) (seq 0 r) (dists, nearest) = Ok (dists', nearest')
    /\ length dists' = n0 /\ length nearest' = n0
    /\ (forall x, x < r -> exists y v, nth_error nearest' x = Some y /\ x < y /\ y < n0
                               /\ nth_error dists' x = Some v /\ ltb v mx = true)
    /\ (forall x, r <= x -> nth_error dists' x = nth_error dists x).
Proof.
  intros Hwf HMo Hbm. induction r as [|r IH]; intros dists nearest Hr Hld Hln.
  - exists dists, nearest. split; [reflexivity|]. split; [exact Hld|]. split; [exact Hln|]. split; [intros x Hx; lia|reflexivity].
  - rewrite seq_S. cbn [plus]. destruct (IH dists nearest ltac:(lia) Hld Hln) as (d1 & n1 & Hf & Hl1 & Hl2 & Hdone & Hrest).
    assert (Hfold : forall (A B : Type) (f : B -> A -> res B) l1 l2 (b0 : B),
              mfold f (l1 ++ l2) b0 = (do b1 <- mfold f l1 b0; mfold f l2 b1)).
    { intros A B f l1. induction l1 as [|h t IHl]; intros l2 b0; [reflexivity|]. cbn [app mfold].
      destruct (f b0 h); cbn [bind]; [apply IHl|reflexivity|reflexivity]. }
    rewrite Hfold, Hf. cbn [bind mfold]. unfold init_row at 1.
    destruct (@mget_cellv T p M Hwf r (r + 1) ltac:(lia) ltac:(lia)) as (v0 & Hv0 & Hg0). rewrite Hg0. cbn [bind].
    destruct (@init_col_spec M r Hwf (seq (r + 1) (m_obs M - (r + 1))) (r + 1) v0) as (mn & mind & Hcf & Hcase).
    { intros c Hc. apply in_seq in Hc. lia. }
    rewrite Hcf. cbn [bind].
    assert (Hmn : r < mn /\ mn < n0 /\ wcell M r mn = Some mind).
    { destruct Hcase as [[-> ->]|[Hin Hw]]; [split; [lia|]; split; [lia|exact Hv0]|]. apply in_seq in Hin. split; [lia|]. split; [lia|exact Hw]. }
    destruct Hmn as (Hm1 & Hm2 & Hm3).
    unfold vset. destruct (Nat.ltb_spec r (length d1)); [|lia]. cbn [bind].
    destruct (Nat.ltb_spec r (length n1)); [|lia]. cbn [bind].
    eexists _, _. split; [reflexivity|]. split; [rewrite set_nth_length; exact Hl1|]. split; [rewrite set_nth_length; exact Hl2|].
    split.
    + intros x Hx. destruct (Nat.eq_dec x r) as [->|Hxr].
      * exists mn, mind. split; [apply nth_error_set_nth_eq; lia|]. split; [exact Hm1|]. split; [exact Hm2|].
        split; [apply nth_error_set_nth_eq; lia|].
        apply (Hbm r mn mind); [apply in_seq; lia|apply in_seq; lia|lia|exact Hm3].
      * rewrite !nth_error_set_nth_neq by exact Hxr. apply Hdone. lia.
    + intros x Hx. rewrite nth_error_set_nth_neq by lia. apply Hrest. lia.
Qed.

(* ---- the whole algorithm ---- *)
Lemma gen_fold_progress n0 : forall (k : nat) i s d M L,
  GInv n0 s d M L -> FInv n0 d L -> S k <= length L ->
  exists s' d' M' L', mfold (gen_iter K p meth) (seq i k) (s, d, M) = Ok (s', d', M')
    /\ GInv n0 s' d' M' L' /\ FInv n0 d' L' /\ length L' + k = length L.
Proof.
  induction k as [|k IH]; intros i s d M L HI HF Hk.
  - eexists _, _, _, L. split; [reflexivity|]. split; [exact HI|]. split; [exact HF|lia].
  - cbn [seq mfold].
    destruct (@gen_iter_step n0 s d M L i HI ltac:(lia)) as (s1 & d1 & M1 & a & b & v & sz & Hstep & Ha & Hb & Hab & Hsteps & HI1).
    rewrite Hstep. cbn [bind].
    pose proof HI as (_ & _ & _ & _ & Hnd & _ & _ & _ & _ & _ & _ & Hobs & _).
    pose proof HI1 as (_ & _ & _ & _ & _ & _ & _ & _ & _ & _ & _ & Hobs1 & _).
    pose proof (without_length a Hnd Ha) as Hwl.
    pose proof (@finv_step T n0 d d1 L a b v sz HF Hnd Ha Hb Hab ltac:(congruence) Hsteps) as HF1.
    destruct (IH (S i) s1 d1 M1 (without a L) HI1 HF1 ltac:(lia)) as (s' & d' & M' & L' & Hf & HI' & HF' & Hl').
    eexists _, _, _, L'. split; [exact Hf|]. split; [exact HI'|]. split; [exact HF'|lia].
Qed.

(* the initialisation establishes the loop invariant *)
Lemma generic_init (s : lstate T) (d : dend T) (m : list T) (n0 : nat) :
  n0 <> 0 -> length (square_all K m) = n0 * (n0 - 1) / 2 ->
  Forall (fun v => ltb v mx = true) (square_all K m) ->
  let M := {| m_data := square_all K m; m_obs := n0 |} in
  exists s1,
    (do '(dists, nearest) <-
       mfold (init_row K p M) (seq 0 (n0 - 1)) (h_prio (h_heapify_pre mx (st_queue (st_reset K s n0))), st_nearest (st_reset K s n0));
     do q1 <- h_heapify_post ltb (h_heapify_pre mx (st_queue (st_reset K s n0))) dists;
     Ok (st_with_nearest (st_with_queue (st_reset K s n0) q1) nearest)) = Ok s1
    /\ GInv n0 s1 (d_reset d n0) M (seq 0 n0).
Proof.
  intros Hz Hlen Hall M.
  assert (Hwf : wf_mat M) by (unfold wf_mat, M; cbn [m_data m_obs]; exact Hlen).
  assert (Hbm : below_max M (seq 0 n0)).
  { intros x y v _ _ _ Hv. rewrite Forall_forall in Hall. apply Hall. unfold wcell, mcell, M in Hv. cbn [m_data] in Hv.
    eapply nth_error_In. exact Hv. }
  (* heap and candidates *)
  assert (Hq0 : h_heapify_pre mx (st_queue (st_reset K s n0)) = h_canonical mx n0).
  { unfold h_heapify_pre. cbn [st_reset st_queue]. rewrite (h_reset_canonical mx (st_queue s) n0).
    cbn [h_canonical h_prio]. rewrite map_length, seq_length. apply h_reset_canonical. }
  rewrite Hq0. change (st_nearest (st_reset K s n0)) with (clear_resize (st_nearest s) n0 0).
  destruct (@init_rows_spec M n0 Hwf eq_refl Hbm (n0 - 1) (h_prio (h_canonical mx n0)) (clear_resize (st_nearest s) n0 0)
              ltac:(lia) ltac:(cbn [h_canonical h_prio]; rewrite map_length, seq_length; reflexivity)
              ltac:(unfold clear_resize; apply vresize_length))
    as (dists & nearest & Hinit & Hld & Hln & Hrows & Hlast).
  rewrite Hinit. cbn [bind].
  destruct (@heapify_post_spec T ltb n0 (h_canonical mx n0) dists (canonical_inv mx n0)
              ltac:(cbn [h_canonical h_heap]; rewrite map_length, seq_length; reflexivity) Hld)
    as (q1 & Hheap & HI1 & Hp1 & Hr1 & Hl1 & Hin1).
  rewrite Hheap. cbn [bind].
  assert (HO1 : HOrd ltb q1).
  { exact (@heapify_post_ord T ltb ltb_irrefl ltb_trans n0 (h_canonical mx n0) dists q1 (canonical_inv mx n0)
             ltac:(cbn [h_canonical h_heap]; rewrite map_length, seq_length; reflexivity) Hld Hheap). }
  set (s1 := st_with_nearest (st_with_queue (st_reset K s n0) q1) nearest).
  assert (HG0 : GInv n0 s1 (d_reset d n0) M (seq 0 n0)).
  { unfold GInv, s1. cbn [st_with_nearest st_with_queue st_reset st_active st_sizes st_queue st_nearest d_reset d_obs d_steps length].
    split; [apply a_reset_inv|]. split; [exact Hwf|]. split; [reflexivity|].
    split; [rewrite a_reset_canonical; cbn; rewrite map_length, seq_length; reflexivity|].
    split; [apply seq_NoDup|]. split; [unfold clear_resize; apply vresize_length|]. split; [lia|].
    split; [apply in_seq; lia|]. split; [intros x Hx; apply in_seq in Hx; lia|].
    split.
    { unfold QN. split; [exact HI1|]. split; [exact HO1|].
      split; [intros x; rewrite Hin1, canonical_inh, in_seq; lia|]. split; [exact Hln|]. split.
      - intros x Hx Hxz. apply in_seq in Hx. destruct (Hrows x ltac:(lia)) as (y & v & Hy & Hxy & Hyn & _).
        exists y. split; [exact Hy|]. split; [apply in_seq; lia|exact Hxy].
      - rewrite Hp1. split.
        + rewrite (Hlast (n0 - 1) ltac:(lia)). cbn [h_canonical h_prio].
          rewrite nth_error_map, (nth_error_nth' _ 0) by (rewrite seq_length; lia). reflexivity.
        + intros x Hx Hxz. apply in_seq in Hx. destruct (Hrows x ltac:(lia)) as (y & v & _ & _ & _ & Hv & Hlt).
          exists v. split; assumption. }
    split; [exact Hbm|]. split; [reflexivity|]. rewrite seq_length. reflexivity. }
  exists s1. split; [reflexivity|exact HG0].
Qed.

Theorem generic_total_wf (s : lstate T) (d : dend T) (m : list T) (n : N) :
  (n < two32)%N -> wf_shape n (N.of_nat (length m)) ->
  Forall (fun v => ltb v mx = true) (square_all K m) ->
  (exists s' d' m', generic_with K p meth s d m n = Ok (s', d', m') /\ wf_dend (d_obs d') (d_steps d'))
  \/ generic_with K p meth s d m n = Panic PNaN.
Proof.
  intros Hn Hshape Hall. unfold generic_with, prologue.
  assert (Hshape' : wf_shape n (N.of_nat (length (square_all K m)))) by (unfold square_all; rewrite map_length; exact Hshape).
  rewrite (shape_check_ok p n _ Hn Hshape'). cbn [bind].
  unfold obs_to_nat. destruct (N.ltb_spec (if (n <=? 1)%N then 0%N else n) two32) as [_|Hbig];
    [|destruct (N.leb_spec n 1); unfold two32 in *; lia]. cbn [bind m_obs m_data].
  set (n0 := N.to_nat (if (n <=? 1)%N then 0%N else n)).
  destruct (Nat.eqb_spec n0 0) as [Hz|Hz].
  { left. eexists _, _, _. split; [reflexivity|]. cbn [d_reset d_obs d_steps]. split; [rewrite Hz; reflexivity|].
    intros j t Ht. destruct j; discriminate. }
  set (M := {| m_data := square_all K m; m_obs := n0 |}).
  assert (Hwf : wf_mat M).
  { unfold wf_mat, M. cbn [m_data m_obs]. unfold wf_shape in Hshape'. unfold n0 in *.
    destruct (N.leb_spec n 1); [cbn in Hz; lia|].
    apply Nat2N.inj. rewrite Hshape'. rewrite Nat2N.inj_div, Nat2N.inj_mul, Nat2N.inj_sub, N2Nat.id. reflexivity. }
  assert (Hbm : below_max M (seq 0 n0)).
  { intros x y v _ _ _ Hv. rewrite Forall_forall in Hall. apply Hall. unfold wcell, mcell, M in Hv. cbn [m_data] in Hv.
    eapply nth_error_In. exact Hv. }
  (* heap and candidates *)
  assert (Hq0 : h_heapify_pre mx (st_queue (st_reset K s n0)) = h_canonical mx n0).
  { unfold h_heapify_pre. cbn [st_reset st_queue]. rewrite (h_reset_canonical mx (st_queue s) n0).
    cbn [h_canonical h_prio]. rewrite map_length, seq_length. apply h_reset_canonical. }
  rewrite Hq0. change (st_nearest (st_reset K s n0)) with (clear_resize (st_nearest s) n0 0).
  destruct (@init_rows_spec M n0 Hwf eq_refl Hbm (n0 - 1) (h_prio (h_canonical mx n0)) (clear_resize (st_nearest s) n0 0)
              ltac:(lia) ltac:(cbn [h_canonical h_prio]; rewrite map_length, seq_length; reflexivity)
              ltac:(unfold clear_resize; apply vresize_length))
    as (dists & nearest & Hinit & Hld & Hln & Hrows & Hlast).
  rewrite Hinit. cbn [bind].
  destruct (@heapify_post_spec T ltb n0 (h_canonical mx n0) dists (canonical_inv mx n0)
              ltac:(cbn [h_canonical h_heap]; rewrite map_length, seq_length; reflexivity) Hld)
    as (q1 & Hheap & HI1 & Hp1 & Hr1 & Hl1 & Hin1).
  rewrite Hheap. cbn [bind].
  assert (HO1 : HOrd ltb q1).
  { exact (@heapify_post_ord T ltb ltb_irrefl ltb_trans n0 (h_canonical mx n0) dists q1 (canonical_inv mx n0)
             ltac:(cbn [h_canonical h_heap]; rewrite map_length, seq_length; reflexivity) Hld Hheap). }
  set (s1 := st_with_nearest (st_with_queue (st_reset K s n0) q1) nearest).
  assert (HG0 : GInv n0 s1 (d_reset d n0) M (seq 0 n0)).
  { unfold GInv, s1. cbn [st_with_nearest st_with_queue st_reset st_active st_sizes st_queue st_nearest d_reset d_obs d_steps length].
    split; [apply a_reset_inv|]. split; [exact Hwf|]. split; [reflexivity|].
    split; [rewrite a_reset_canonical; cbn; rewrite map_length, seq_length; reflexivity|].
    split; [apply seq_NoDup|]. split; [unfold clear_resize; apply vresize_length|]. split; [lia|].
    split; [apply in_seq; lia|]. split; [intros x Hx; apply in_seq in Hx; lia|].
    split.
    { unfold QN. split; [exact HI1|]. split; [exact HO1|].
      split; [intros x; rewrite Hin1, canonical_inh, in_seq; lia|]. split; [exact Hln|]. split.
      - intros x Hx Hxz. apply in_seq in Hx. destruct (Hrows x ltac:(lia)) as (y & v & Hy & Hxy & Hyn & _).
        exists y. split; [exact Hy|]. split; [apply in_seq; lia|exact Hxy].
      - rewrite Hp1. split.
        + rewrite (Hlast (n0 - 1) ltac:(lia)). cbn [h_canonical h_prio].
          rewrite nth_error_map, (nth_error_nth' _ 0) by (rewrite seq_length; lia). reflexivity.
        + intros x Hx Hxz. apply in_seq in Hx. destruct (Hrows x ltac:(lia)) as (y & v & _ & _ & _ & Hv & Hlt).
          exists v. split; assumption. }
    split; [exact Hbm|]. split; [reflexivity|]. rewrite seq_length. reflexivity. }
  assert (HF0 : FInv n0 (d_reset d n0) (seq 0 n0)).
  { unfold FInv. cbn [d_reset d_obs d_steps edges map all_nontrivial add_edges length].
    split; [reflexivity|]. split; [intros x Hx; apply in_seq in Hx; lia|]. split; [intros st []|].
    split; [exact I|]. split; [intros x y _ _ Hxy Heq; exact (Hxy Heq)|rewrite seq_length; reflexivity]. }
  destruct (@gen_fold_progress n0 (n0 - 1) 0 _ _ _ _ HG0 HF0 ltac:(rewrite seq_length; lia))
    as (s2 & d1 & M1 & L1 & Hfold & HI2 & (Hobs & _ & Hends & Hnt & _ & Hcount) & Hl1').
  fold s1. rewrite Hfold. cbn [bind].
  rewrite seq_length in Hl1'.
  assert (Hlend : length (d_steps d1) = d_obs d1 - 1) by lia.
  destruct (requires_sorting meth).
  - destruct (sort_steps_total (k_ltb K) (k_eqb K) (d_steps d1)) as [[l Hsort]|Hnan].
    + destruct (@relabel_wf T (k_ltb K) (k_eqb K) (st_set s2) d1 true l ltac:(lia) Hlend
                  ltac:(rewrite Hobs; exact Hends) Hnt Hsort) as (u' & d' & Hrel & Hwfd & Hobs' & _).
      rewrite Hrel. cbn [bind]. left. eexists _, _, _. split; [reflexivity|].
      unfold sqrt_all. cbn [d_obs d_steps]. rewrite Hobs'. apply wf_dend_map_dis. exact Hwfd.
    + right. unfold relabel. rewrite Hnan. reflexivity.
  - destruct (@relabel_wf T (k_ltb K) (k_eqb K) (st_set s2) d1 false (d_steps d1) ltac:(lia) Hlend
                ltac:(rewrite Hobs; exact Hends) Hnt eq_refl) as (u' & d' & Hrel & Hwfd & Hobs' & _).
    rewrite Hrel. cbn [bind]. left. eexists _, _, _. split; [reflexivity|].
    unfold sqrt_all. cbn [d_obs d_steps]. rewrite Hobs'. apply wf_dend_map_dis. exact Hwfd.
Qed.

End GenericInv.
