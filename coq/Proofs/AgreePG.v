(* C06 (part): primitive_with and generic_with return THE SAME dendrogram
   whenever, at every iteration of the primitive run, the minimum of the working
   matrix over the pairs of live clusters is attained by one pair only
   ("tie-free": no two candidate dissimilarities arising during clustering
   coincide at the minimum).

   Simulation: both algorithms keep the live clusters in the same slots with
   the same sizes, their working matrices agree on all cells between live
   clusters, and both pick a global minimum of it (primitive: argmin;
   generic: GenericGreedy).  Uniqueness of the minimum makes the picks equal;
   the update formula applied to equal cells gives equal cells. *)
Require Import KV.Model.Prelude KV.Model.Condensed KV.Model.Active KV.Model.Heap
  KV.Model.UnionFind KV.Model.Dendrogram KV.Model.Methods KV.Model.State KV.Model.Primitive KV.Model.Generic
  KV.Proofs.ResetCanon KV.Proofs.ActiveRefine KV.Proofs.CondensedIdx KV.Proofs.SortProofs KV.Proofs.Monotone
  KV.Proofs.MstCost KV.Proofs.Shape KV.Proofs.PrimitiveGreedy KV.Proofs.Forest KV.Proofs.UnionFindInv
  KV.Proofs.RelabelWF KV.Proofs.PrimitiveWF KV.Proofs.PrimitiveTotal KV.Proofs.UpdateSpec KV.Proofs.ShapeCheck
  KV.Proofs.LWInvariant KV.Proofs.ChainInv KV.Proofs.ChainIter KV.Proofs.ChainCriterion KV.Proofs.HeapInv KV.Proofs.GenericInv
  KV.Proofs.GenericGreedy.

Set Implicit Arguments.

Section Agree.
Variable T : Type.
Variable K : kops T.
Variable p : profile.
Variable meth : method.
Hypothesis ltb_irrefl : forall a, k_ltb K a a = false.
Hypothesis ltb_trans : forall a b c, k_ltb K a b = true -> k_ltb K b c = true -> k_ltb K a c = true.
Hypothesis ltb_negtrans : forall a b c, k_ltb K a b = false -> k_ltb K b c = false -> k_ltb K a c = false.
Hypothesis eqb_refl : forall a, k_eqb K a a = true.
Hypothesis eqb_le : forall u v, k_eqb K u v = true -> k_ltb K v u = false.
Hypothesis upd_below_max : forall va vb md sa sb sx,
  k_ltb K va (k_inf K) = true -> k_ltb K vb (k_inf K) = true -> k_ltb K md (k_inf K) = true ->
  k_ltb K (k_upd K va vb md sa sb sx) (k_inf K) = true.
Hypothesis rename_reducible : below_kind_of meth = BelowRename ->
  forall va vb md sa sb sx, (uses_sizes_ab meth = true -> 0 < sa /\ 0 < sb) ->
  k_ltb K va md = false -> k_ltb K vb md = false ->
  k_ltb K (k_upd K va vb md sa sb sx) va = false \/ k_ltb K (k_upd K va vb md sa sb sx) vb = false.
Hypothesis untracked_grows : tracks_candidates meth = false ->
  forall va vb md sa sb sx, k_ltb K (k_upd K va vb md sa sb sx) vb = false.
Hypothesis sizes_irrelevant : uses_sizes_ab meth = false ->
  forall va vb md sa sb sa' sb' sx, k_upd K va vb md sa sb sx = k_upd K va vb md sa' sb' sx.

Notation ltb := (k_ltb K).

(* the minimum over the pairs of live clusters is attained once *)
Definition min_unique (M : cmat T) (L : list nat) : Prop :=
  forall x y x' y' v w, In x L -> In y L -> x < y -> In x' L -> In y' L -> x' < y' -> (x, y) <> (x', y') ->
    wcell M x y = Some v -> wcell M x' y' = Some w ->
    (forall u1 u2 u, In u1 L -> In u2 L -> u1 < u2 -> wcell M u1 u2 = Some u -> ltb u v = false) ->
    ltb v w = true.

Definition agree (L : list nat) (M1 M2 : cmat T) : Prop :=
  forall x y, In x L -> In y L -> x <> y -> wcell M1 x y = wcell M2 x y.
Definition sagree (L : list nat) (z1 z2 : list nat) : Prop :=
  forall x, In x L -> nth_error z1 x = nth_error z2 x.

(* ---- one iteration of primitive, with everything the simulation needs ---- *)
Lemma prim_iter_facts s d M i s' d' M' L :
  PInv s M L -> prim_iter K p meth (s, d, M) i = Ok (s', d', M') ->
  exists a b v za zb, In a L /\ In b L /\ a < b /\ wcell M a b = Some v
    /\ (forall x y w, In x L -> In y L -> x < y -> wcell M x y = Some w -> ltb w v = false)
    /\ nth_error (st_sizes s) a = Some za /\ nth_error (st_sizes s) b = Some zb
    /\ d_steps d' = d_steps d ++ [step_new a b v (za + zb)] /\ d_obs d' = d_obs d
    /\ PInv s' M' (without a L)
    /\ merge_facts K meth s s' M M' L a b v.
Proof.
  clear rename_reducible untracked_grows upd_below_max eqb_le eqb_refl ltb_negtrans.
  intros HP H. pose proof HP as (HA & Hwf & HN).
  destruct (@prim_iter_greedy T K p ltb_trans ltb_irrefl meth s d M i s' d' M' L HP H)
    as (a & b & v & sz & Ha & Hb & Hab & Hv & Hmin & Hsteps & HP').
  unfold prim_iter in H.
  destruct (Nat.lt_ge_cases (length L) 2) as [Hlt|Hge];
    [rewrite (argmin_none K p M HA HN Hlt) in H; cbn [bind opt_unwrap] in H; discriminate|].
  destruct (argmin_some K p ltb_trans ltb_irrefl Hwf HA HN Hge) as (a1 & b1 & v1 & Harg & _ & _ & Hab1 & _).
  rewrite Harg in H. cbn [bind opt_unwrap] in H.
  destruct (vget (st_sizes s) a1) as [sa| |] eqn:Ea; cbn [bind] in H; try discriminate.
  destruct (vget (st_sizes s) b1) as [sb| |] eqn:Eb; cbn [bind] in H; try discriminate.
  destruct (update3 K p meth s M a1 b1 v1 sa sb) as [Mu| |] eqn:Eu; cbn [bind] in H; try discriminate.
  destruct (st_merge s d a1 b1 v1) as [[s2 d2]| |] eqn:Em; cbn [bind] in H; try discriminate.
  inversion H; subst s2 d2 Mu. clear H.
  destruct (st_merge_full _ _ _ _ _ Em) as (za & zb & Hza & Hzb & Hsz' & Hsteps1 & Hobs1).
  rewrite Hsteps in Hsteps1. apply app_inv_head in Hsteps1. inversion Hsteps1 as [Hst].
  assert (Hid : a1 = a /\ b1 = b /\ v1 = v /\ sz = za + zb).
  { unfold step_new in Hst. destruct (Nat.ltb_spec b a), (Nat.ltb_spec b1 a1); try lia. inversion Hst. auto. }
  destruct Hid as (-> & -> & -> & ->).
  assert (sa = za) by (unfold vget in Ea; rewrite Hza in Ea; inversion Ea; reflexivity).
  assert (sb = zb) by (unfold vget in Eb; rewrite Hzb in Eb; inversion Eb; reflexivity). subst sa sb.
  assert (Hvw : wcell M a b = Some v) by (unfold wcell; rewrite Nat.min_l, Nat.max_r by lia; exact Hv).
  exists a, b, v, za, zb. split; [exact Ha|]. split; [exact Hb|]. split; [exact Hab|]. split; [exact Hvw|].
  split.
  { intros x y w Hx Hy Hxy Hw. apply (Hmin x y w Hx Hy Hxy). unfold wcell in Hw. rewrite Nat.min_l, Nat.max_r in Hw by lia. exact Hw. }
  split; [exact Hza|]. split; [exact Hzb|]. split; [exact Hsteps|]. split; [exact Hobs1|]. split; [exact HP'|].
  destruct (@update3_spec T K p meth s M M' L a b v za zb HA Hwf HN Ha Hb Hab Eu) as (_ & _ & Hin & Hout).
  pose proof HA as (_ & Hl & _).
  split; [exact Hvw|].
  exists za, zb, (if uses_sizes_ab meth then za else 0), (if uses_sizes_ab meth then zb else 0).
  split; [exact Hza|]. split; [exact Hzb|]. split; [exact Hsz'|].
  split; [destruct (uses_sizes_ab meth); split; reflexivity|].
  split.
  - intros x Hx Hxa Hxb. destruct (Hin x Hx Hxa Hxb) as (va & vb & sx & Ca & Cb & Esx & Cn).
    exists va, vb, sx. split; [exact Ca|]. split; [exact Cb|]. split; [exact Esx|].
    rewrite Cn. f_equal. destruct (uses_sizes_ab meth) eqn:U; [reflexivity|]. apply sizes_irrelevant. reflexivity.
  - intros x y Hx Hy Hxy Hxa Hxb Hya Hyb. unfold wcell. apply Hout.
    + lia.
    + apply (linked_bounds Hl) in Hx. apply (linked_bounds Hl) in Hy. lia.
    + intros z0 Hz0 Hza' Hzb' E. inversion E as [[F1 F2]]. lia.
Qed.

(* merge_facts determines the cells between live clusters and the sizes *)
Lemma merge_agree s1 s1' s2 s2' (M1 M1' M2 M2' : cmat T) L a b v :
  merge_facts K meth s1 s1' M1 M1' L a b v -> merge_facts K meth s2 s2' M2 M2' L a b v ->
  agree L M1 M2 -> sagree L (st_sizes s1) (st_sizes s2) -> In a L -> In b L -> a < b ->
  agree (without a L) M1' M2' /\ sagree (without a L) (st_sizes s1') (st_sizes s2').
Proof.
  intros (_ & za & zb & sa & sb & Hza & Hzb & Hsz1 & Hsab & Hin & Hsame)
         (_ & za2 & zb2 & sa2 & sb2 & Hza2 & Hzb2 & Hsz2 & Hsab2 & Hin2 & Hsame2) Hag Hsg Ha Hb Hab.
  rewrite (Hsg a Ha) in Hza. rewrite (Hsg b Hb) in Hzb.
  assert (za2 = za) by congruence. assert (zb2 = zb) by congruence. subst za2 zb2.
  assert (sa2 = sa /\ sb2 = sb).
  { destruct (uses_sizes_ab meth); destruct Hsab, Hsab2; subst; split; reflexivity. }
  destruct H as [-> ->].
  assert (Hgen : forall x, In x L -> x <> a -> x <> b -> wcell M1' x b = wcell M2' x b).
  { intros x Hx Hxa Hxb.
    destruct (Hin x Hx Hxa Hxb) as (va & vb & sx & Ca & Cb & Esx & Cn).
    destruct (Hin2 x Hx Hxa Hxb) as (va2 & vb2 & sx2 & Ca2 & Cb2 & Esx2 & Cn2).
    rewrite (Hag x a Hx Ha Hxa) in Ca. rewrite (Hag x b Hx Hb Hxb) in Cb.
    assert (va2 = va) by congruence. assert (vb2 = vb) by congruence. subst va2 vb2.
    assert (sx2 = sx).
    { destruct (uses_size_x meth); [|congruence]. unfold vget in Esx, Esx2. rewrite (Hsg x Hx) in Esx. congruence. }
    subst sx2. congruence. }
  split.
  - intros x y Hx Hy Hxy. apply without_In in Hx. apply without_In in Hy.
    destruct Hx as [Hx Hxa], Hy as [Hy Hya].
    destruct (Nat.eq_dec y b) as [->|Hyb]; [apply Hgen; try assumption; exact Hxy|].
    destruct (Nat.eq_dec x b) as [->|Hxb]; [rewrite (wcell_sym M1'), (wcell_sym M2'); apply Hgen; assumption|].
    rewrite (Hsame x y Hx Hy Hxy Hxa Hxb Hya Hyb), (Hsame2 x y Hx Hy Hxy Hxa Hxb Hya Hyb). apply Hag; assumption.
  - intros x Hx. apply without_In in Hx. destruct Hx as [Hx Hxa]. rewrite Hsz1, Hsz2.
    destruct (Nat.eq_dec x b) as [->|Hxb].
    + assert (b < length (st_sizes s1)) by (apply nth_error_Some; rewrite (Hsg b Hb); congruence).
      assert (b < length (st_sizes s2)) by (apply nth_error_Some; congruence).
      rewrite !nth_error_set_nth_eq by assumption. reflexivity.
    + rewrite !nth_error_set_nth_neq by exact Hxb. apply Hsg. exact Hx.
Qed.

(* ---- the simulation ---- *)
Definition Sim (n0 : nat) (sp : lstate T) (dp : dend T) (Mp : cmat T)
  (sg : lstate T) (dg : dend T) (Mg : cmat T) (L : list nat) : Prop :=
  PInv sp Mp L /\ GInv K n0 sg dg Mg L /\ LB K L n0 (st_queue sg) Mg
  /\ agree L Mp Mg /\ sagree L (st_sizes sp) (st_sizes sg) /\ SPos (st_sizes sg) L
  /\ d_steps dp = d_steps dg /\ d_obs dp = d_obs dg.

Lemma sim_step n0 sp dp Mp sg dg Mg L i sp' dp' Mp' sg' dg' Mg' :
  Sim n0 sp dp Mp sg dg Mg L -> min_unique Mp L -> 2 <= length L ->
  prim_iter K p meth (sp, dp, Mp) i = Ok (sp', dp', Mp') ->
  gen_iter K p meth (sg, dg, Mg) i = Ok (sg', dg', Mg') ->
  exists a, In a L /\ Sim n0 sp' dp' Mp' sg' dg' Mg' (without a L).
Proof.
  intros (HP & HG & HLB & Hag & Hsg & HSP & Hd & Hobs) HTF HL2 Hp Hg.
  destruct (@prim_iter_facts sp dp Mp i sp' dp' Mp' L HP Hp)
    as (a & b & v & za & zb & Ha & Hb & Hab & Hv & Hmin & Hza & Hzb & Hsteps & Hobs' & HP' & Hmf).
  destruct (@gen_iter_step_ext T K p meth ltb_irrefl ltb_trans ltb_negtrans eqb_refl upd_below_max n0 sg dg Mg L i HG HL2)
    as (s1 & d1 & M1 & a' & b' & v' & sz' & Hstep & Ha' & Hb' & Hab' & Hsteps' & HG' & Hmf').
  rewrite Hg in Hstep. inversion Hstep; subst s1 d1 M1. clear Hstep.
  destruct (@gen_iter_greedy T K p meth ltb_irrefl ltb_trans ltb_negtrans eqb_refl upd_below_max rename_reducible untracked_grows eqb_le
              n0 sg dg Mg L i HG HLB HSP HL2 sg' dg' Mg' a' b' v' sz' Hg Hsteps' Hab')
    as (Hmin' & HLB' & (za' & zb' & Hza' & Hzb' & ->)).
  pose proof (proj1 Hmf') as Hv'.
  (* the two minimal pairs coincide *)
  assert (Hpair : (a, b) = (a', b')).
  { destruct (pair_eq_dec (a, b) (a', b')) as [E|NE]; [exact E|exfalso].
    assert (Hw : wcell Mp a' b' = Some v') by (rewrite (Hag a' b' Ha' Hb' ltac:(lia)); exact Hv').
    pose proof (HTF a b a' b' v v' Ha Hb Hab Ha' Hb' Hab' NE Hv Hw Hmin) as Hlt.
    assert (Hvg : wcell Mg a b = Some v) by (rewrite <- (Hag a b Ha Hb ltac:(lia)); exact Hv).
    rewrite (Hmin' a b v Ha Hb Hab Hvg) in Hlt. discriminate. }
  inversion Hpair; subst a' b'.
  assert (v' = v) by (rewrite (Hag a b Ha Hb ltac:(lia)) in Hv; congruence). subst v'.
  assert (za' = za) by (rewrite (Hsg a Ha) in Hza; congruence).
  assert (zb' = zb) by (rewrite (Hsg b Hb) in Hzb; congruence). subst za' zb'.
  destruct (@merge_agree sp sp' sg sg' Mp Mp' Mg Mg' L a b v Hmf Hmf' Hag Hsg Ha Hb Hab) as [Hag' Hsg'].
  exists a. split; [exact Ha|].
  unfold Sim. split; [exact HP'|]. split; [exact HG'|]. split; [exact HLB'|]. split; [exact Hag'|]. split; [exact Hsg'|].
  split.
  { destruct Hmf' as (_ & z1 & z2 & _ & _ & Hz1 & Hz2 & Hsz & _).
    assert (z1 = za) by congruence. assert (z2 = zb) by congruence. subst z1 z2.
    intros x Hx. apply without_In in Hx. destruct Hx as [Hx Hxa]. rewrite Hsz.
    destruct (Nat.eq_dec x b) as [->|Hxb].
    - exists (za + zb). split; [apply nth_error_set_nth_eq; apply nth_error_Some; congruence|].
      destruct (HSP a Ha) as (q & Hq & Hq0). assert (q = za) by congruence. lia.
    - rewrite nth_error_set_nth_neq by exact Hxb. exact (HSP x Hx). }
  split; [rewrite Hsteps, Hsteps', Hd; reflexivity|].
  pose proof HG' as (_ & _ & _ & _ & _ & _ & _ & _ & _ & _ & _ & Ho1 & _).
  pose proof HG as (_ & _ & _ & _ & _ & _ & _ & _ & _ & _ & _ & Ho0 & _). congruence.
Qed.

(* the primitive run is tie-free from the state (sp, dp, Mp) for k iterations *)
Definition tie_free_from (i k : nat) (sp : lstate T) (dp : dend T) (Mp : cmat T) : Prop :=
  forall j s d M L', j < k -> mfold (prim_iter K p meth) (seq i j) (sp, dp, Mp) = Ok (s, d, M) ->
    AInv (st_active s) L' -> min_unique M L'.

Lemma sim_fold n0 : forall (k : nat) i sp dp Mp sg dg Mg L sp' dp' Mp' sg' dg' Mg',
  Sim n0 sp dp Mp sg dg Mg L -> S k <= length L -> tie_free_from i k sp dp Mp ->
  mfold (prim_iter K p meth) (seq i k) (sp, dp, Mp) = Ok (sp', dp', Mp') ->
  mfold (gen_iter K p meth) (seq i k) (sg, dg, Mg) = Ok (sg', dg', Mg') ->
  d_steps dp' = d_steps dg' /\ d_obs dp' = d_obs dg'.
Proof.
  induction k as [|k IH]; intros i sp dp Mp sg dg Mg L sp' dp' Mp' sg' dg' Mg' HS Hk HTF Hp Hg.
  - cbn [seq mfold] in Hp, Hg. inversion Hp; inversion Hg; subst.
    destruct HS as (_ & _ & _ & _ & _ & _ & Hd & Ho). split; assumption.
  - cbn [seq mfold] in Hp, Hg.
    destruct (prim_iter K p meth (sp, dp, Mp) i) as [[[sp1 dp1] Mp1]| |] eqn:Ep; cbn [bind] in Hp; try discriminate.
    destruct (gen_iter K p meth (sg, dg, Mg) i) as [[[sg1 dg1] Mg1]| |] eqn:Eg; cbn [bind] in Hg; try discriminate.
    assert (HTF0 : min_unique Mp L).
    { apply (HTF 0 sp dp Mp L ltac:(lia) eq_refl). exact (proj1 (proj1 HS)). }
    destruct (@sim_step n0 sp dp Mp sg dg Mg L i sp1 dp1 Mp1 sg1 dg1 Mg1 HS HTF0 ltac:(lia) Ep Eg) as (a & Ha & HS1).
    pose proof HS as (_ & (_ & _ & _ & _ & Hnd & _) & _).
    pose proof (without_length a Hnd Ha) as Hwl.
    apply (IH (S i) sp1 dp1 Mp1 sg1 dg1 Mg1 (without a L) sp' dp' Mp' sg' dg' Mg' HS1 ltac:(lia)); [|exact Hp|exact Hg].
    intros j s d M L' Hj Hrun HA'. apply (HTF (S j) s d M L' ltac:(lia)); [|exact HA'].
    cbn [seq mfold]. rewrite Ep. cbn [bind]. exact Hrun.
Qed.

(* ---- whole runs ---- *)
Theorem primitive_generic_agree s1 d1 s2 d2 m n sp dp mp sg dg mg M0 :
  Forall (fun v => ltb v (k_inf K) = true) (square_all K m) ->
  prologue p (square_all K m) n = Ok M0 ->
  primitive_with K p meth s1 d1 m n = Ok (sp, dp, mp) ->
  generic_with K p meth s2 d2 m n = Ok (sg, dg, mg) ->
  tie_free_from 0 (m_obs M0 - 1) (st_reset K s1 (m_obs M0)) (d_reset d1 (m_obs M0)) M0 ->
  dp = dg.
Proof.
  intros Hall HM0 Hp Hg HTF. unfold primitive_with in Hp. unfold generic_with in Hg.
  rewrite HM0 in Hp, Hg. cbn [bind] in Hp, Hg.
  destruct (Nat.eqb_spec (m_obs M0) 0) as [Hz|Hz].
  - inversion Hp; inversion Hg; subst. apply d_reset_canonical.
  - destruct (prologue_wf _ _ _ HM0) as [Hwf Hdata].
    set (n0 := m_obs M0) in *.
    assert (EM : M0 = {| m_data := square_all K m; m_obs := n0 |}) by (destruct M0; cbn in *; subst; reflexivity).
    assert (Hlen : length (square_all K m) = n0 * (n0 - 1) / 2) by (unfold wf_mat in Hwf; rewrite <- Hdata; exact Hwf).
    destruct (@generic_init T K p ltb_irrefl ltb_trans s2 d2 m n0 Hz Hlen Hall) as (sg0 & Hinit & HG0).
    pose proof (@generic_init_lb T K p ltb_irrefl ltb_trans s2 d2 m n0 Hz Hlen Hall sg0 Hinit) as HLB0.
    cbn zeta in Hinit, HG0, HLB0. rewrite <- EM in Hinit, HG0, HLB0.
    destruct (mfold (init_row K p M0) (seq 0 (n0 - 1))
                (h_prio (h_heapify_pre (k_inf K) (st_queue (st_reset K s2 n0))), st_nearest (st_reset K s2 n0)))
      as [[dists nearest]| |]; cbn [bind] in Hinit, Hg; try discriminate.
    destruct (h_heapify_post (k_ltb K) (h_heapify_pre (k_inf K) (st_queue (st_reset K s2 n0))) dists) as [q1| |];
      cbn [bind] in Hinit, Hg; try discriminate.
    inversion Hinit as [Es0]. rewrite Es0 in Hg.
    destruct (mfold (prim_iter K p meth) (seq 0 (n0 - 1)) (st_reset K s1 n0, d_reset d1 n0, M0)) as [[[sp1 dp1] Mp1]| |] eqn:Fp;
      cbn [bind] in Hp; try discriminate.
    destruct (mfold (gen_iter K p meth) (seq 0 (n0 - 1)) (sg0, d_reset d2 n0, M0)) as [[[sg1 dg1] Mg1]| |] eqn:Fg;
      cbn [bind] in Hg; try discriminate.
    assert (HS0 : Sim n0 (st_reset K s1 n0) (d_reset d1 n0) M0 sg0 (d_reset d2 n0) M0 (seq 0 n0)).
    { unfold Sim. split; [exact (@prim_init T K s1 M0 Hwf)|]. split; [exact HG0|]. split; [exact HLB0|].
      split; [intros x y _ _ _; reflexivity|].
      assert (Hsz0 : st_sizes sg0 = st_sizes (st_reset K s1 n0)).
      { rewrite <- Es0. cbn [st_with_nearest st_with_queue st_sizes]. rewrite (reset_canonical K s2 s1). reflexivity. }
      split; [intros x _; rewrite Hsz0; reflexivity|].
      split.
      { intros x Hx. apply in_seq in Hx. rewrite Hsz0. exists 1. split; [|lia].
        cbn [st_reset st_sizes]. unfold clear_resize, vresize.
        rewrite firstn_nil. cbn [length app]. rewrite Nat.sub_0_r. apply nth_error_repeat. lia. }
      split; reflexivity. }
    destruct (@sim_fold n0 (n0 - 1) 0 _ _ _ _ _ _ _ _ _ _ _ _ _ HS0 ltac:(rewrite seq_length; lia) HTF Fp Fg) as [Hd Ho].
    assert (Edd : dp1 = dg1).
    { destruct dp1 as [st1 o1], dg1 as [st2 o2]. cbn [d_steps d_obs] in Hd, Ho. rewrite Hd, Ho. reflexivity. }
    rewrite <- Edd in Hg. clear Edd Fg Hd Ho dg1.
    unfold relabel in Hp, Hg. rewrite u_reset_canonical in Hp. rewrite u_reset_canonical in Hg.
    destruct (if requires_sorting meth then sort_steps (k_ltb K) (k_eqb K) (d_steps dp1) else Ok (d_steps dp1)) as [steps| |];
      cbn [bind] in Hp, Hg; try discriminate.
    destruct (mfold (relabel_step (T:=T)) (seq 0 (d_len {| d_steps := steps; d_obs := d_obs dp1 |}))
                (u_canonical (d_obs dp1), {| d_steps := steps; d_obs := d_obs dp1 |})) as [[u dd]| |];
      cbn [bind] in Hp, Hg; try discriminate.
    injection Hp as _ E2 _. injection Hg as _ F2 _. congruence.
Qed.

End Agree.
