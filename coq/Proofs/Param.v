(* Parametricity (abstraction theorem) of the four algorithms, generated and
   checked by Paramcoq: related float operations in, related results out.
   nat/N-only helpers get hand-written realizers (their relations are
   equality). *)
From Param Require Import Param.
Require Import KV.Model.Prelude KV.Model.Condensed KV.Model.Active KV.Model.Heap
  KV.Model.UnionFind KV.Model.Dendrogram KV.Model.Methods KV.Model.State
  KV.Model.Primitive KV.Model.Mst KV.Model.Chain KV.Model.Generic KV.Model.Linkage.

Global Ltac destruct_reflexivity :=
  intros ; repeat match goal with
  | [ x : _ |- _ = _ ] => destruct x; reflexivity; fail
  end.
Global Parametricity Tactic := destruct_reflexivity.

Parametricity Recursive nat.
Parametricity Recursive bool.
Parametricity Recursive list.
Parametricity Recursive option.
Parametricity Recursive prod.
Parametricity Recursive unit.
Parametricity Recursive comparison.
Parametricity Recursive positive.
Parametricity Recursive N.
Parametricity Recursive panic_kind.
Parametricity Recursive res.
Parametricity Recursive profile.
Parametricity Recursive method.
Parametricity Recursive cmat.

Lemma nat_R_eq n m : nat_R n m -> n = m.
Proof. induction 1; congruence. Qed.
Lemma nat_R_refl n : nat_R n n.
Proof. induction n; constructor; assumption. Qed.
Lemma bool_R_eq a b : bool_R a b -> a = b.
Proof. destruct 1; reflexivity. Qed.
Lemma bool_R_refl b : bool_R b b.
Proof. destruct b; constructor. Qed.
Lemma positive_R_eq a b : positive_R a b -> a = b.
Proof. induction 1; congruence. Qed.
Lemma positive_R_refl a : positive_R a a.
Proof. induction a; constructor; assumption. Qed.
Lemma N_R_eq a b : N_R a b -> a = b.
Proof. destruct 1; [reflexivity|f_equal; apply positive_R_eq; assumption]. Qed.
Lemma N_R_refl a : N_R a a.
Proof. destruct a; constructor. apply positive_R_refl. Qed.
Lemma profile_R_eq a b : profile_R a b -> a = b.
Proof. destruct 1; reflexivity. Qed.
Lemma panic_kind_R_refl k : panic_kind_R k k.
Proof. destruct k; constructor. Qed.

Lemma list_R_length {A B} (R : A -> B -> Type) l1 l2 : list_R A B R l1 l2 -> length l1 = length l2.
Proof. induction 1; cbn; congruence. Qed.

Definition lift2 (f : nat -> nat -> nat) : forall a1 a2, nat_R a1 a2 -> forall b1 b2, nat_R b1 b2 -> nat_R (f a1 b1) (f a2 b2).
Proof. intros a1 a2 H b1 b2 H2. apply nat_R_eq in H, H2. subst. apply nat_R_refl. Defined.
Definition lift2b (f : nat -> nat -> bool) : forall a1 a2, nat_R a1 a2 -> forall b1 b2, nat_R b1 b2 -> bool_R (f a1 b1) (f a2 b2).
Proof. intros a1 a2 H b1 b2 H2. apply nat_R_eq in H, H2. subst. apply bool_R_refl. Defined.

Realizer Nat.add as add_R := (lift2 Nat.add).
Realizer Nat.sub as sub_R := (lift2 Nat.sub).
Realizer Nat.mul as mul_R := (lift2 Nat.mul).
Realizer Nat.div as div_R := (lift2 Nat.div).
Realizer Nat.ltb as ltb_R := (lift2b Nat.ltb).
Realizer Nat.leb as leb_R := (lift2b Nat.leb).
Realizer Nat.eqb as eqb_R := (lift2b Nat.eqb).

(* N-arithmetic leaves: their relational interpretations are equalities *)
Definition res_N_refl (r : res N) : res_R N N N_R r r.
Proof. destruct r; constructor; [apply N_R_refl|apply panic_kind_R_refl]. Defined.
Definition res_nat_refl (r : res nat) : res_R nat nat nat_R r r.
Proof. destruct r; constructor; [apply nat_R_refl|apply panic_kind_R_refl]. Defined.

Definition shape_check_R' : forall p1 p2, profile_R p1 p2 -> forall n1 n2, N_R n1 n2 ->
  forall l1 l2, N_R l1 l2 -> res_R N N N_R (shape_check p1 n1 l1) (shape_check p2 n2 l2).
Proof.
  intros p1 p2 Hp n1 n2 Hn l1 l2 Hl. apply profile_R_eq in Hp. apply N_R_eq in Hn, Hl. subst. apply res_N_refl.
Defined.
Realizer shape_check as shape_check_R := shape_check_R'.

Definition obs_to_nat_R' : forall o1 o2, N_R o1 o2 -> res_R nat nat nat_R (obs_to_nat o1) (obs_to_nat o2).
Proof. intros o1 o2 H. apply N_R_eq in H. subst. apply res_nat_refl. Defined.
Realizer obs_to_nat as obs_to_nat_R := obs_to_nat_R'.

Definition d_new_ok_R' : forall n1 n2, N_R n1 n2 -> bool_R (d_new_ok n1) (d_new_ok n2).
Proof. intros n1 n2 H. apply N_R_eq in H. subst. apply bool_R_refl. Defined.
Realizer d_new_ok as d_new_ok_R := d_new_ok_R'.

Definition N_of_nat_R' : forall a1 a2, nat_R a1 a2 -> N_R (N.of_nat a1) (N.of_nat a2).
Proof. intros a1 a2 H. apply nat_R_eq in H. subst. apply N_R_refl. Defined.
Realizer N.of_nat as N_of_nat_R := N_of_nat_R'.

Definition mslot_R' : forall (T1 T2 : Type) (TR : T1 -> T2 -> Type) p1 p2, profile_R p1 p2 ->
  forall M1 M2, cmat_R T1 T2 TR M1 M2 -> forall r1 r2, nat_R r1 r2 -> forall c1 c2, nat_R c1 c2 ->
  res_R nat nat nat_R (mslot p1 M1 r1 c1) (mslot p2 M2 r2 c2).
Proof.
  intros T1 T2 TR p1 p2 Hp M1 M2 HM r1 r2 Hr c1 c2 Hc.
  apply profile_R_eq in Hp. apply nat_R_eq in Hr, Hc. subst.
  destruct HM as [d1 d2 Hd o1 o2 Ho]. apply nat_R_eq in Ho. subst.
  pose proof (list_R_length _ _ _ Hd) as Hlen.
  unfold mslot. cbn [m_obs m_data]. rewrite Hlen. apply res_nat_refl.
Defined.
Realizer (@mslot) as mslot_R := mslot_R'.

Parametricity Recursive kops.
Parametricity Recursive prologue.
Parametricity Recursive primitive_with.
Parametricity Recursive mst_with.
Parametricity Recursive nnchain_with.
Parametricity Recursive generic_with.
Print Assumptions primitive_with_R.
Print Assumptions generic_with_R.
