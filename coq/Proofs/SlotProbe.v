(* C07, observable consequence, for Method::Single through every entry point:
   if exactly one entry of the condensed matrix is strictly smallest, the first
   returned step merges exactly that pair of observations at (a value order-equivalent
   to) that entry; and the second step then joins the clusters containing the pair of
   the second-smallest entry at that entry's value. From the cut theorems (C04), the
   replay bound (C03) and well-formedness (C01) of the returned dendrogram. *)
Require Import KV.Model.Prelude KV.Model.Condensed KV.Model.Dendrogram KV.Model.Methods KV.Model.State KV.Model.Linkage
  KV.Proofs.SortProofs KV.Proofs.RelabelWF KV.Proofs.PrimThreshold KV.Proofs.MstCuts KV.Proofs.CriteriaRun
  KV.Proofs.PrimitiveGreedy KV.Proofs.UpdateSpec KV.Proofs.PrimitiveWF KV.Proofs.PermSingle KV.Proofs.DendUnique KV.Proofs.AgreeSingle KV.Proofs.SingleReplay.
From Coq Require Import Relations.

Set Implicit Arguments.

Section Probe.
Variable T : Type.
Variable F : fops T.
Hypothesis ltb_irrefl : forall a, f_ltb F a a = false.
Hypothesis ltb_trans : forall a b c, f_ltb F a b = true -> f_ltb F b c = true -> f_ltb F a c = true.
Hypothesis ltb_negtrans : forall a b c, f_ltb F a b = false -> f_ltb F b c = false -> f_ltb F a c = false.

Notation K := (kops_of F Single).
Notation ltb := (f_ltb F).

Variable M0 : cmat T.
Variable D : dend T.
Hypothesis G : good F M0 D.
Notation n0 := (m_obs M0).
Notation d0 := (cell_or (f_inf F) M0).
Notation lab := (labi n0 (d_steps D)).

Variables a b : nat.
Hypothesis Hab : a < b.
Hypothesis Hb : b < n0.
(* (a, b) is the unique strictly smallest entry *)
Hypothesis Hmin : forall x y, x < n0 -> y < n0 -> x <> y -> ~ (x = a /\ y = b) -> ~ (x = b /\ y = a) -> ltb (d0 a b) (d0 x y) = true.

Lemma conn_min x y : conn ltb d0 (seq 0 n0) (d0 a b) x y -> x = y \/ (x = a /\ y = b) \/ (x = b /\ y = a).
Proof.
  induction 1 as [x y (Hx & Hy & Hle)| | x y _ IH | x z y _ IH1 _ IH2].
  - apply in_seq in Hx. apply in_seq in Hy. unfold le_t in Hle.
    destruct (Nat.eq_dec x y) as [->|Hne]; [left; reflexivity|].
    assert (Hcase : (x = a /\ y = b) \/ (x = b /\ y = a) \/ (~ (x = a /\ y = b) /\ ~ (x = b /\ y = a))) by lia.
    destruct Hcase as [H1|[H2|[N1 N2]]]; [right; left; exact H1|right; right; exact H2|].
    rewrite (@Hmin x y ltac:(lia) ltac:(lia) Hne N1 N2) in Hle. discriminate.
  - left. reflexivity.
  - destruct IH as [->|[[-> ->]|[-> ->]]]; [left; reflexivity|right; right; split; reflexivity|right; left; split; reflexivity].
  - destruct IH1 as [->|[[-> ->]|[-> ->]]]; [exact IH2| |].
    + destruct IH2 as [<-|[[E ->]|[_ ->]]]; [right; left; split; reflexivity|lia|left; reflexivity].
    + destruct IH2 as [<-|[[_ ->]|[E ->]]]; [right; right; split; reflexivity|left; reflexivity|lia].
Qed.

Lemma conn_edge_exists t x y : conn ltb d0 (seq 0 n0) t x y -> x <> y ->
  exists x' y', x' <> y' /\ x' < n0 /\ y' < n0 /\ ltb t (d0 x' y') = false.
Proof.
  induction 1 as [x y (Hx & Hy & Hle)| | x y _ IH | x z y _ IH1 _ IH2]; intros Hne.
  - exists x, y. apply in_seq in Hx. apply in_seq in Hy. split; [exact Hne|]. split; [lia|]. split; [lia|exact Hle].
  - congruence.
  - apply IH. congruence.
  - destruct (Nat.eq_dec x z) as [->|N]; [exact (IH2 Hne)|exact (IH1 N)].
Qed.

(* the smallest entry is a lower bound of every off-diagonal entry *)
Lemma min_le x y : x < n0 -> y < n0 -> x <> y -> ltb (d0 x y) (d0 a b) = false.
Proof.
  intros Hx Hy Hne.
  assert (Hcase : (x = a /\ y = b) \/ (x = b /\ y = a) \/ (~ (x = a /\ y = b) /\ ~ (x = b /\ y = a))) by lia.
  destruct Hcase as [[-> ->]|[[-> ->]|[N1 N2]]]; [apply ltb_irrefl|rewrite cell_or_sym; apply ltb_irrefl|].
  pose proof (@Hmin x y Hx Hy Hne N1 N2) as H.
  destruct (ltb (d0 x y) (d0 a b)) eqn:C; [|reflexivity].
  pose proof (@ltb_trans _ _ _ H C) as C2. rewrite ltb_irrefl in C2. discriminate.
Qed.

Theorem first_step_is_min_pair :
  exists t, nth_error (d_steps D) 0 = Some t /\ s_c1 t = a /\ s_c2 t = b /\ eqv ltb (s_dis t) (d0 a b)
    /\ forall x y, x < n0 -> y < n0 -> (lab 1 x = lab 1 y <-> x = y \/ (x = a /\ y = b) \/ (x = b /\ y = a)).
Proof.
  pose proof (g_wf G) as W. pose proof (g_cut G) as HC.
  assert (Hlen : length (d_steps D) = n0 - 1) by exact (proj1 W).
  destruct (nth_error (d_steps D) 0) as [t|] eqn:Et; [|apply nth_error_None in Et; lia].
  destruct (HC (d0 a b)) as (j & Hj & Hcut & Hp).
  assert (Ha : a < n0) by lia.
  (* the first step merges two observations *)
  destruct (@wf_live T n0 (d_steps D) 0 t W Et) as ((B1 & _) & (B2 & _) & Hlt).
  assert (L1 : lab 1 (s_c1 t) = lab 1 (s_c2 t)).
  { cbn [labi]. rewrite Et, !Nat.eqb_refl, orb_true_r. reflexivity. }
  (* the cut for the smallest entry is after exactly one step *)
  assert (Hj1 : j = 1).
  { destruct j as [|[|j]]; [| reflexivity |].
    - exfalso. assert (E : lab 0 a = lab 0 b) by (apply (Hp a b Ha Hb); apply rst_step; split; [apply in_seq; lia|]; split; [apply in_seq; lia|apply ltb_irrefl]).
      cbn [labi] in E. lia.
    - exfalso.
      destruct (nth_error (d_steps D) 1) as [t1|] eqn:Et1; [|apply nth_error_None in Et1; lia].
      destruct (@wf_live T n0 (d_steps D) 1 t1 W Et1) as (M1 & M2 & Hlt1).
      destruct (@live_member T n0 (d_steps D) W 1 ltac:(lia) _ M1) as (x1 & Hx1 & Ex1).
      destruct (@live_member T n0 (d_steps D) W 1 ltac:(lia) _ M2) as (y1 & Hy1 & Ey1).
      assert (E2 : lab 2 x1 = lab 2 y1) by (cbn [labi] in *; rewrite Et1, Ex1, Ey1, !Nat.eqb_refl, orb_true_r; reflexivity).
      pose proof (labi_mono n0 (d_steps D) x1 y1 (j := 2) (j' := S (S j)) ltac:(lia) E2) as Ej.
      apply (Hp x1 y1 Hx1 Hy1) in Ej. apply conn_min in Ej.
      assert (E01 : lab (S (S j)) (s_c1 t) = lab (S (S j)) (s_c2 t)) by (apply (labi_mono n0 (d_steps D) _ _ (j := 1)); [lia|exact L1]).
      apply (Hp (s_c1 t) (s_c2 t) ltac:(lia) ltac:(lia)) in E01. apply conn_min in E01.
      assert (Eab : lab 1 a = lab 1 b) by (destruct E01 as [E|[[E1 E2']|[E1 E2']]]; [lia|rewrite <- E1, <- E2'; exact L1|rewrite <- E1, <- E2'; symmetry; exact L1]).
      destruct Ej as [E|[[E1 E2']|[E1 E2']]]; subst; [lia| |]; rewrite Ex1 in Eab; rewrite Ey1 in Eab; lia. }
  subst j.
  assert (Hpart : forall x y, x < n0 -> y < n0 -> (lab 1 x = lab 1 y <-> x = y \/ (x = a /\ y = b) \/ (x = b /\ y = a))).
  { intros x y Hx Hy. rewrite (Hp x y Hx Hy). split; [apply conn_min|].
    intros [->|[[-> ->]|[-> ->]]]; [apply rst_refl| |apply rst_sym];
      (apply rst_step; split; [apply in_seq; lia|]; split; [apply in_seq; lia|apply ltb_irrefl]). }
  exists t. split; [reflexivity|].
  pose proof (proj1 (Hpart (s_c1 t) (s_c2 t) ltac:(lia) ltac:(lia)) L1) as E.
  assert (Ec : s_c1 t = a /\ s_c2 t = b) by (destruct E as [E|[[E1 E2]|[E1 E2]]]; lia).
  destruct Ec as [Ec1 Ec2]. split; [exact Ec1|]. split; [exact Ec2|]. split; [|exact Hpart].
  split.
  - (* v <= h0: at threshold h0 the pair is already joined, so some entry is <= h0 *)
    assert (Hh : nth_error (heights D) 0 = Some (s_dis t)) by (unfold heights; rewrite nth_error_map, Et; reflexivity).
    destruct (HC (s_dis t)) as (j' & Hj' & Hcut' & Hp').
    assert (Hj1 : 1 <= j') by (pose proof (proj2 (Hcut' 0 (s_dis t) Hh) (ltb_irrefl _)); lia).
    assert (Ejoin : lab j' a = lab j' b).
    { apply (labi_mono n0 (d_steps D) a b (j := 1) (j' := j') Hj1). apply (Hpart a b Ha Hb). right. left. split; reflexivity. }
    apply (Hp' a b Ha Hb) in Ejoin.
    destruct (conn_edge_exists Ejoin ltac:(lia)) as (x' & y' & Hne' & Hx' & Hy' & Hle').
    exact (@ltb_negtrans _ _ _ Hle' (min_le Hx' Hy' Hne')).
  - (* h0 <= v: position 0 is below the cut *)
    assert (Hh : nth_error (heights D) 0 = Some (s_dis t)) by (unfold heights; rewrite nth_error_map, Et; reflexivity).
    pose proof (proj1 (Hcut 0 (s_dis t) Hh) ltac:(lia)) as Hle. exact Hle.
Qed.

(* ---- the second step ---- *)
Variables c d : nat.
Hypothesis Hcd : c < d.
Hypothesis Hd : d < n0.
Hypothesis Hcd_ab : ~ (c = a /\ d = b).
(* (c, d) is the unique strictly smallest entry among the others *)
Hypothesis Hmin2 : forall x y, x < n0 -> y < n0 -> x <> y -> ~ (x = a /\ y = b) -> ~ (x = b /\ y = a) ->
  ~ (x = c /\ y = d) -> ~ (x = d /\ y = c) -> ltb (d0 c d) (d0 x y) = true.

Notation R := (fun x y => lab 1 x = lab 1 y).

Lemma min2_le x y : x < n0 -> y < n0 -> lab 1 x <> lab 1 y -> ltb (d0 x y) (d0 c d) = false.
Proof.
  intros Hx Hy Hne. destruct first_step_is_min_pair as (_ & _ & _ & _ & _ & Hpart).
  assert (Hxy : x <> y) by (intros ->; apply Hne; reflexivity).
  assert (N1 : ~ (x = a /\ y = b)) by (intros [-> ->]; apply Hne; apply (Hpart a b); try lia; right; left; split; reflexivity).
  assert (N2 : ~ (x = b /\ y = a)) by (intros [-> ->]; apply Hne; apply (Hpart b a); try lia; right; right; split; reflexivity).
  assert (Hcase : (x = c /\ y = d) \/ (x = d /\ y = c) \/ (~ (x = c /\ y = d) /\ ~ (x = d /\ y = c))) by lia.
  destruct Hcase as [[-> ->]|[[-> ->]|[N3 N4]]]; [apply ltb_irrefl|rewrite cell_or_sym; apply ltb_irrefl|].
  pose proof (@Hmin2 x y Hx Hy Hxy N1 N2 N3 N4) as H.
  destruct (ltb (d0 x y) (d0 c d)) eqn:C; [|reflexivity].
  pose proof (@ltb_trans _ _ _ H C) as C2. rewrite ltb_irrefl in C2. discriminate.
Qed.

(* a connection between two different first-level clusters uses an edge between two such clusters *)
Lemma conn_cross_edge t x y : conn ltb d0 (seq 0 n0) t x y -> lab 1 x <> lab 1 y ->
  exists x' y', lab 1 x' <> lab 1 y' /\ x' < n0 /\ y' < n0 /\ ltb t (d0 x' y') = false.
Proof.
  induction 1 as [x y (Hx & Hy & Hle)| | x y _ IH | x z y _ IH1 _ IH2]; intros Hne.
  - exists x, y. apply in_seq in Hx. apply in_seq in Hy. split; [exact Hne|]. split; [lia|]. split; [lia|exact Hle].
  - congruence.
  - apply IH. congruence.
  - destruct (Nat.eq_dec (lab 1 x) (lab 1 z)) as [E|N]; [apply IH2; congruence|exact (IH1 N)].
Qed.

(* at the threshold of the second-smallest entry: first-level clusters, plus the one edge (c, d) *)
Lemma conn_second x y : conn ltb d0 (seq 0 n0) (d0 c d) x y -> x < n0 -> y < n0 ->
  R x y \/ (R x c /\ R d y) \/ (R x d /\ R c y).
Proof.
  destruct first_step_is_min_pair as (_ & _ & _ & _ & _ & Hpart).
  intros H. induction H as [x y (Hx' & Hy' & Hle)| x | x y Hc IH | x z y H1 IH1 H2 IH2]; intros Hx Hy.
  - unfold le_t in Hle.
    destruct (Nat.eq_dec x y) as [->|Hne]; [left; reflexivity|].
    assert (Hcase : (x = a /\ y = b) \/ (x = b /\ y = a) \/ (x = c /\ y = d) \/ (x = d /\ y = c)
                    \/ (~ (x = a /\ y = b) /\ ~ (x = b /\ y = a) /\ ~ (x = c /\ y = d) /\ ~ (x = d /\ y = c))) by lia.
    destruct Hcase as [H1|[H1|[[-> ->]|[[-> ->]|(N1 & N2 & N3 & N4)]]]].
    + left. apply (Hpart x y Hx Hy). right. left. exact H1.
    + left. apply (Hpart x y Hx Hy). right. right. exact H1.
    + right. left. split; reflexivity.
    + right. right. split; reflexivity.
    + rewrite (@Hmin2 x y Hx Hy Hne N1 N2 N3 N4) in Hle. discriminate.
  - left. reflexivity.
  - destruct (IH Hy Hx) as [E|[[E1 E2]|[E1 E2]]]; [left; congruence|right; right; split; congruence|right; left; split; congruence].
  - assert (Hz : z < n0).
    { destruct (@conn_inV T ltb d0 (seq 0 n0) (d0 c d) x z H1) as [<-|[_ Hz]]; [exact Hx|apply in_seq in Hz; lia]. }
    destruct (IH1 Hx Hz) as [A|[[A1 A2]|[A1 A2]]], (IH2 Hz Hy) as [B|[[B1 B2]|[B1 B2]]].
    + left. congruence.
    + right. left. split; congruence.
    + right. right. split; congruence.
    + right. left. split; congruence.
    + right. left. split; congruence.
    + left. congruence.
    + right. right. split; congruence.
    + left. congruence.
    + right. right. split; congruence.
Qed.

Theorem second_step_joins_second_pair :
  exists t1, nth_error (d_steps D) 1 = Some t1
    /\ lab 1 c <> lab 1 d /\ lab 2 c = lab 2 d
    /\ ((s_c1 t1 = lab 1 c /\ s_c2 t1 = lab 1 d) \/ (s_c1 t1 = lab 1 d /\ s_c2 t1 = lab 1 c))
    /\ eqv ltb (s_dis t1) (d0 c d).
Proof.
  destruct first_step_is_min_pair as (t0 & Et0 & _ & _ & _ & Hpart).
  pose proof (g_wf G) as W. pose proof (g_cut G) as HC.
  assert (Hlen : length (d_steps D) = n0 - 1) by exact (proj1 W).
  assert (Hc : c < n0) by lia. assert (Ha : a < n0) by lia.
  (* c and d are in different clusters after the first step *)
  assert (Hsep : lab 1 c <> lab 1 d).
  { intros E. apply (Hpart c d Hc Hd) in E. destruct E as [E|[E|[E1 E2]]]; [lia|exact (Hcd_ab E)|lia]. }
  (* at least three observations, so a second step exists *)
  assert (Hn3 : 3 <= n0).
  { destruct (Nat.le_gt_cases 3 n0) as [H|H]; [exact H|exfalso]. apply Hcd_ab. lia. }
  destruct (nth_error (d_steps D) 1) as [t1|] eqn:Et1; [|apply nth_error_None in Et1; lia].
  assert (Hh1 : nth_error (heights D) 1 = Some (s_dis t1)) by (unfold heights; rewrite nth_error_map, Et1; reflexivity).
  (* members of the two clusters merged by the second step *)
  destruct (@wf_live T n0 (d_steps D) 1 t1 W Et1) as (M1 & M2 & Hlt1).
  destruct (@live_member T n0 (d_steps D) W 1 ltac:(lia) _ M1) as (x1 & Hx1 & Ex1).
  destruct (@live_member T n0 (d_steps D) W 1 ltac:(lia) _ M2) as (y1 & Hy1 & Ey1).
  assert (Hne1 : lab 1 x1 <> lab 1 y1) by lia.
  assert (E2 : lab 2 x1 = lab 2 y1) by (cbn [labi] in *; rewrite Et1, Ex1, Ey1, !Nat.eqb_refl, orb_true_r; reflexivity).
  (* the cut for the second-smallest entry lies after the second step *)
  destruct (HC (d0 c d)) as (j & Hj & Hcut & Hp).
  assert (Hj2 : 2 <= j).
  { assert (E : lab j c = lab j d) by (apply (Hp c d Hc Hd); apply rst_step; split; [apply in_seq; lia|]; split; [apply in_seq; lia|apply ltb_irrefl]).
    destruct j as [|[|j]]; [cbn [labi] in E; lia|contradiction|lia]. }
  (* which clusters the second step merges *)
  assert (Hconn : conn ltb d0 (seq 0 n0) (d0 c d) x1 y1).
  { apply (Hp x1 y1 Hx1 Hy1). apply (labi_mono n0 (d_steps D) x1 y1 (j := 2) (j' := j) Hj2 E2). }
  assert (Hwhich : (lab 1 x1 = lab 1 c /\ lab 1 d = lab 1 y1) \/ (lab 1 x1 = lab 1 d /\ lab 1 c = lab 1 y1)).
  { destruct (conn_second Hconn Hx1 Hy1) as [E|[E|E]]; [contradiction|left; exact E|right; exact E]. }
  exists t1. split; [reflexivity|]. split; [exact Hsep|]. split; [|split].
  - assert (LS : forall z, lab 2 z = if (lab 1 z =? s_c1 t1) || (lab 1 z =? s_c2 t1) then n0 + 1 else lab 1 z).
    { intros z. change (lab 2 z) with (let l := lab 1 z in match nth_error (d_steps D) 1 with
                                        | Some t => if (l =? s_c1 t) || (l =? s_c2 t) then n0 + 1 else l | None => l end).
      cbv zeta. rewrite Et1. reflexivity. }
    rewrite (LS c), (LS d).
    destruct Hwhich as [[W1 W2]|[W1 W2]].
    + rewrite <- W1, W2, Ex1, Ey1, !Nat.eqb_refl, orb_true_r. reflexivity.
    + rewrite W2, <- W1, Ex1, Ey1, !Nat.eqb_refl, orb_true_r. reflexivity.
  - destruct Hwhich as [[W1 W2]|[W1 W2]]; [left|right]; split; congruence.
  - split.
    + (* w <= h1: at threshold h1 two first-level clusters are joined, by an edge that is at least w *)
      destruct (HC (s_dis t1)) as (j' & Hj' & Hcut' & Hp').
      assert (Hj2' : 2 <= j') by (pose proof (proj2 (Hcut' 1 (s_dis t1) Hh1) (ltb_irrefl _)); lia).
      assert (Ejoin : lab j' x1 = lab j' y1) by (apply (labi_mono n0 (d_steps D) x1 y1 (j := 2) (j' := j') Hj2' E2)).
      apply (Hp' x1 y1 Hx1 Hy1) in Ejoin.
      destruct (conn_cross_edge Ejoin Hne1) as (x' & y' & Hne' & Hx' & Hy' & Hle').
      exact (@ltb_negtrans _ _ _ Hle' (min2_le Hx' Hy' Hne')).
    + (* h1 <= w: position 1 is below the cut *)
      exact (proj1 (Hcut 1 (s_dis t1) Hh1) ltac:(lia)).
Qed.

End Probe.

(* ---- every entry point run with Method::Single ---- *)
Section ProbeRuns.
Variable T : Type.
Variable F : fops T.
Variable p : profile.
Hypothesis ltb_irrefl : forall a, f_ltb F a a = false.
Hypothesis ltb_trans : forall a b c, f_ltb F a b = true -> f_ltb F b c = true -> f_ltb F a c = true.
Hypothesis ltb_negtrans : forall a b c, f_ltb F a b = false -> f_ltb F b c = false -> f_ltb F a c = false.
Hypothesis eqb_nlt : forall a b, f_eqb F a b = true -> f_ltb F b a = false.
Hypothesis eqb_refl : forall a, f_eqb F a a = true.

Notation ltb := (f_ltb F).

(* the entries as pairs x < y *)
Definition only_smaller_pairs (M0 : cmat T) (v : T) (excl : nat -> nat -> Prop) : Prop :=
  forall x y, x < y -> y < m_obs M0 -> ~ excl x y -> ltb v (cell_or (f_inf F) M0 x y) = true.

Lemma sym_pairs (M0 : cmat T) v (excl : nat -> nat -> Prop) : only_smaller_pairs M0 v excl ->
  forall x y, x < m_obs M0 -> y < m_obs M0 -> x <> y -> ~ excl x y -> ~ excl y x -> ltb v (cell_or (f_inf F) M0 x y) = true.
Proof.
  intros H x y Hx Hy Hne N1 N2. destruct (Nat.lt_ge_cases x y) as [Hlt|Hge].
  - exact (H x y Hlt Hy N1).
  - rewrite cell_or_sym. exact (H y x ltac:(lia) Hx N2).
Qed.

Theorem single_first_step_probe (a0 : algo) s d (m : list T) n s' d' m' M0 (a b : nat) : (n < two32)%N ->
  run_with F p a0 Single s d m n = Ok (s', d', m') ->
  prologue p m n = Ok M0 ->
  Forall (fun v => f_ltb F v (f_inf F) = true) m ->
  a < b -> b < m_obs M0 ->
  only_smaller_pairs M0 (cell_or (f_inf F) M0 a b) (fun x y => x = a /\ y = b) ->
  exists t, nth_error (d_steps d') 0 = Some t /\ s_c1 t = a /\ s_c2 t = b
    /\ eqv ltb (s_dis t) (cell_or (f_inf F) M0 a b).
Proof.
  intros Hn32 H HM0 Hfin Hab Hb Hmin.
  pose proof (@good_of_run T F p ltb_irrefl ltb_trans ltb_negtrans eqb_nlt eqb_refl a0 s d m n s' d' m' M0 Hn32 H HM0 ltac:(lia) Hfin) as G.
  destruct (@first_step_is_min_pair T F ltb_irrefl ltb_trans ltb_negtrans M0 d' G a b Hab Hb) as (t & Et & E1 & E2 & Ev & _).
  - intros x y Hx Hy Hne N1 N2. apply (sym_pairs Hmin Hx Hy Hne); [exact N1|intros [-> ->]; apply N2; split; reflexivity].
  - exists t. repeat split; assumption || apply Ev.
Qed.

Theorem single_second_step_probe (a0 : algo) s d (m : list T) n s' d' m' M0 (a b c e : nat) : (n < two32)%N ->
  run_with F p a0 Single s d m n = Ok (s', d', m') ->
  prologue p m n = Ok M0 ->
  Forall (fun v => f_ltb F v (f_inf F) = true) m ->
  a < b -> b < m_obs M0 -> c < e -> e < m_obs M0 -> ~ (c = a /\ e = b) ->
  only_smaller_pairs M0 (cell_or (f_inf F) M0 a b) (fun x y => x = a /\ y = b) ->
  only_smaller_pairs M0 (cell_or (f_inf F) M0 c e) (fun x y => (x = a /\ y = b) \/ (x = c /\ y = e)) ->
  exists t1, nth_error (d_steps d') 1 = Some t1
    /\ labi (m_obs M0) (d_steps d') 1 c <> labi (m_obs M0) (d_steps d') 1 e
    /\ labi (m_obs M0) (d_steps d') 2 c = labi (m_obs M0) (d_steps d') 2 e
    /\ ((s_c1 t1 = labi (m_obs M0) (d_steps d') 1 c /\ s_c2 t1 = labi (m_obs M0) (d_steps d') 1 e)
        \/ (s_c1 t1 = labi (m_obs M0) (d_steps d') 1 e /\ s_c2 t1 = labi (m_obs M0) (d_steps d') 1 c))
    /\ eqv ltb (s_dis t1) (cell_or (f_inf F) M0 c e).
Proof.
  intros Hn32 H HM0 Hfin Hab Hb Hce He Hne Hmin Hmin2.
  pose proof (@good_of_run T F p ltb_irrefl ltb_trans ltb_negtrans eqb_nlt eqb_refl a0 s d m n s' d' m' M0 Hn32 H HM0 ltac:(lia) Hfin) as G.
  apply (@second_step_joins_second_pair T F ltb_irrefl ltb_trans ltb_negtrans M0 d' G a b Hab Hb).
  - intros x y Hx Hy Hxy N1 N2. apply (sym_pairs Hmin Hx Hy Hxy); [exact N1|intros [-> ->]; apply N2; split; reflexivity].
  - exact Hce.
  - exact He.
  - exact Hne.
  - intros x y Hx Hy Hxy N1 N2 N3 N4. apply (sym_pairs Hmin2 Hx Hy Hxy).
    + intros [E|E]; [exact (N1 E)|exact (N3 E)].
    + intros [[-> ->]|[-> ->]]; [apply N2; split; reflexivity|apply N4; split; reflexivity].
Qed.

(* the cell of pair (a, b), a < b, IS entry number cidx(a, b) of the input slice *)
Lemma cell_is_entry (m : list T) n (M0 : cmat T) (a b : nat) (dflt : T) :
  prologue p m n = Ok M0 -> a < b ->
  cell_or dflt M0 a b = match nth_error m (cidx_nat (m_obs M0) a b) with Some v => v | None => dflt end.
Proof.
  intros HM0 Hab. destruct (PrimitiveWF.prologue_wf _ _ _ HM0) as [_ Hdata].
  unfold cell_or, UpdateSpec.wcell, PrimitiveGreedy.mcell. rewrite Nat.min_l, Nat.max_r by lia. rewrite Hdata. reflexivity.
Qed.

End ProbeRuns.
