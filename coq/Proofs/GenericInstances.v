(* Instances of GenericInv.generic_total_wf: single / complete over any
   carrier with a strict weak order and a reflexive `==` (the update only
   selects one of its arguments, so values stay below max_value). *)
Require Import KV.Model.Prelude KV.Model.Condensed KV.Model.Dendrogram KV.Model.Methods KV.Model.State KV.Model.Generic
  KV.Proofs.ShapeCheck KV.Proofs.RelabelWF KV.Proofs.GenericInv.

Set Implicit Arguments.

Section Sel.
Variable T : Type.
Variable F : fops T.
Variable p : profile.
Hypothesis ltb_irrefl : forall a, f_ltb F a a = false.
Hypothesis ltb_trans : forall a b c, f_ltb F a b = true -> f_ltb F b c = true -> f_ltb F a c = true.
Hypothesis ltb_negtrans : forall a b c, f_ltb F a b = false -> f_ltb F b c = false -> f_ltb F a c = false.
Hypothesis eqb_refl : forall a, f_eqb F a a = true.

Theorem generic_selection_total_wf meth s d (m : list T) (n : N) :
  meth = Single \/ meth = Complete ->
  (n < two32)%N -> wf_shape n (N.of_nat (length m)) ->
  Forall (fun v => f_ltb F v (f_inf F) = true) m ->
  (exists s' d' m', generic_with (kops_of F meth) p meth s d m n = Ok (s', d', m') /\ wf_dend (d_obs d') (d_steps d'))
  \/ generic_with (kops_of F meth) p meth s d m n = Panic PNaN.
Proof.
  intros Hm Hn Hs Hall.
  assert (Hsq : square_all (kops_of F meth) m = m).
  { unfold square_all. destruct Hm as [-> | ->]; cbn [kops_of k_sq on_squares]; apply map_id. }
  apply (@generic_total_wf T (kops_of F meth) p meth ltb_irrefl ltb_trans ltb_negtrans eqb_refl).
  - intros va vb md sa sb sx Ha Hb _. destruct Hm as [-> | ->]; cbn [kops_of k_upd k_ltb k_inf] in *; cbn.
    + destruct (f_ltb F va vb); assumption.
    + destruct (f_ltb F vb va); assumption.
  - exact Hn.
  - exact Hs.
  - rewrite Hsq. destruct Hm as [-> | ->]; exact Hall.
Qed.

End Sel.
