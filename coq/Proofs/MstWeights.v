(* C04, second sentence: the single-linkage heights are the edge weights of a
   minimum spanning tree of the complete graph on the observations.

   Abstract part. For a Prim trace (mst, linkage Single) and for any trace of
   weak reciprocal-nearest-neighbour merges under the single-linkage criterion
   (primitive, nnchain, generic) there is a spanning tree E of the complete
   graph whose edge weights are, in order and bit for bit, the recorded
   heights, and E is minimum in the order-theoretic sense: at EVERY threshold t
   it has at least as many edges of weight <= t as any other spanning tree
   (Kruskal's bound, SpanningTrees.v; completeness half of the threshold
   theorems). Over an ordered field that is the same as minimal total weight
   (dominated_sum below, over Q). Only a strict weak order on the weights is
   used. *)
Require Import KV.Model.Prelude KV.Model.Dendrogram KV.Proofs.ActiveRefine KV.Proofs.PrimitiveWF KV.Proofs.LWInvariant
  KV.Proofs.CriteriaRun KV.Proofs.PrimThreshold KV.Proofs.SingleThreshold KV.Proofs.SpanningTrees.
From Coq Require Import Relations Permutation.

Set Implicit Arguments.

Section W.
Variable T : Type.
Variable ltb : T -> T -> bool.
Hypothesis ltb_irrefl : forall a, ltb a a = false.
Hypothesis ltb_negtrans : forall a b c, ltb a b = false -> ltb b c = false -> ltb a c = false.
Variable d0 : nat -> nat -> T.
Hypothesis d0_sym : forall x y, d0 x y = d0 y x.

Definition wt (e : nat * nat) : T := d0 (fst e) (snd e).
(* number of entries <= t *)
Definition count_le (t : T) (l : list T) : nat := length (filter (fun v => negb (ltb t v)) l).

Lemma count_le_perm t l l' : Permutation l l' -> count_le t l = count_le t l'.
Proof.
  intros H. unfold count_le. apply Permutation_length.
  induction H as [|x l l' H IH|x y l|l l' l'' H1 IH1 H2 IH2]; cbn [filter].
  - constructor.
  - destruct (negb (ltb t x)); [constructor|]; exact IH.
  - destruct (negb (ltb t x)), (negb (ltb t y)); try apply perm_swap; apply Permutation_refl.
  - eapply perm_trans; eassumption.
Qed.

Lemma count_le_map {A} (g : A -> T) t l :
  count_le t (map g l) = length (filter (fun a => negb (ltb t (g a))) l).
Proof.
  unfold count_le. induction l as [|a l IH]; [reflexivity|]. cbn [map filter].
  destruct (negb (ltb t (g a))); cbn [length]; rewrite IH; reflexivity.
Qed.

(* the pairs recorded by the steps of weight <= t *)
Definition pairs_le (t : T) (raw : list (step T)) : list (nat * nat) :=
  map (fun st => (s_c1 st, s_c2 st)) (filter (fun st => negb (ltb t (s_dis st))) raw).

Lemma pairs_le_length t raw : length (pairs_le t raw) = count_le t (map (@s_dis T) raw).
Proof. unfold pairs_le. rewrite map_length, count_le_map. reflexivity. Qed.

Lemma link_econn t raw x y : link ltb t raw x y -> econn (pairs_le t raw) x y.
Proof.
  intros H. induction H as [a b (st & Hin & Hle & Hab)| | |].
  - assert (Hp : In (s_c1 st, s_c2 st) (pairs_le t raw)).
    { unfold pairs_le. apply in_map_iff. exists st. split; [reflexivity|]. apply filter_In. split; [exact Hin|].
      unfold le_t in Hle. rewrite Hle. reflexivity. }
    apply rst_step. destruct Hab as [[-> ->]|[-> ->]]; [left|right]; exact Hp.
  - apply rst_refl.
  - apply rst_sym. assumption.
  - eapply rst_trans; eassumption.
Qed.

(* minimality from the completeness half of a threshold theorem *)
Theorem trace_minimal (V : list nat) (raw : list (step T)) : NoDup V ->
  (forall st, In st raw -> In (s_c1 st) V /\ In (s_c2 st) V) ->
  (forall t x y, In x V -> In y V -> conn ltb d0 V t x y -> link ltb t raw x y) ->
  forall E', spanning V E' -> forall t, count_le t (map wt E') <= count_le t (map (@s_dis T) raw).
Proof.
  intros Hnd Hends Hcomp E' HE' t. rewrite count_le_map, <- pairs_le_length.
  apply (@kruskal_bound V E' (pairs_le t raw) (fun e => negb (ltb t (wt e))) Hnd HE').
  - intros e He. unfold pairs_le in He. apply in_map_iff in He. destruct He as (st & <- & Hst).
    apply filter_In in Hst. cbn [fst snd]. exact (Hends st (proj1 Hst)).
  - intros a b Hab. apply filter_In in Hab. destruct Hab as [Hin Hw].
    destruct HE' as (_ & Hev & _). destruct (Hev _ Hin) as [Ha Hb]. cbn [fst snd] in Ha, Hb.
    apply link_econn. apply Hcomp; [exact Ha|exact Hb|]. apply rst_step. split; [exact Ha|]. split; [exact Hb|].
    unfold le_t. unfold wt in Hw. cbn [fst snd] in Hw. apply negb_true_iff in Hw. exact Hw.
Qed.

(* the statement, for a list of heights hs and n observations: hs is, up to order, the
   list of edge weights of a spanning tree E of the complete graph, and E is minimum *)
Definition mst_weights (n : nat) (hs : list T) : Prop :=
  exists E, spanning (seq 0 n) E /\ Permutation hs (map wt E)
    /\ forall E', spanning (seq 0 n) E' -> forall t, count_le t (map wt E') <= count_le t hs.

(* ---- Prim traces: the attaching edges form a spanning tree ---- *)
Lemma s_dis_new a b (v : T) sz : s_dis (step_new a b v sz) = v.
Proof. unfold step_new. destruct (b <? a); reflexivity. Qed.

Lemma prim_tree : forall Tr c L raw, ptrace ltb d0 Tr c L raw ->
  exists E, map wt E = map (@s_dis T) raw
    /\ (forall e, In e E -> In (fst e) (Tr ++ L) /\ In (snd e) (Tr ++ L))
    /\ (forall y, In y L -> length raw = length L -> NoDup L -> exists q, In q Tr /\ econn E q y).
Proof.
  intros Tr c L raw H. induction H as [Tr c|Tr c L x v sz rest Hx Hatt Hcut Hrest IH].
  - exists []. split; [reflexivity|]. split; [intros e []|]. intros y [].
  - destruct IH as (E & Hw & Hin & Hconn). destruct Hatt as (q0 & Hq0 & Ev).
    exists ((q0, x) :: E). split; [|split].
    + cbn [map]. rewrite Hw. f_equal. unfold wt. cbn [fst snd]. unfold step_new. destruct (c <? x); cbn [s_dis]; congruence.
    + intros e [<-|He].
      * cbn [fst snd]. split; apply in_or_app; [left; exact Hq0|right; exact Hx].
      * destruct (Hin e He) as [H1 H2].
        assert (Hsub : forall z, In z ((x :: Tr) ++ without x L) -> In z (Tr ++ L)).
        { intros z Hz. cbn [app] in Hz. destruct Hz as [<-|Hz]; [apply in_or_app; right; exact Hx|].
          apply in_app_or in Hz. apply in_or_app. destruct Hz as [Hz|Hz]; [left; exact Hz|right].
          apply without_In in Hz. exact (proj1 Hz). }
        split; apply Hsub; assumption.
    + intros y Hy Hlen Hnd.
      assert (Hhead : econn ((q0, x) :: E) q0 x) by apply econn_head.
      destruct (Nat.eq_dec y x) as [->|Hne]; [exists q0; split; assumption|].
      pose proof (without_length x Hnd Hx) as Hwl. cbn [length] in Hlen.
      destruct (Hconn y ltac:(apply without_In; split; assumption) ltac:(lia) ltac:(apply NoDup_filter; exact Hnd))
        as (q & [<-|Hq] & Cq).
      * exists q0. split; [exact Hq0|]. eapply econn_trans; [exact Hhead|apply econn_tail; exact Cq].
      * exists q. split; [exact Hq|apply econn_tail; exact Cq].
Qed.

Lemma ptrace_ends : forall Tr c L raw, ptrace ltb d0 Tr c L raw -> In c Tr ->
  forall st, In st raw -> In (s_c1 st) (Tr ++ L) /\ In (s_c2 st) (Tr ++ L).
Proof.
  intros Tr c L raw H. induction H as [Tr c|Tr c L x v sz rest Hx Hatt Hcut Hrest IH]; intros Hc st Hst; [destruct Hst|].
  destruct Hst as [<-|Hst].
  - assert (H1 : In c (Tr ++ L)) by (apply in_or_app; left; exact Hc).
    assert (H2 : In x (Tr ++ L)) by (apply in_or_app; right; exact Hx).
    unfold step_new. destruct (c <? x); cbn [s_c1 s_c2]; split; assumption.
  - destruct (IH (or_introl eq_refl) st Hst) as [H1 H2].
    assert (Hsub : forall z, In z ((x :: Tr) ++ without x L) -> In z (Tr ++ L)).
    { intros z Hz. cbn [app] in Hz. destruct Hz as [<-|Hz]; [apply in_or_app; right; exact Hx|].
      apply in_app_or in Hz. apply in_or_app. destruct Hz as [Hz|Hz]; [left; exact Hz|right].
      apply without_In in Hz. exact (proj1 Hz). }
    split; apply Hsub; assumption.
Qed.

Theorem prim_weights_mst x0 L raw : NoDup (x0 :: L) -> ptrace ltb d0 [x0] x0 L raw -> length raw = length L ->
  exists E, spanning (x0 :: L) E /\ map wt E = map (@s_dis T) raw
    /\ forall E', spanning (x0 :: L) E' -> forall t, count_le t (map wt E') <= count_le t (map (@s_dis T) raw).
Proof.
  intros Hnd Htr Hlen. destruct (prim_tree Htr) as (E & Hw & Hin & Hconn).
  assert (HndL : NoDup L) by (apply NoDup_cons_iff in Hnd; exact (proj2 Hnd)).
  exists E. split; [|split; [exact Hw|]].
  - split; [|split].
    + assert (El : length E = length raw) by (rewrite <- (map_length wt E), Hw, map_length; reflexivity).
      cbn [length]. lia.
    + intros e He. exact (Hin e He).
    + assert (H0 : forall y, In y (x0 :: L) -> econn E x0 y).
      { intros y [<-|Hy]; [apply econn_refl|]. destruct (Hconn y Hy Hlen HndL) as (q & [<-|[]] & Cq). exact Cq. }
      intros x y Hx Hy. eapply econn_trans; [apply econn_sym; exact (H0 x Hx)|exact (H0 y Hy)].
  - apply trace_minimal; [exact Hnd| |].
    + intros st Hst. exact (ptrace_ends Htr (or_introl eq_refl) st Hst).
    + intros t x y Hx Hy Hc. apply (threshold_components ltb_negtrans d0_sym t Htr). exact Hc.
Qed.

(* ---- reciprocal-nearest-neighbour traces ---- *)
Section SL.
Variable V : list nat.

Record TInv (L : list nat) (mem : nat -> mtree) (E : list (nat * nat)) : Prop := {
  t_conn : forall z x y, In z L -> In x (leaves (mem z)) -> In y (leaves (mem z)) -> econn E x y;
  t_inV : forall z l, In z L -> In l (leaves (mem z)) -> In l V;
  t_cover : forall l, In l V -> exists z, In z L /\ In l (leaves (mem z));
  t_edges : edges_in V E
}.

Lemma sl_tree_run : forall L mem rest, sltrace ltb d0 L mem rest -> NoDup L -> forall Epre, TInv L mem Epre ->
  exists L' mem' E, TInv L' mem' (Epre ++ E) /\ map wt E = map (@s_dis T) rest
    /\ length L' + length rest = length L /\ NoDup L'.
Proof.
  intros L mem rest H. induction H as [L mem|L mem a b v sz rest Ha Hb Hab Hmin Hfar Hst IH]; intros Hnd Epre HI.
  - exists L, mem, []. rewrite app_nil_r. split; [exact HI|]. split; [reflexivity|]. split; [cbn; lia|exact Hnd].
  - destruct Hmin as [(xm & ym & Hxm & Hym & Ev) _].
    pose proof (t_conn HI) as Gconn. pose proof (t_inV HI) as GinV. pose proof (t_cover HI) as Gcover. pose proof (t_edges HI) as Gedges.
    assert (Hmem_b : upd_mem mem a b b = Node (mem a) (mem b)) by (unfold upd_mem; rewrite Nat.eqb_refl; reflexivity).
    assert (Hmem_o : forall x, x <> b -> upd_mem mem a b x = mem x) by (intros x Hx; unfold upd_mem; destruct (Nat.eqb_spec x b); [contradiction|reflexivity]).
    assert (Hmono : forall x y, econn Epre x y -> econn (Epre ++ [(xm, ym)]) x y).
    { apply econn_incl. intros p q Hpq. left. apply in_or_app. left. exact Hpq. }
    assert (Hnew : econn (Epre ++ [(xm, ym)]) xm ym) by (apply rst_step; left; apply in_or_app; right; left; reflexivity).
    assert (HI1 : TInv (without a L) (upd_mem mem a b) (Epre ++ [(xm, ym)])).
    { constructor.
      - intros z x y Hz Hx Hy. apply without_In in Hz. destruct Hz as [Hz Hza].
        destruct (Nat.eq_dec z b) as [->|Hzb].
        + rewrite Hmem_b in Hx, Hy. cbn [leaves] in Hx, Hy. apply in_app_or in Hx. apply in_app_or in Hy.
          assert (HA : forall u w, In u (leaves (mem a)) -> In w (leaves (mem a)) -> econn (Epre ++ [(xm, ym)]) u w)
            by (intros u w Hu Hw; apply Hmono; exact (Gconn a u w Ha Hu Hw)).
          assert (HB : forall u w, In u (leaves (mem b)) -> In w (leaves (mem b)) -> econn (Epre ++ [(xm, ym)]) u w)
            by (intros u w Hu Hw; apply Hmono; exact (Gconn b u w Hb Hu Hw)).
          destruct Hx as [Hx|Hx], Hy as [Hy|Hy].
          * exact (HA x y Hx Hy).
          * eapply econn_trans; [exact (HA x xm Hx Hxm)|]. eapply econn_trans; [exact Hnew|exact (HB ym y Hym Hy)].
          * apply econn_sym. eapply econn_trans; [exact (HA y xm Hy Hxm)|]. eapply econn_trans; [exact Hnew|exact (HB ym x Hym Hx)].
          * exact (HB x y Hx Hy).
        + rewrite (Hmem_o z Hzb) in Hx, Hy. apply Hmono. exact (Gconn z x y Hz Hx Hy).
      - intros z l Hz Hl. apply without_In in Hz. destruct Hz as [Hz Hza].
        destruct (Nat.eq_dec z b) as [->|Hzb].
        + rewrite Hmem_b in Hl. cbn [leaves] in Hl. apply in_app_or in Hl. destruct Hl as [Hl|Hl]; [exact (GinV a l Ha Hl)|exact (GinV b l Hb Hl)].
        + rewrite (Hmem_o z Hzb) in Hl. exact (GinV z l Hz Hl).
      - intros l Hl. destruct (Gcover l Hl) as (z & Hz & Hlz).
        destruct (Nat.eq_dec z a) as [->|Hza].
        + exists b. split; [apply without_In; split; [exact Hb|lia]|]. rewrite Hmem_b. cbn [leaves]. apply in_or_app. left. exact Hlz.
        + exists z. split; [apply without_In; split; assumption|].
          destruct (Nat.eq_dec z b) as [->|Hzb]; [rewrite Hmem_b; cbn [leaves]; apply in_or_app; right; exact Hlz|rewrite (Hmem_o z Hzb); exact Hlz].
      - intros e He. apply in_app_or in He. destruct He as [He|[<-|[]]]; [exact (Gedges e He)|].
        cbn [fst snd]. split; [exact (GinV a xm Ha Hxm)|exact (GinV b ym Hb Hym)]. }
    destruct (IH (NoDup_filter _ Hnd) _ HI1) as (L' & mem' & E & HI' & Hw & Hlen & Hnd').
    exists L', mem', ((xm, ym) :: E). rewrite <- app_assoc in HI'. cbn [app] in HI'.
    split; [exact HI'|]. split; [|split; [|exact Hnd']].
    + cbn [map]. rewrite Hw, s_dis_new. f_equal. unfold wt. cbn [fst snd]. congruence.
    + pose proof (without_length a Hnd Ha). cbn [length]. lia.
Qed.

Theorem sl_weights_mst (n : nat) raw : V = seq 0 n ->
  sltrace ltb d0 (seq 0 n) Leaf raw -> length raw + 1 = n ->
  exists E, spanning V E /\ map wt E = map (@s_dis T) raw
    /\ forall E', spanning V E' -> forall t, count_le t (map wt E') <= count_le t (map (@s_dis T) raw).
Proof.
  intros EV Htr Hlen.
  assert (HI0 : TInv (seq 0 n) Leaf []).
  { constructor.
    - intros z x y _ [<-|[]] [<-|[]]. apply econn_refl.
    - intros z l Hz [<-|[]]. rewrite EV. exact Hz.
    - intros l Hl. exists l. split; [rewrite <- EV; exact Hl|left; reflexivity].
    - intros e []. }
  destruct (sl_tree_run Htr (seq_NoDup n 0) HI0) as (L' & mem' & E & HI & Hw & Hl & Hnd'). cbn [app] in HI.
  rewrite seq_length in Hl.
  assert (Hone : exists r, L' = [r]) by (destruct L' as [|r [|r2 L2]]; cbn [length] in Hl; try lia; exists r; reflexivity).
  destruct Hone as (r & ->).
  pose proof (t_conn HI) as Gconn. pose proof (t_cover HI) as Gcover. pose proof (t_edges HI) as Gedges.
  exists E. split; [|split; [exact Hw|]].
  - split; [|split].
    + assert (El : length E = length raw) by (rewrite <- (map_length wt E), Hw, map_length; reflexivity).
      rewrite EV, seq_length. lia.
    + exact Gedges.
    + intros x y Hx Hy. destruct (Gcover x Hx) as (z & [<-|[]] & Hxz). destruct (Gcover y Hy) as (z & [<-|[]] & Hyz).
      exact (Gconn r x y (or_introl eq_refl) Hxz Hyz).
  - apply trace_minimal.
    + rewrite EV. apply seq_NoDup.
    + (* the recorded pairs are slots, i.e. observations *)
      clear - Htr EV. intros st Hst. rewrite EV.
      assert (G : forall L mem rest, sltrace ltb d0 L mem rest -> forall st, In st rest -> In (s_c1 st) L /\ In (s_c2 st) L).
      { clear. intros L mem rest H. induction H as [|L mem a b v sz rest Ha Hb Hab _ _ _ IH]; intros st Hst; [destruct Hst|].
        destruct Hst as [<-|Hst].
        - unfold step_new. destruct (b <? a); cbn [s_c1 s_c2]; split; assumption.
        - destruct (IH st Hst) as [H1 H2]. apply without_In in H1. apply without_In in H2. split; [exact (proj1 H1)|exact (proj1 H2)]. }
      exact (G _ _ _ Htr st Hst).
    + intros t x y Hx Hy Hc.
      apply (@sl_threshold_components T ltb ltb_negtrans d0 d0_sym V n raw EV Htr Hlen t x y Hx Hy). exact Hc.
Qed.

End SL.
End W.
