(* One iteration of the nearest-neighbour chain algorithm (src/chain.rs) under
   the chain invariant of ChainInv.v, and the resulting theorems about
   nnchain_with: totality, termination of the inner loop, well-formedness. *)
Require Import KV.Model.Prelude KV.Model.Condensed KV.Model.Active KV.Model.Heap
  KV.Model.UnionFind KV.Model.Dendrogram KV.Model.Methods KV.Model.State KV.Model.Chain
  KV.Proofs.ResetCanon KV.Proofs.ActiveRefine KV.Proofs.CondensedIdx KV.Proofs.SortProofs KV.Proofs.Monotone
  KV.Proofs.MstCost KV.Proofs.Shape KV.Proofs.PrimitiveGreedy KV.Proofs.Forest KV.Proofs.UnionFindInv
  KV.Proofs.RelabelWF KV.Proofs.PrimitiveWF KV.Proofs.PrimitiveTotal KV.Proofs.UpdateSpec KV.Proofs.ShapeCheck
  KV.Proofs.LWInvariant KV.Proofs.ChainInv.
From Coq Require Import Sorting.Sorted.

Set Implicit Arguments.

Section ChainIter.
Variable T : Type.
Variable K : kops T.
Variable p : profile.
Variable meth : method.
Hypothesis ltb_irrefl : forall a, k_ltb K a a = false.
Hypothesis ltb_trans : forall a b c, k_ltb K a b = true -> k_ltb K b c = true -> k_ltb K a c = true.
Hypothesis ltb_negtrans : forall a b c, k_ltb K a b = false -> k_ltb K b c = false -> k_ltb K a c = false.

Notation ltb := (k_ltb K).

(* the sizes the code passes to the update formula are positive whenever the
   formula looks at them *)
Definition size_ok (sa sb sx : nat) : Prop :=
  (uses_sizes_ab meth = true -> 0 < sa /\ 0 < sb) /\ (uses_size_x meth = true -> 0 < sx).

(* reducibility of the update formula *)
Hypothesis reducible : forall va vb md sa sb sx, size_ok sa sb sx ->
  ltb va md = false -> ltb vb md = false ->
  ltb (k_upd K va vb md sa sb sx) va = false \/ ltb (k_upd K va vb md sa sb sx) vb = false.

(* ---- a valid chain below the merged pair stays valid after the merge ---- *)
Lemma cinv_transfer (M M' : cmat T) (L : list nat) (a b : nat) :
  In a L -> In b L ->
  (forall x y, In x L -> In y L -> x <> y -> x <> a -> x <> b -> y <> a -> y <> b -> wcell M' x y = wcell M x y) ->
  (forall x, In x L -> x <> a -> x <> b ->
     exists va vb w, wcell M x a = Some va /\ wcell M x b = Some vb /\ wcell M' x b = Some w
       /\ (ltb w va = false \/ ltb w vb = false)) ->
  forall l, (forall c, In c l -> c <> a /\ c <> b) -> cinv K M L l -> cinv K M' (without a L) l.
Proof.
  intros HaL HbL Hsame Hnew l Hl Hc. induction Hc as [|x Hx|y x rest v Hy (Hyx & Hcv & Hmin) Hni Hst Hc IH].
  - constructor.
  - constructor. apply without_In. split; [exact Hx|exact (proj1 (Hl x (or_introl eq_refl)))].
  - destruct (Hl y (or_introl eq_refl)) as [Hya Hyb]. destruct (Hl x (or_intror (or_introl eq_refl))) as [Hxa Hxb].
    assert (HxL : In x L) by (exact (cinv_live Hc x (or_introl eq_refl))).
    apply ci_cons with (v := v).
    + apply without_In. split; assumption.
    + split; [exact Hyx|]. split; [unfold cellv; rewrite (Hsame x y HxL Hy (not_eq_sym Hyx) Hxa Hxb Hya Hyb); exact Hcv|].
      intros z w Hz Hzx Hw. apply without_In in Hz. destruct Hz as [Hz Hza].
      destruct (Nat.eq_dec z b) as [->|Hzb].
      * destruct (Hnew x HxL Hxa Hxb) as (va & vb & w' & Ca & Cb & Cw & Hred).
        unfold cellv in Hw. rewrite Cw in Hw. inversion Hw; subst w'.
        pose proof (Hmin a va HaL (fun E => Hxa (eq_sym E)) Ca) as Ba.
        pose proof (Hmin b vb HbL (fun E => Hxb (eq_sym E)) Cb) as Bb.
        destruct Hred as [R|R]; [exact (@ltb_negtrans _ _ _ R Ba)|exact (@ltb_negtrans _ _ _ R Bb)].
      * apply (Hmin z w Hz Hzx). unfold cellv in *. rewrite <- (Hsame x z HxL Hz (not_eq_sym Hzx) Hxa Hxb Hza Hzb). exact Hw.
    + exact Hni.
    + intros z rest' w E Hw. apply (Hst z rest' w E). unfold cellv in *.
      assert (Hz : In z (x :: rest)) by (rewrite E; right; left; reflexivity).
      destruct (Hl z (or_intror Hz)) as [Hza Hzb].
      assert (Hzx : z <> x).
      { pose proof (cinv_nodup Hc) as Hnd. rewrite E in Hnd. inversion Hnd as [|? ? Hn _]; subst. intros ->. apply Hn. left. reflexivity. }
      rewrite <- (Hsame z x (cinv_live Hc z Hz) HxL Hzx Hza Hzb Hxa Hxb). exact Hw.
    + apply IH. intros c Hc'. apply Hl. right. exact Hc'.
Qed.

(* ---- totality of the three-range update for a live pair ---- *)
Lemma update3_ok (s : lstate T) (M : cmat T) (L : list nat) a b v sa sb n0 :
  AInv (st_active s) L -> wf_mat M -> m_obs M = n0 -> length (a_next (st_active s)) = n0 ->
  length (st_sizes s) = n0 -> In a L -> In b L -> a < b ->
  exists M', update3 K p meth s M a b v sa sb = Ok M'.
Proof.
  intros HA Hwf HMo HN Hsz Ha Hb Hab. pose proof HA as (Hlen & Hl & Hdead).
  assert (HB : forall z, In z L -> z < n0) by (intros z Hz; apply (linked_bounds Hl) in Hz; lia).
  pose proof (HB a Ha) as Han. pose proof (HB b Hb) as Hbn.
  unfold update3.
  unfold a_below. rewrite (@a_range_spec _ _ Unb (Excl a) HA) by (cbn [lo_of hi_of]; pose proof (proj1 (linked_bounds Hl)); lia).
  cbn [bind lo_of hi_of].
  destruct (@fold_upd_ok T K p meth (st_sizes s) (fun x => ((x, a), (x, b))) v sa sb
              (filter (in_range (a_start (st_active s)) a) L) n0) with (M := M) as (M1 & F1 & Hwf1 & Ho1).
  { intros x Hx. apply filter_In in Hx. destruct Hx as [Hx Hr]. unfold in_range in Hr.
    apply Bool.andb_true_iff in Hr. destruct Hr as [_ Hr]. apply Nat.ltb_lt in Hr. cbn [fst snd]. pose proof (HB x Hx). lia. }
  { exact Hwf. } { exact HMo. }
  cbn [fst snd] in F1. rewrite F1. cbn [bind].
  unfold a_between. rewrite (@a_range_spec _ _ (Incl a) (Excl b) HA) by (cbn [lo_of hi_of]; lia).
  cbn [bind lo_of hi_of]. rewrite (filter_between_sorted (linked_sorted Hl) Ha Hab).
  destruct (@fold_upd_ok T K p meth (st_sizes s) (fun x => ((a, x), (x, b))) v sa sb
              (filter (fun z => (a <? z) && (z <? b)) L) n0) with (M := M1) as (M2 & F2 & Hwf2 & Ho2).
  { intros x Hx. apply filter_In in Hx. destruct Hx as [Hx Hr].
    apply Bool.andb_true_iff in Hr. destruct Hr as [Hr1 Hr2]. apply Nat.ltb_lt in Hr1, Hr2. cbn [fst snd]. pose proof (HB x Hx). lia. }
  { exact Hwf1. } { exact Ho1. }
  cbn [fst snd] in F2. rewrite F2. cbn [bind].
  rewrite (@a_above_spec (st_active s) L b HA Hb). cbn [bind].
  destruct (@fold_upd_ok T K p meth (st_sizes s) (fun x => ((a, x), (b, x))) v sa sb
              (filter (fun z => b <? z) L) n0) with (M := M2) as (M3 & F3 & Hwf3 & Ho3).
  { intros x Hx. apply filter_In in Hx. destruct Hx as [Hx Hr]. apply Nat.ltb_lt in Hr. cbn [fst snd]. pose proof (HB x Hx). lia. }
  { exact Hwf2. } { exact Ho2. }
  cbn [fst snd] in F3. rewrite F3. eexists. reflexivity.
Qed.

Lemma removelast_rev_cons {A} (x : A) l : removelast (rev (x :: l)) = rev l.
Proof. cbn [rev]. apply removelast_last. Qed.

(* loop invariant of nnchain_with *)
Definition NInv (n0 : nat) (s : lstate T) (d : dend T) (M : cmat T) (L : list nat) : Prop :=
  AInv (st_active s) L /\ wf_mat M /\ m_obs M = n0 /\ length (a_next (st_active s)) = n0 /\ NoDup L
  /\ length (st_sizes s) = n0
  /\ (forall x, In x L -> exists z, nth_error (st_sizes s) x = Some z /\ 0 < z)
  /\ d_obs d = n0 /\ length (d_steps d) + length L = n0
  /\ exists junk rest, st_chain s = rev (junk ++ rest)
       /\ (length junk = 2 \/ (junk = [] /\ rest = [])) /\ cinv K M L rest.

(* entry of an iteration: a valid chain with top a0 and a nearest neighbour b0 *)
Lemma chain_entry n0 s d M L : NInv n0 s d M L -> 2 <= length L ->
  exists a0 b0 rest0 mn0,
    chain_start K p s M = Ok (rev (a0 :: rest0), a0, b0, mn0)
    /\ cinv K M L (a0 :: rest0) /\ In b0 L /\ NN K M L a0 b0 mn0
    /\ (forall z rest' w, rest0 = z :: rest' -> cellv M z a0 w -> ltb mn0 w = true).
Proof.
  intros (HA & Hwf & HMo & HN & Hnd & Hsz & Hpos & Hobs & Hcount & junk & rest & Hch & Hjunk & Hc) HL2.
  pose proof HA as (Hlen & Hl & Hdead).
  assert (HB : forall z, In z L -> z < m_obs M) by (intros z Hz; apply (linked_bounds Hl) in Hz; lia).
  unfold chain_start.
  destruct (Nat.ltb_spec (length (st_chain s)) 4) as [Hshort|Hlong].
  - (* fresh chain *)
    rewrite (a_iter_spec HA). cbn [bind].
    destruct L as [|a0 [|b1 tail]]; cbn [length] in HL2; try lia.
    cbn [hd_error nth_error opt_unwrap bind].
    pose proof (linked_sorted Hl) as Hsorted.
    assert (Hab1 : a0 < b1).
    { inversion Hsorted as [|? ? _ Hall]; subst. rewrite Forall_forall in Hall. apply Hall. left. reflexivity. }
    assert (Htail : forall z, In z tail -> b1 < z).
    { inversion Hsorted as [|? ? Hs1 _]; subst. inversion Hs1 as [|? ? _ Hall]; subst.
      rewrite Forall_forall in Hall. exact Hall. }
    assert (Ha0 : In a0 (a0 :: b1 :: tail)) by (left; reflexivity).
    assert (Hb1 : In b1 (a0 :: b1 :: tail)) by (right; left; reflexivity).
    destruct (@mget_cellv T p M Hwf a0 b1 Hab1 (HB b1 Hb1)) as (mn & Hmn & Hg). rewrite Hg. cbn [bind].
    rewrite (@a_above_spec (st_active s) _ b1 HA Hb1). cbn [bind].
    set (dv := fun x => match wcell M a0 x with Some v => v | None => mn end).
    assert (Hdv : forall x v, cellv M a0 x v -> dv x = v) by (intros x v Hv; unfold dv; unfold cellv in Hv; rewrite Hv; reflexivity).
    destruct (@nn_scan_spec T K p ltb_irrefl ltb_trans M (fun _ => a0) (fun x => x) dv (filter (fun z => b1 <? z) (a0 :: b1 :: tail)))
      with (mn := mn) (who := b1) as (m2 & w2 & F2 & All2 & Low2 & Who2).
    { intros x Hx. apply filter_In in Hx. destruct Hx as [Hx Hlt]. apply Nat.ltb_lt in Hlt.
      destruct (@mget_cellv T p M Hwf a0 x ltac:(lia) (HB x Hx)) as (v & Hv & Hg'). rewrite Hg'. f_equal. symmetry. apply Hdv. exact Hv. }
    rewrite F2. cbn [bind]. exists a0, w2, [], m2. split; [reflexivity|].
    split; [constructor; exact Ha0|].
    assert (Hw2 : In w2 (a0 :: b1 :: tail) /\ w2 <> a0 /\ cellv M a0 w2 m2).
    { destruct Who2 as [[-> ->]|(Hin & E & _)].
      - split; [exact Hb1|]. split; [lia|exact Hmn].
      - apply filter_In in Hin. destruct Hin as [Hin Hlt]. apply Nat.ltb_lt in Hlt.
        split; [exact Hin|]. split; [lia|].
        destruct (@cellv_ex T p M Hwf a0 w2 ltac:(lia) (HB a0 Ha0) (HB w2 Hin)) as (v & Hv).
        rewrite (Hdv w2 v Hv) in E. subst v. exact Hv. }
    destruct Hw2 as (Hw2in & Hw2ne & Hw2c).
    split; [exact Hw2in|]. split.
    + split; [exact Hw2ne|]. split; [exact Hw2c|].
      intros z w Hz Hza Hw. rewrite <- (Hdv z w Hw).
      destruct Hz as [E|[E|Hz]]; [exfalso; exact (Hza (eq_sym E))| |].
      * subst z. rewrite (Hdv b1 mn Hmn).
        destruct Low2 as [->|Hlt]; [apply ltb_irrefl|].
        destruct (ltb mn m2) eqn:C; [|reflexivity].
        pose proof (@ltb_trans _ _ _ C Hlt) as C3. rewrite ltb_irrefl in C3. discriminate.
      * apply All2. apply filter_In. split; [right; right; exact Hz|apply Nat.ltb_lt; exact (Htail z Hz)].
    + intros z rest' w E. discriminate.
  - (* resumed chain: junk has two elements, the rest at least two *)
    destruct Hjunk as [Hj2|[-> ->]]; [|rewrite Hch in Hlong; cbn in Hlong; lia].
    destruct junk as [|j1 [|j2 [|? ?]]]; cbn [length] in Hj2; try lia.
    rewrite Hch in Hlong. rewrite rev_length in Hlong. cbn [app length] in Hlong.
    destruct rest as [|r1 [|r2 rest3]]; cbn [length] in Hlong; try lia.
    rewrite Hch. cbn [app]. cbn zeta.
    rewrite !removelast_rev_cons. rewrite vlast1_rev. cbn [bind].
    rewrite vlast1_rev. cbn [bind].
    inversion Hc as [| |y x rest' v Hy (Hyx & Hcv & Hmin) Hni Hst Hc']; subst.
    pose proof (cinv_live Hc' r2 (or_introl eq_refl)) as Hr2.
    assert (Hmg : (if r2 <? r1 then mget p M r2 r1 else mget p M r1 r2) = Ok v).
    { destruct (Nat.ltb_spec r2 r1) as [Hlt|Hge].
      - destruct (@mget_cellv T p M Hwf r2 r1 Hlt (HB r1 Hy)) as (v' & Hv' & Hg). rewrite Hg.
        rewrite (@cellv_fun T M _ _ _ _ Hv' Hcv). reflexivity.
      - assert (Hlt : r1 < r2) by lia.
        destruct (@mget_cellv T p M Hwf r1 r2 Hlt (HB r2 Hr2)) as (v' & Hv' & Hg). rewrite Hg.
        rewrite (@cellv_fun T M _ _ _ _ (cellv_sym Hv') Hcv). reflexivity. }
    rewrite Hmg. cbn [bind].
    exists r2, r1, rest3, v. split; [reflexivity|]. split; [exact Hc'|]. split; [exact Hy|].
    split; [split; [exact Hyx|split; [exact Hcv|exact Hmin]]|exact Hst].
Qed.

Lemma cnt_lt_bound (M : cmat T) v : cnt_lt K M v <= length (m_data M).
Proof. unfold cnt_lt. induction (m_data M) as [|x l IH]; [reflexivity|]. cbn [filter]. destruct (ltb x v); cbn [length]; lia. Qed.

(* one iteration: never stuck, inner loop within fuel, merges two distinct
   live clusters, invariant re-established *)
(* what one merge does to the matrix and the sizes (for the criterion invariant) *)
Definition merge_facts (s s' : lstate T) (M M' : cmat T) (L : list nat) (a b : nat) (v : T) : Prop :=
  wcell M a b = Some v
  /\ exists za zb sa sb,
      nth_error (st_sizes s) a = Some za /\ nth_error (st_sizes s) b = Some zb
      /\ st_sizes s' = set_nth (st_sizes s) b (za + zb)
      /\ (if uses_sizes_ab meth then sa = za /\ sb = zb else sa = 0 /\ sb = 0)
      /\ (forall x, In x L -> x <> a -> x <> b ->
            exists va vb sx, wcell M x a = Some va /\ wcell M x b = Some vb
              /\ (if uses_size_x meth then vget (st_sizes s) x else Ok 0) = Ok sx
              /\ wcell M' x b = Some (k_upd K va vb v sa sb sx))
      /\ (forall x y, In x L -> In y L -> x <> y -> x <> a -> x <> b -> y <> a -> y <> b ->
            wcell M' x y = wcell M x y).

Theorem chain_iter_step_ext n0 s d M L i : NInv n0 s d M L -> 2 <= length L ->
  exists s' d' M' a b v sz,
    chain_iter K p meth (s, d, M) i = Ok (s', d', M')
    /\ In a L /\ In b L /\ a < b
    /\ d_steps d' = d_steps d ++ [step_new a b v sz]
    /\ NInv n0 s' d' M' (without a L)
    /\ merge_facts s s' M M' L a b v
    /\ (forall x w, In x L -> x <> a -> x <> b -> (cellv M x a w \/ cellv M x b w) -> ltb w v = false).
Proof.
  intros HI HL2. destruct (chain_entry HI HL2) as (a0 & b0 & rest0 & mn0 & Hentry & Hc0 & Hb0 & Hnn0 & Hst0).
  destruct HI as (HA & Hwf & HMo & HN & Hnd & Hsz & Hpos & Hobs & Hcount & _).
  pose proof HA as (Hlen & Hl & Hdead).
  assert (HB : forall z, In z L -> z < m_obs M) by (intros z Hz; apply (linked_bounds Hl) in Hz; lia).
  unfold chain_iter. rewrite Hentry. cbn [bind].
  destruct (@grow_spec T K p ltb_irrefl ltb_trans M Hwf L HB s HA ltac:(lia) (chain_fuel M) rest0 a0 b0 mn0
              ltac:(unfold chain_fuel; pose proof (cnt_lt_bound M mn0); lia) Hc0 Hb0 Hnn0 Hst0)
    as (a1 & b1 & rest1 & mn1 & Hgrow & Hc1 & Hnnb & Hnna).
  rewrite Hgrow. cbn [bind].
  pose proof (cinv_live Hc1 a1 (or_introl eq_refl)) as Ha1.
  pose proof (cinv_live Hc1 b1 (or_intror (or_introl eq_refl))) as Hb1.
  destruct Hnna as (Hb1a1 & Hcab1 & Hmina). destruct Hnnb as (_ & Hcba1 & Hminb).
  (* order the pair *)
  set (a := Nat.min a1 b1). set (b := Nat.max a1 b1).
  assert (Hpair : (if b1 <? a1 then (b1, a1) else (a1, b1)) = (a, b)).
  { unfold a, b. destruct (Nat.ltb_spec b1 a1); [rewrite Nat.min_r, Nat.max_l by lia|rewrite Nat.min_l, Nat.max_r by lia]; reflexivity. }
  rewrite Hpair.
  assert (Hab : a < b) by (unfold a, b; lia).
  assert (Ha : In a L) by (unfold a; destruct (Nat.min_spec a1 b1) as [[_ ->]|[_ ->]]; assumption).
  assert (Hb : In b L) by (unfold b; destruct (Nat.max_spec a1 b1) as [[_ ->]|[_ ->]]; assumption).
  assert (Hcab : cellv M a b mn1).
  { unfold cellv, wcell. unfold cellv, wcell in Hcab1. unfold a, b.
    replace (Nat.min (Nat.min a1 b1) (Nat.max a1 b1)) with (Nat.min a1 b1) by lia.
    replace (Nat.max (Nat.min a1 b1) (Nat.max a1 b1)) with (Nat.max a1 b1) by lia. exact Hcab1. }
  (* every other live cluster is at least mn1 away from both *)
  assert (Hfar : forall x w, In x L -> x <> a -> x <> b -> (cellv M x a w \/ cellv M x b w) -> ltb w mn1 = false).
  { intros x w Hx Hxa Hxb Hw.
    assert (Hxa1 : x <> a1) by (unfold a, b in *; lia). assert (Hxb1 : x <> b1) by (unfold a, b in *; lia).
    assert (Hcases : cellv M a1 x w \/ cellv M b1 x w).
    { unfold a, b in Hw. destruct (Nat.le_gt_cases a1 b1).
      - rewrite Nat.min_l, Nat.max_r in Hw by lia. destruct Hw as [Hw|Hw]; [left|right]; apply cellv_sym; exact Hw.
      - rewrite Nat.min_r, Nat.max_l in Hw by lia. destruct Hw as [Hw|Hw]; [right|left]; apply cellv_sym; exact Hw. }
    destruct Hcases as [Hw1|Hw1]; [exact (Hmina x w Hx Hxa1 Hw1)|exact (Hminb x w Hx Hxb1 Hw1)]. }
  set (s1 := st_with_chain s (rev (a1 :: b1 :: rest1))).
  (* dist *)
  assert (Hdist : (if uses_size_x meth then mget p M a b else Ok mn1) = Ok mn1).
  { destruct (uses_size_x meth); [|reflexivity].
    destruct (@mget_cellv T p M Hwf a b Hab (HB b Hb)) as (v' & Hv' & Hg). rewrite Hg.
    rewrite (@cellv_fun T M _ _ _ _ Hv' Hcab). reflexivity. }
  rewrite Hdist. cbn [bind].
  (* sizes *)
  destruct (Hpos a Ha) as (za & Hza & Hza0). destruct (Hpos b Hb) as (zb & Hzb & Hzb0).
  assert (Hsab : exists sa sb, sizes_ab meth s1 a b = Ok (sa, sb) /\ (uses_sizes_ab meth = true -> 0 < sa /\ 0 < sb)
                   /\ (if uses_sizes_ab meth then sa = za /\ sb = zb else sa = 0 /\ sb = 0)).
  { unfold sizes_ab, s1. cbn [st_with_chain st_sizes]. destruct (uses_sizes_ab meth).
    - unfold vget. rewrite Hza, Hzb. cbn [bind]. exists za, zb. split; [reflexivity|]. split; [intros _; split; assumption|split; reflexivity].
    - exists 0, 0. split; [reflexivity|]. split; [discriminate|split; reflexivity]. }
  destruct Hsab as (sa & sb & Hsab & Hsabpos & Hsabval). rewrite Hsab. cbn [bind].
  (* update *)
  assert (HA1 : AInv (st_active s1) L) by exact HA.
  destruct (@update3_ok s1 M L a b mn1 sa sb n0 HA1 Hwf HMo HN Hsz Ha Hb Hab) as (M' & Hupd).
  rewrite Hupd. cbn [bind].
  destruct (@update3_spec T K p meth s1 M M' L a b mn1 sa sb HA1 Hwf ltac:(cbn [s1 st_with_chain st_active]; lia) Ha Hb Hab Hupd)
    as (Hwf' & Ho' & Hin & Hout).
  (* merge *)
  unfold st_merge. cbn [s1 st_with_chain st_sizes st_active].
  unfold vget at 1. rewrite Hza. cbn [bind]. unfold vget at 1. rewrite Hzb. cbn [bind].
  pose proof (HB a Ha) as Han. pose proof (HB b Hb) as Hbn.
  unfold vset. destruct (Nat.ltb_spec b (length (st_sizes s))); [|lia]. cbn [bind].
  destruct (@a_remove_spec _ _ a HA ltac:(lia)) as (act' & Hrem & HA' & Hlen').
  rewrite Hrem. cbn [bind]. unfold vget at 1. rewrite nth_error_set_nth_eq by lia. cbn [bind].
  pose proof (without_length a Hnd Ha) as Hwl.
  unfold d_push, d_len, assert_. destruct (Nat.ltb_spec (length (d_steps d)) (d_obs d - 1)); [|lia]. cbn [bind].
  eexists _, _, M', a, b, mn1, (za + zb). split; [reflexivity|].
  split; [exact Ha|]. split; [exact Hb|]. split; [exact Hab|]. split; [reflexivity|].
  assert (Hsame : forall x y, In x L -> In y L -> x <> y -> x <> a -> x <> b -> y <> a -> y <> b -> wcell M' x y = wcell M x y).
  { intros x y Hx Hy Hxy Hxa Hxb Hya Hyb. unfold wcell. apply Hout.
    + lia.
    + destruct (Nat.max_spec x y) as [[_ ->]|[_ ->]]; [exact (HB y Hy)|exact (HB x Hx)].
    + intros z Hz Hza' Hzb' E. inversion E as [[E1 E2]]. lia. }
  split; [|split; [split; [exact Hcab|exists za, zb, sa, sb; split; [exact Hza|]; split; [exact Hzb|]; split; [reflexivity|];
                   split; [exact Hsabval|]; split; [exact Hin|exact Hsame]]|exact Hfar]].
  (* the invariant *)
  unfold NInv. cbn [st_with_active st_with_sizes st_with_chain st_active st_sizes st_chain d_steps d_obs].
  split; [exact HA'|]. split; [exact Hwf'|]. split; [lia|]. split; [lia|].
  split; [apply NoDup_filter; exact Hnd|]. split; [rewrite set_nth_length; exact Hsz|].
  split.
  { intros x Hx. apply without_In in Hx. destruct Hx as [Hx Hxa].
    destruct (Nat.eq_dec x b) as [->|Hxb].
    - exists (za + zb). split; [apply nth_error_set_nth_eq; lia|lia].
    - rewrite nth_error_set_nth_neq by exact Hxb. exact (Hpos x Hx). }
  split; [exact Hobs|]. split; [rewrite app_length; cbn [length]; lia|].
  exists [a1; b1], rest1. split; [reflexivity|]. split; [left; reflexivity|].
  (* the chain below the merged pair is still valid *)
  pose proof (cinv_nodup Hc1) as Hnd1.
  assert (Hrest_ne : forall c, In c rest1 -> c <> a /\ c <> b).
  { intros c Hc'. inversion Hnd1 as [|? ? Hn1 Hnd2]; subst. inversion Hnd2 as [|? ? Hn2 _]; subst.
    assert (c <> a1) by (intros ->; apply Hn1; right; exact Hc').
    assert (c <> b1) by (intros ->; apply Hn2; exact Hc').
    unfold a, b. lia. }
  apply (@cinv_transfer M M' L a b Ha Hb); [exact Hsame| |exact Hrest_ne|exact (cinv_tail (cinv_tail Hc1))].
  intros x Hx Hxa Hxb.
  destruct (Hin x Hx Hxa Hxb) as (va & vb & sx & Ca & Cb & Esx & Cn).
  exists va, vb, (k_upd K va vb mn1 sa sb sx). split; [exact Ca|]. split; [exact Cb|]. split; [exact Cn|].
  apply reducible.
  - split; [exact Hsabpos|]. intros Hux. rewrite Hux in Esx. cbn [s1 st_with_chain st_sizes] in Esx.
    destruct (Hpos x Hx) as (zx & Hzx & Hzx0). unfold vget in Esx. rewrite Hzx in Esx. inversion Esx. lia.
  - exact (Hfar x va Hx Hxa Hxb (or_introl Ca)).
  - exact (Hfar x vb Hx Hxa Hxb (or_intror Cb)).
Qed.

Corollary chain_iter_step n0 s d M L i : NInv n0 s d M L -> 2 <= length L ->
  exists s' d' M' a b v sz,
    chain_iter K p meth (s, d, M) i = Ok (s', d', M')
    /\ In a L /\ In b L /\ a < b
    /\ d_steps d' = d_steps d ++ [step_new a b v sz]
    /\ NInv n0 s' d' M' (without a L).
Proof.
  intros HI HL. destruct (chain_iter_step_ext i HI HL) as (s' & d' & M' & a & b & v & sz & H1 & H2 & H3 & H4 & H5 & H6 & _).
  exists s', d', M', a, b, v, sz. repeat (split; [assumption|]). assumption.
Qed.

(* forest invariant of the raw steps under one merge of a live pair *)
Lemma finv_step (n : nat) (d d' : dend T) (L : list nat) a b v sz :
  FInv n d L -> NoDup L -> In a L -> In b L -> a < b -> d_obs d' = d_obs d ->
  d_steps d' = d_steps d ++ [step_new a b v sz] -> FInv n d' (without a L).
Proof.
  intros (Hobs & HLn & Hends & Hnt & Hsep & Hcount) Hnd Ha Hb Hab Hobs' Hsteps.
  assert (Hnew : step_new a b v sz = {| s_c1 := a; s_c2 := b; s_dis := v; s_size := sz |}).
  { unfold step_new. destruct (Nat.ltb_spec b a); [lia|reflexivity]. }
  assert (Hedges : edges (d_steps d') = edges (d_steps d) ++ [(a, b)]).
  { rewrite Hsteps, Hnew. unfold edges. rewrite map_app. reflexivity. }
  unfold FInv. rewrite Hedges. split; [congruence|]. split.
  { intros x Hx. apply without_In in Hx. apply HLn. exact (proj1 Hx). }
  split.
  { intros st Hst. rewrite Hsteps in Hst. apply in_app_or in Hst. destruct Hst as [Hst|[<-|[]]]; [apply Hends; exact Hst|].
    rewrite Hnew. cbn. split; apply HLn; assumption. }
  split.
  { apply all_nontrivial_snoc; [exact Hnt|]. apply Hsep; [exact Ha|exact Hb|lia]. }
  split.
  { intros x y Hx Hy Hxy. apply without_In in Hx. apply without_In in Hy. destruct Hx as [Hx Hxa], Hy as [Hy Hya].
    rewrite add_edges_app. cbn [add_edges]. unfold add_edge.
    intros [H1|[[H1 H2]|[H1 H2]]].
    - exact (Hsep x y Hx Hy Hxy H1).
    - exact (Hsep x a Hx Ha Hxa H1).
    - exact (Hsep a y Ha Hy (fun E => Hya (eq_sym E)) H2). }
  rewrite Hsteps, app_length. cbn [length].
  pose proof (without_length a Hnd Ha). lia.
Qed.

Lemma chain_fold_progress n0 : forall (k : nat) i s d M L,
  NInv n0 s d M L -> FInv n0 d L -> S k <= length L ->
  exists s' d' M' L', mfold (chain_iter K p meth) (seq i k) (s, d, M) = Ok (s', d', M')
    /\ NInv n0 s' d' M' L' /\ FInv n0 d' L' /\ length L' + k = length L.
Proof.
  induction k as [|k IH]; intros i s d M L HI HF Hk.
  - eexists _, _, _, L. split; [reflexivity|]. split; [exact HI|]. split; [exact HF|lia].
  - cbn [seq mfold].
    destruct (@chain_iter_step n0 s d M L i HI ltac:(lia)) as (s1 & d1 & M1 & a & b & v & sz & Hstep & Ha & Hb & Hab & Hsteps & HI1).
    rewrite Hstep. cbn [bind].
    pose proof HI as (_ & _ & _ & _ & Hnd & _ & _ & Hobs & _).
    pose proof HI1 as (_ & _ & _ & _ & _ & _ & _ & Hobs1 & _).
    pose proof (without_length a Hnd Ha) as Hwl.
    pose proof (@finv_step n0 d d1 L a b v sz HF Hnd Ha Hb Hab ltac:(congruence) Hsteps) as HF1.
    destruct (IH (S i) s1 d1 M1 (without a L) HI1 HF1 ltac:(lia)) as (s' & d' & M' & L' & Hf & HI' & HF' & Hl').
    eexists _, _, _, L'. split; [exact Hf|]. split; [exact HI'|]. split; [exact HF'|lia].
Qed.

(* nnchain_with on a well-formed input: it returns - the inner loop never
   exhausts its fuel, no index is out of range, no unwrap fails - or raises the
   NaN panic of the sort; and whatever it returns is a well-formed dendrogram *)
Theorem nnchain_total_wf (s : lstate T) (d : dend T) (m : list T) (n : N) :
  (n < two32)%N -> wf_shape n (N.of_nat (length m)) ->
  (exists s' d' m', nnchain_with K p meth s d m n = Ok (s', d', m') /\ wf_dend (d_obs d') (d_steps d'))
  \/ nnchain_with K p meth s d m n = Panic PNaN.
Proof.
  intros Hn Hshape. unfold nnchain_with, prologue.
  assert (Hshape' : wf_shape n (N.of_nat (length (square_all K m)))) by (unfold square_all; rewrite map_length; exact Hshape).
  rewrite (shape_check_ok p n _ Hn Hshape'). cbn [bind].
  unfold obs_to_nat. destruct (N.ltb_spec (if (n <=? 1)%N then 0%N else n) two32) as [_|Hbig];
    [|destruct (N.leb_spec n 1); unfold two32 in *; lia]. cbn [bind m_obs m_data].
  set (n0 := N.to_nat (if (n <=? 1)%N then 0%N else n)).
  destruct (Nat.eqb_spec n0 0) as [Hz|Hz].
  { left. eexists _, _, _. split; [reflexivity|]. cbn [d_reset d_obs d_steps]. split; [rewrite Hz; reflexivity|].
    intros j t Ht. destruct j; discriminate. }
  set (M := {| m_data := square_all K m; m_obs := n0 |}).
  assert (Hwf : wf_mat M).
  { unfold wf_mat, M. cbn [m_data m_obs]. unfold wf_shape in Hshape'. unfold n0 in *.
    destruct (N.leb_spec n 1); [cbn in Hz; lia|].
    apply Nat2N.inj. rewrite Hshape'. rewrite Nat2N.inj_div, Nat2N.inj_mul, Nat2N.inj_sub, N2Nat.id. reflexivity. }
  assert (HI0 : NInv n0 (st_with_chain (st_reset K s n0) []) (d_reset d n0) M (seq 0 n0)).
  { unfold NInv. cbn [st_with_chain st_reset st_active st_sizes st_chain d_reset d_obs d_steps length].
    split; [apply a_reset_inv|]. split; [exact Hwf|]. split; [reflexivity|].
    split; [rewrite a_reset_canonical; cbn; rewrite map_length, seq_length; reflexivity|].
    split; [apply seq_NoDup|]. unfold clear_resize. split; [rewrite vresize_length; reflexivity|].
    split.
    { intros x Hx. apply in_seq in Hx. exists 1. split; [|lia]. unfold vresize. rewrite firstn_nil. cbn [length app].
      rewrite Nat.sub_0_r. apply nth_error_repeat. lia. }
    split; [reflexivity|]. split; [rewrite seq_length; reflexivity|].
    exists [], []. split; [reflexivity|]. split; [right; split; reflexivity|constructor]. }
  assert (HF0 : FInv n0 (d_reset d n0) (seq 0 n0)).
  { unfold FInv. cbn [d_reset d_obs d_steps edges map all_nontrivial add_edges length].
    split; [reflexivity|]. split; [intros x Hx; apply in_seq in Hx; lia|]. split; [intros st []|].
    split; [exact I|]. split; [intros x y _ _ Hxy Heq; exact (Hxy Heq)|rewrite seq_length; reflexivity]. }
  destruct (@chain_fold_progress n0 (n0 - 1) 0 _ _ _ _ HI0 HF0 ltac:(rewrite seq_length; lia))
    as (s1 & d1 & M1 & L1 & Hfold & HI1 & (Hobs & _ & Hends & Hnt & _ & Hcount) & Hl1).
  change (m_obs M) with n0. fold M. rewrite Hfold. cbn [bind].
  rewrite seq_length in Hl1.
  assert (Hlend : length (d_steps d1) = d_obs d1 - 1) by lia.
  destruct (requires_sorting meth).
  - destruct (sort_steps_total (k_ltb K) (k_eqb K) (d_steps d1)) as [[l Hsort]|Hnan].
    + destruct (@relabel_wf T (k_ltb K) (k_eqb K) (st_set s1) d1 true l ltac:(lia) Hlend
                  ltac:(rewrite Hobs; exact Hends) Hnt Hsort) as (u' & d' & Hrel & Hwfd & Hobs' & _).
      rewrite Hrel. cbn [bind]. left. eexists _, _, _. split; [reflexivity|].
      unfold sqrt_all. cbn [d_obs d_steps]. rewrite Hobs'. apply wf_dend_map_dis. exact Hwfd.
    + right. unfold relabel. rewrite Hnan. reflexivity.
  - destruct (@relabel_wf T (k_ltb K) (k_eqb K) (st_set s1) d1 false (d_steps d1) ltac:(lia) Hlend
                ltac:(rewrite Hobs; exact Hends) Hnt eq_refl) as (u' & d' & Hrel & Hwfd & Hobs' & _).
    rewrite Hrel. cbn [bind]. left. eexists _, _, _. split; [reflexivity|].
    unfold sqrt_all. cbn [d_obs d_steps]. rewrite Hobs'. apply wf_dend_map_dis. exact Hwfd.
Qed.

Corollary nnchain_total (s : lstate T) (d : dend T) (m : list T) (n : N) :
  (n < two32)%N -> wf_shape n (N.of_nat (length m)) ->
  (exists r, nnchain_with K p meth s d m n = Ok r) \/ nnchain_with K p meth s d m n = Panic PNaN.
Proof.
  intros Hn Hs. destruct (nnchain_total_wf s d m Hn Hs) as [(s' & d' & m' & H & _)|H]; [left; eexists; exact H|right; exact H].
Qed.

End ChainIter.
