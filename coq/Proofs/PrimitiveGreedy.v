(* C03 (primitive): argmin returns a pair of live clusters whose working
   dissimilarity is minimal among all live pairs - no live pair is strictly
   smaller - whatever the ties. *)
Require Import KV.Model.Prelude KV.Model.Condensed KV.Model.Active KV.Model.Heap
  KV.Model.UnionFind KV.Model.Dendrogram KV.Model.Methods KV.Model.State KV.Model.Primitive
  KV.Proofs.ResetCanon KV.Proofs.ActiveRefine KV.Proofs.CondensedIdx KV.Proofs.Monotone.
From Coq Require Import Sorting.Sorted.

Set Implicit Arguments.

Section Greedy.
Variable T : Type.
Variable K : kops T.
Variable p : profile.

(* `<` on the float type is transitive (IEEE: also with NaNs, for which it is
   simply false) *)
Hypothesis ltb_trans : forall a b c, k_ltb K a b = true -> k_ltb K b c = true -> k_ltb K a c = true.
Hypothesis ltb_irrefl : forall a, k_ltb K a a = false.

Definition wf_mat (M : cmat T) : Prop := length (m_data M) = m_obs M * (m_obs M - 1) / 2.

Definition mcell (M : cmat T) (r c : nat) : option T := nth_error (m_data M) (cidx_nat (m_obs M) r c).

Lemma mget_cell (M : cmat T) r c : wf_mat M -> r < c -> c < m_obs M ->
  exists v, mcell M r c = Some v /\ mget p M r c = Ok v.
Proof.
  intros Hwf Hrc Hc. unfold mget. rewrite (mslot_ok p M r c Hrc Hc Hwf). cbn [bind]. unfold vget, mcell.
  pose proof (cidx_in_range (m_obs M) r c Hrc Hc) as Hr. rewrite <- Hwf in Hr.
  destruct (nth_error (m_data M) (cidx_nat (m_obs M) r c)) eqn:E.
  - eexists. split; reflexivity.
  - apply nth_error_None in E. lia.
Qed.

(* elements of a sorted list above one of its members *)
Lemma filter_ge_sorted (L : list nat) (r : nat) : StronglySorted lt L -> In r L ->
  filter (fun z => r <=? z) L = r :: filter (fun z => r <? z) L.
Proof.
  induction 1 as [|x t Hs IH Hall]; intros Hin; [destruct Hin|].
  rewrite Forall_forall in Hall. cbn [filter]. destruct Hin as [->|Hin].
  - rewrite Nat.leb_refl, Nat.ltb_irrefl. f_equal.
    rewrite filter_all, filter_all; [reflexivity| |]; intros z Hz; apply Hall in Hz.
    + apply Nat.ltb_lt. lia.
    + apply Nat.leb_le. lia.
  - pose proof (Hall r Hin). destruct (Nat.leb_spec r x); [lia|]. destruct (Nat.ltb_spec r x); [lia|].
    apply IH. exact Hin.
Qed.

Lemma a_above_spec (a : active) (L : list nat) (r : nat) : AInv a L -> In r L ->
  a_above a r = Ok (filter (fun z => r <? z) L).
Proof.
  intros HA Hin. pose proof HA as (Hlen & Hl & Hdead).
  assert (Hr : r < length (a_next a)) by (apply (linked_bounds Hl) in Hin; lia).
  unfold a_above. rewrite (@a_range_spec _ _ (Incl r) Unb HA) by (cbn [lo_of hi_of]; lia).
  cbn [bind lo_of hi_of]. f_equal.
  assert (E : filter (in_range r (length (a_next a))) L = filter (fun z => r <=? z) L).
  { apply filter_ext_in. intros z Hz. unfold in_range. apply (linked_bounds Hl) in Hz.
    destruct (Nat.ltb_spec z (length (a_next a))); [|lia]. apply Bool.andb_true_r. }
  rewrite E, (@filter_ge_sorted L r (linked_sorted Hl) Hin). reflexivity.
Qed.

(* the candidate so far: a live pair, its cell value, not beaten by anything
   in `seen` *)
Definition cand_ok (M : cmat T) (L : list nat) (seen : nat -> nat -> Prop) (mn : nat * nat * T) : Prop :=
  let '(a, b, v) := mn in
  In a L /\ In b L /\ a < b /\ mcell M a b = Some v
  /\ forall x y w, seen x y -> mcell M x y = Some w -> k_ltb K w v = false.

Lemma cand_update (M : cmat T) L (seen : nat -> nat -> Prop) a b v r c v' :
  cand_ok M L seen (a, b, v) -> In r L -> In c L -> r < c -> mcell M r c = Some v' ->
  cand_ok M L (fun x y => seen x y \/ (x = r /\ y = c))
          (if k_ltb K v' v then (r, c, v') else (a, b, v)).
Proof.
  intros (Ha & Hb & Hab & Hv & Hmin) Hr Hc Hrc Hv'.
  destruct (k_ltb K v' v) eqn:E; unfold cand_ok.
  - repeat split; try assumption.
    intros x y w [Hs|[-> ->]] Hw.
    + destruct (k_ltb K w v') eqn:E2; [|reflexivity].
      pose proof (Hmin x y w Hs Hw) as Hcontra. rewrite (ltb_trans _ _ _ E2 E) in Hcontra. discriminate.
    + rewrite Hw in Hv'. inversion Hv'; subst. apply ltb_irrefl.
  - repeat split; try assumption.
    intros x y w [Hs|[-> ->]] Hw; [exact (Hmin x y w Hs Hw)|].
    rewrite Hw in Hv'. inversion Hv'; subst. exact E.
Qed.

Lemma cand_weaken (M : cmat T) L (seen seen' : nat -> nat -> Prop) mn :
  (forall x y, seen' x y -> seen x y) -> cand_ok M L seen mn -> cand_ok M L seen' mn.
Proof.
  destruct mn as [[a b] v]. intros Hs (Ha & Hb & Hab & Hv & Hmin). repeat split; try assumption.
  intros x y w Hxy. apply Hmin. apply Hs. exact Hxy.
Qed.

Variable M : cmat T.
Hypothesis Hwf : wf_mat M.

(* scanning the columns of one row *)
Lemma argmin_cols (L : list nat) (row : nat) (cols : list nat) :
  In row L -> (forall c, In c cols -> In c L /\ row < c /\ c < m_obs M) ->
  forall (seen : nat -> nat -> Prop) mn, cand_ok M L seen mn ->
  exists mn', mfold (argmin_col K p M row) cols mn = Ok mn'
    /\ cand_ok M L (fun x y => seen x y \/ (x = row /\ In y cols)) mn'.
Proof.
  intros Hrow. induction cols as [|c cols IH]; intros Hc seen mn Hmn.
  - exists mn. split; [reflexivity|]. eapply cand_weaken; [|exact Hmn]. intros x y [H|[_ []]]. exact H.
  - destruct (Hc c (or_introl eq_refl)) as (HcL & Hrc & HcN).
    destruct (mget_cell Hwf Hrc HcN) as (v' & Hv' & Hget).
    cbn [mfold]. unfold argmin_col at 1. rewrite Hget. cbn [bind].
    destruct mn as [[a b] v]. cbn [snd].
    pose proof (cand_update Hmn Hrow HcL Hrc Hv') as Hnew.
    destruct (IH (fun c' Hc' => Hc c' (or_intror Hc')) _ _ Hnew) as (mn' & Hfold & Hok).
    exists mn'. split; [exact Hfold|].
    eapply cand_weaken; [|exact Hok]. intros x y [H|[-> [<-|Hy]]].
    + left. left. exact H.
    + left. right. split; reflexivity.
    + right. split; [reflexivity|exact Hy].
Qed.

Variable act : active.
Variable L : list nat.
Hypothesis HA : AInv act L.
Hypothesis HN : length (a_next act) = m_obs M.

Lemma live_bound x : In x L -> x < m_obs M.
Proof. intros H. destruct HA as (_ & Hl & _). apply (linked_bounds Hl) in H. lia. Qed.

(* scanning rows *)
Lemma argmin_rows (rows : list nat) : (forall r, In r rows -> In r L) ->
  forall (seen : nat -> nat -> Prop) mn, cand_ok M L seen mn ->
  exists mn', mfold (argmin_row K p M act) rows mn = Ok mn'
    /\ cand_ok M L (fun x y => seen x y \/ (In x rows /\ In y L /\ x < y)) mn'.
Proof.
  induction rows as [|r rows IH]; intros Hr seen mn Hmn.
  - exists mn. split; [reflexivity|]. eapply cand_weaken; [|exact Hmn]. intros x y [H|[[] _]]. exact H.
  - pose proof (Hr r (or_introl eq_refl)) as HrL.
    cbn [mfold]. unfold argmin_row at 1. rewrite (@a_above_spec act L r HA HrL). cbn [bind].
    destruct (@argmin_cols L r (filter (fun z => r <? z) L) HrL) with (seen := seen) (mn := mn) as (mn1 & Hf1 & Hok1).
    { intros c Hc. apply filter_In in Hc. destruct Hc as [HcL Hlt]. apply Nat.ltb_lt in Hlt.
      repeat split; try assumption. apply (live_bound c HcL). }
    { exact Hmn. }
    rewrite Hf1. cbn [bind].
    destruct (IH (fun r' Hr' => Hr r' (or_intror Hr')) _ _ Hok1) as (mn' & Hf & Hok).
    exists mn'. split; [exact Hf|].
    eapply cand_weaken; [|exact Hok]. intros x y [H|([<-|Hx] & Hy & Hxy)].
    + left. left. exact H.
    + left. right. split; [reflexivity|]. apply filter_In. split; [exact Hy|]. apply Nat.ltb_lt. exact Hxy.
    + right. repeat split; assumption.
Qed.

(* argmin: None iff fewer than two live clusters; otherwise a live pair
   a < b with its cell value such that NO live pair is strictly smaller *)
Theorem argmin_none : length L < 2 -> argmin K p M act = Ok None.
Proof.
  intros Hlen. unfold argmin. rewrite (a_iter_spec HA). cbn [bind].
  destruct L as [|r0 [|c0 L2]] eqn:EL; [reflexivity| |cbn in Hlen; lia].
  assert (Hr0 : In r0 [r0]) by (left; reflexivity).
  rewrite (@a_above_spec act [r0] r0 HA Hr0). cbn [bind filter]. rewrite Nat.ltb_irrefl. reflexivity.
Qed.

Theorem argmin_some : 2 <= length L ->
  exists a b v, argmin K p M act = Ok (Some (a, b, v))
    /\ In a L /\ In b L /\ a < b /\ mcell M a b = Some v
    /\ forall x y w, In x L -> In y L -> x < y -> mcell M x y = Some w -> k_ltb K w v = false.
Proof.
  intros Hlen. unfold argmin. rewrite (a_iter_spec HA). cbn [bind].
  pose proof HA as (_ & Hl & _). pose proof (linked_sorted Hl) as Hs.
  assert (Hdec : exists r0 c0 L2, L = r0 :: c0 :: L2).
  { destruct L as [|r0 [|c0 L2]]; cbn in Hlen; try lia. eexists _, _, _. reflexivity. }
  destruct Hdec as (r0 & c0 & L2 & EL).
  assert (Hr0 : In r0 L) by (rewrite EL; left; reflexivity).
  assert (Hc0 : In c0 L) by (rewrite EL; right; left; reflexivity).
  assert (Hall : forall z, In z (c0 :: L2) -> r0 < z).
  { rewrite EL in Hs. inversion Hs as [|? ? ? Hf]; subst. rewrite Forall_forall in Hf. exact Hf. }
  assert (Hcols : filter (fun z => r0 <? z) L = c0 :: L2).
  { rewrite EL.
    replace (filter (fun z => r0 <? z) (r0 :: c0 :: L2)) with (filter (fun z => r0 <? z) (c0 :: L2))
      by (cbn [filter]; rewrite Nat.ltb_irrefl; reflexivity).
    apply filter_all. intros z Hz. apply Nat.ltb_lt. apply Hall. exact Hz. }
  assert (Hrc : r0 < c0) by (apply Hall; left; reflexivity).
  destruct (mget_cell Hwf Hrc (live_bound c0 Hc0)) as (v0 & Hv0 & Hget).
  assert (Hinit : cand_ok M L (fun _ _ => False) (r0, c0, v0)).
  { repeat split; try assumption. intros x y w []. }
  destruct (@argmin_rows L (fun r Hr => Hr) _ _ Hinit) as (mn' & Hf & Hok).
  destruct mn' as [[a b] v]. exists a, b, v. destruct Hok as (Ha & Hb & Hab & Hv & Hmin).
  split.
  - rewrite EL at 1. rewrite (@a_above_spec act L r0 HA Hr0). cbn [bind]. rewrite Hcols.
    rewrite Hget. cbn [bind]. rewrite Hf. reflexivity.
  - repeat split; try assumption.
    intros x y w Hx Hy Hxy Hw. apply (Hmin x y w); [|exact Hw]. right. repeat split; assumption.
Qed.

End Greedy.

(* ---- every iteration of primitive_with is a greedy step ---------------- *)
Require Import KV.Proofs.MstCost.
Ltac binds H :=
  repeat (first [ bind_inv H | match type of H with context [let '(_, _) := ?x in _] => destruct x end ]).

Section PrimRun.
Variable T : Type.
Variable K : kops T.
Variable p : profile.
Hypothesis ltb_trans : forall a b c, k_ltb K a b = true -> k_ltb K b c = true -> k_ltb K a c = true.
Hypothesis ltb_irrefl : forall a, k_ltb K a a = false.

Definition same_shape (M M' : cmat T) : Prop :=
  m_obs M' = m_obs M /\ length (m_data M') = length (m_data M).

Lemma mset_shape (M M' : cmat T) r c v : mset p M r c v = Ok M' -> same_shape M M'.
Proof.
  unfold mset. intros H. bind_inv H. inversion H; subst. split; cbn; [reflexivity|apply set_nth_length].
Qed.

Lemma upd_cell_shape meth sizes (M M' : cmat T) r1 c1 r2 c2 x dist sa sb :
  upd_cell K p meth sizes M r1 c1 r2 c2 x dist sa sb = Ok M' -> same_shape M M'.
Proof.
  unfold upd_cell. intros H. bind_inv H. bind_inv H. bind_inv H. exact (mset_shape _ _ _ _ H).
Qed.

Lemma fold_upd_shape (f : cmat T -> nat -> res (cmat T))
  (Hf : forall M x M', f M x = Ok M' -> same_shape M M') :
  forall xs M M', mfold f xs M = Ok M' -> same_shape M M'.
Proof.
  induction xs as [|x xs IH]; intros M M' H; cbn [mfold] in H.
  - inversion H. split; reflexivity.
  - bind_inv H. destruct (Hf _ _ _ E) as [A1 A2]. destruct (IH _ _ H) as [B1 B2]. split; congruence.
Qed.

Lemma update3_shape meth s (M M' : cmat T) a b dist sa sb :
  update3 K p meth s M a b dist sa sb = Ok M' -> same_shape M M'.
Proof.
  unfold update3. intros H. bind_inv H. bind_inv H. bind_inv H. bind_inv H. bind_inv H.
  pose proof (@fold_upd_shape _ (fun M x M' Hx => upd_cell_shape _ _ _ _ _ _ _ _ _ _ _ Hx) _ _ _ E0) as [A1 A2].
  pose proof (@fold_upd_shape _ (fun M x M' Hx => upd_cell_shape _ _ _ _ _ _ _ _ _ _ _ Hx) _ _ _ E2) as [B1 B2].
  pose proof (@fold_upd_shape _ (fun M x M' Hx => upd_cell_shape _ _ _ _ _ _ _ _ _ _ _ Hx) _ _ _ H) as [C1 C2].
  split; congruence.
Qed.

Lemma st_merge_spec (s s' : lstate T) (d d' : dend T) c1 c2 x :
  st_merge s d c1 c2 x = Ok (s', d') ->
  exists sz, a_remove (st_active s) c1 = Ok (st_active s')
    /\ d_steps d' = d_steps d ++ [step_new c1 c2 x sz].
Proof.
  unfold st_merge. intros H. binds H. inversion H; subst.
  match goal with E : d_push _ _ = Ok _ |- _ => unfold d_push in E; binds E; inversion E; subst end.
  eexists. split; [|reflexivity]. cbn [st_with_active st_with_sizes st_active]. first [assumption|reflexivity].
Qed.

(* loop invariant of primitive_with *)
Definition PInv (s : lstate T) (M : cmat T) (L : list nat) : Prop :=
  AInv (st_active s) L /\ wf_mat M /\ length (a_next (st_active s)) = m_obs M.

(* One iteration on a state satisfying the invariant: the pair it merges is a
   live pair a < b, the recorded dissimilarity is their current working
   dissimilarity, NO live pair is strictly closer, and the invariant is
   re-established with `a` removed. *)
Theorem prim_iter_greedy meth s d M i s' d' M' L :
  PInv s M L -> prim_iter K p meth (s, d, M) i = Ok (s', d', M') ->
  exists a b v sz,
    In a L /\ In b L /\ a < b /\ mcell M a b = Some v
    /\ (forall x y w, In x L -> In y L -> x < y -> mcell M x y = Some w -> k_ltb K w v = false)
    /\ d_steps d' = d_steps d ++ [step_new a b v sz]
    /\ PInv s' M' (without a L).
Proof.
  intros (HA & Hwf & HN) H. unfold prim_iter in H.
  destruct (Nat.lt_ge_cases (length L) 2) as [Hlt|Hge].
  - rewrite (argmin_none K p M HA HN Hlt) in H. cbn [bind opt_unwrap] in H. discriminate.
  - destruct (argmin_some K p ltb_trans ltb_irrefl Hwf HA HN Hge)
      as (a & b & v & Harg & Ha & Hb & Hab & Hv & Hmin).
    rewrite Harg in H. cbn [bind opt_unwrap] in H.
    binds H. inversion H; subst. clear H.
    exists a, b, v.
    match goal with E : update3 _ _ _ _ _ _ _ _ _ _ = Ok _ |- _ => pose proof (update3_shape _ _ _ _ _ _ _ _ E) as [S1 S2] end.
    match goal with E : st_merge _ _ _ _ _ = Ok _ |- _ => destruct (st_merge_spec _ _ _ _ _ E) as (sz & Hrem & Hsteps) end.
    exists sz.
    pose proof HA as (_ & Hl & _).
    assert (Hai : a < length (a_next (st_active s))) by (apply (linked_bounds Hl) in Ha; lia).
    destruct (@a_remove_spec _ _ a HA Hai) as (act' & Hrem' & HA' & Hlen').
    rewrite Hrem' in Hrem. inversion Hrem as [Eact].
    split; [exact Ha|]. split; [exact Hb|]. split; [exact Hab|]. split; [exact Hv|].
    split; [exact Hmin|]. split; [exact Hsteps|].
    unfold PInv. rewrite <- Eact. split; [exact HA'|].
    split; [unfold wf_mat in *; rewrite S1, S2; exact Hwf|]. rewrite Hlen', S1. exact HN.
Qed.

(* the invariant holds at the start of the loop of primitive_with ... *)
Lemma prim_init (s : lstate T) (M : cmat T) : wf_mat M ->
  PInv (st_reset K s (m_obs M)) M (seq 0 (m_obs M)).
Proof.
  intros Hwf. unfold PInv. split; [apply a_reset_inv|]. split; [exact Hwf|].
  cbn [st_reset st_active]. rewrite a_reset_canonical. cbn. rewrite map_length, seq_length. reflexivity.
Qed.

(* ... and is preserved through any number of iterations, so EVERY iteration
   of the run is a greedy step in the sense of prim_iter_greedy *)
Theorem prim_fold_inv meth (idx : list nat) : forall s d M L s' d' M',
  PInv s M L -> mfold (prim_iter K p meth) idx (s, d, M) = Ok (s', d', M') ->
  exists L', PInv s' M' L'.
Proof.
  induction idx as [|i idx IH]; intros s d M L s' d' M' HI H; cbn [mfold] in H.
  - inversion H; subst. exists L. exact HI.
  - bind_inv H. destruct a as [[s1 d1] M1].
    destruct (@prim_iter_greedy meth s d M i s1 d1 M1 L HI E) as (a & b & v & sz & _ & _ & _ & _ & _ & _ & HI1).
    exact (IH _ _ _ _ _ _ _ HI1 H).
Qed.

End PrimRun.
