"""Translators: regenerate table-like parts of the model from /repo's source
text on every run (coq/Gen/*.v) and have Coq re-check they coincide with the
hand-written model (`reflexivity`).  They fail closed: anything unrecognised is
an error naming the construct."""
import os
import re

import kv

GEN = os.path.join(kv.COQ, "Gen")


class TranslateError(Exception):
    pass


def strip_c_comments(s):
    s = re.sub(r"/\*.*?\*/", " ", s, flags=re.S)
    return re.sub(r"//[^\n]*", " ", s)


def coq_str(s):
    return '"%s"' % s.replace('"', '""')


def coq_list(items):
    return "[" + "; ".join(items) + "]"


# ------------------------------------------------------------------ ABI (C17)
C_TYPES = {
    "size_t": "usize", "double": "f64", "float": "f32", "void": "unit",
    "kodama_method": "method", "double *": "*mut f64", "float *": "*mut f32",
    "kodama_dendrogram *": "*mut dend", "const kodama_dendrogram *": "*const dend",
    "kodama_step *": "*mut step", "const kodama_step *": "*const step",
}
RUST_TYPES = {
    "size_t": "usize", "c_double": "f64", "c_float": "f32", "()": "unit",
    "kodama_method": "method", "*mut c_double": "*mut f64", "*mut c_float": "*mut f32",
    "*mut kodama_dendrogram": "*mut dend", "*const kodama_dendrogram": "*const dend",
    "*const kodama_step": "*const step", "*mut kodama_step": "*mut step",
}


def norm_c_type(t):
    t = re.sub(r"\s+", " ", t.strip())
    t = re.sub(r"\s*\*\s*", " *", t).strip()
    if t not in C_TYPES:
        raise TranslateError("unrecognised C type %r" % t)
    return C_TYPES[t]


def norm_rust_type(t):
    t = re.sub(r"\s+", " ", t.strip())
    if t not in RUST_TYPES:
        raise TranslateError("unrecognised Rust FFI type %r" % t)
    return RUST_TYPES[t]


def parse_header(path):
    src = strip_c_comments(open(path).read())
    m = re.search(r"typedef\s+enum\s+kodama_method\s*\{(.*?)\}\s*kodama_method\s*;", src, re.S)
    if not m:
        raise TranslateError("%s: enum kodama_method not found" % path)
    enum = [e.strip() for e in m.group(1).split(",") if e.strip()]
    for e in enum:
        if not re.match(r"^kodama_method_\w+$", e):
            raise TranslateError("%s: enumerator %r has an explicit value or unexpected form" % (path, e))
    m = re.search(r"typedef\s+struct\s+kodama_step\s*\{(.*?)\}\s*kodama_step\s*;", src, re.S)
    if not m:
        raise TranslateError("%s: struct kodama_step not found" % path)
    fields = []
    for decl in m.group(1).split(";"):
        decl = decl.strip()
        if not decl:
            continue
        fm = re.match(r"^(.*?)(\w+)$", decl, re.S)
        fields.append((norm_c_type(fm.group(1)), fm.group(2)))
    protos = []
    for pm in re.finditer(r"([\w\s\*]+?)\b(kodama_\w+)\s*\(([^)]*)\)\s*;", src):
        ret, name, args = pm.group(1), pm.group(2), pm.group(3)
        if "typedef" in ret:
            continue
        argt = []
        for a in args.split(","):
            a = a.strip()
            am = re.match(r"^(.*?)(\w+)$", a, re.S)
            argt.append(norm_c_type(am.group(1)))
        protos.append((name, argt, norm_c_type(ret)))
    protos.sort()
    return enum, fields, protos


def parse_rust_capi(path):
    src = re.sub(r"//[^\n]*", "", open(path).read())
    m = re.search(r"#\[repr\(C\)\]\s*(?:#\[[^\]]*\]\s*)*pub enum kodama_method\s*\{(.*?)\}", src, re.S)
    if not m:
        raise TranslateError("repr(C) enum kodama_method not found")
    enum = [e.strip() for e in m.group(1).split(",") if e.strip()]
    for e in enum:
        if not re.match(r"^\w+$", e):
            raise TranslateError("Rust variant %r has a discriminant or unexpected form" % e)
    m = re.search(r"#\[repr\(C\)\]\s*(?:#\[[^\]]*\]\s*)*pub struct kodama_step\s*\{(.*?)\}", src, re.S)
    if not m:
        raise TranslateError("repr(C) struct kodama_step not found")
    fields = []
    for decl in m.group(1).split(","):
        decl = decl.strip()
        if not decl:
            continue
        fm = re.match(r"^pub\s+(\w+)\s*:\s*(.+)$", decl)
        if not fm:
            raise TranslateError("unrecognised field %r" % decl)
        fields.append((norm_rust_type(fm.group(2)), fm.group(1)))
    m = re.search(r"fn into_method\(self\)\s*->\s*Method\s*\{\s*match self\s*\{(.*?)\}\s*\}", src, re.S)
    if not m:
        raise TranslateError("kodama_method::into_method not found")
    into = []
    for arm in m.group(1).split(","):
        arm = arm.strip()
        if not arm:
            continue
        am = re.match(r"^kodama_method::(\w+)\s*=>\s*Method::(\w+)$", arm)
        if not am:
            raise TranslateError("unrecognised into_method arm %r" % arm)
        into.append((am.group(1), am.group(2)))
    protos = []
    for fm in re.finditer(r"ffi_fn!\s*\{\s*fn\s+(\w+)\s*\((.*?)\)\s*(?:->\s*([^\{]+?))?\s*\{", src, re.S):
        name, args, ret = fm.group(1), fm.group(2), fm.group(3)
        argt = []
        for a in args.split(","):
            a = a.strip()
            if not a:
                continue
            am = re.match(r"^\w+\s*:\s*(.+)$", a, re.S)
            argt.append(norm_rust_type(am.group(1)))
        protos.append((name, argt, norm_rust_type(ret) if ret else "unit"))
    protos.sort()
    return enum, fields, into, protos


def parse_go(path):
    src = re.sub(r"//[^\n]*", "", open(path).read())
    m = re.search(r"const\s*\(\s*(\w+)\s+Method\s*=\s*iota(.*?)\)", src, re.S)
    if not m:
        raise TranslateError("Go iota block not found")
    consts = [m.group(1)] + [c.strip() for c in m.group(2).split("\n") if c.strip()]
    for c in consts:
        if not re.match(r"^\w+$", c):
            raise TranslateError("Go constant %r is not a bare iota continuation" % c)
    m = re.search(r"func \(m Method\) enum\(\) C\.kodama_method\s*\{\s*switch m\s*\{(.*?)default:", src, re.S)
    if not m:
        raise TranslateError("Go enum() switch not found")
    switch = re.findall(r"case\s+(\w+)\s*:\s*return\s+C\.(\w+)", m.group(1))
    if len(switch) != len(re.findall(r"\bcase\b", m.group(1))):
        raise TranslateError("unrecognised case in Go enum() switch")
    m = re.search(r"steps\[i\]\s*=\s*Step\s*\{(.*?)\}", src, re.S)
    if not m:
        raise TranslateError("Go Step conversion not found")
    conv = re.findall(r"(\w+)\s*:\s*\w+\(s\.(\w+)\)", m.group(1))
    lens = set(re.sub(r"\s+", "", e) for e in re.findall(r"expectedLen\s*:=\s*([^\n]+)", src))
    if len(lens) != 1:
        raise TranslateError("Go expectedLen formulas differ or are missing: %r" % lens)
    return consts, switch, conv, lens.pop()


def pair_list(ps):
    return coq_list("(%s, %s)" % (coq_str(a), coq_str(b)) for a, b in ps)


def proto_list(ps):
    return coq_list("(%s, %s, %s)" % (coq_str(n), coq_list(coq_str(a) for a in args), coq_str(r)) for n, args, r in ps)


def gen_abi():
    h_enum, h_fields, h_protos = parse_header(os.path.join(kv.REPO, "kodama-capi/include/kodama.h"))
    g_enum, g_fields, g_protos = parse_header(os.path.join(kv.REPO, "go-kodama/kodama.h"))
    r_enum, r_fields, r_into, r_protos = parse_rust_capi(os.path.join(kv.REPO, "kodama-capi/src/lib.rs"))
    go_consts, go_switch, go_conv, go_len = parse_go(os.path.join(kv.REPO, "go-kodama/kodama.go"))
    body = """(* GENERATED by tools/translators.py from /repo - do not edit *)
Require Import KV.Model.Abi.
From Coq Require Import List String.
Import ListNotations.
Open Scope string_scope.

Definition gen_abi : abi := {|
  hdr_enum := %s;
  gohdr_enum := %s;
  rust_enum := %s;
  rust_into := %s;
  go_consts := %s;
  go_switch := %s;
  hdr_fields := %s;
  gohdr_fields := %s;
  rust_fields := %s;
  go_conv := %s;
  hdr_protos := %s;
  gohdr_protos := %s;
  rust_protos := %s;
  go_len := %s
|}.

Lemma abi_agree : gen_abi = model_abi.
Proof. vm_compute. reflexivity. Qed.
""" % (coq_list(map(coq_str, h_enum)), coq_list(map(coq_str, g_enum)), coq_list(map(coq_str, r_enum)),
       pair_list(r_into), coq_list(map(coq_str, go_consts)), pair_list(go_switch),
       pair_list(h_fields), pair_list(g_fields), pair_list(r_fields), pair_list(go_conv),
       proto_list(h_protos), proto_list(g_protos), proto_list(r_protos), coq_str(go_len))
    summary = "7 enumerators x (2 headers, Rust, Go), %d step fields, %d prototypes per layer" % (len(h_fields), len(h_protos))
    return "AbiFacts", body, summary


# ------------------------------------------------------------------ expression parser
TOKEN = re.compile(r"\s*(?:(\d+\.\d+|\d+)|([A-Za-z_][\w]*(?:::[A-Za-z_]\w*)*(?:\.[A-Za-z_]\w*)*)|(.))")


def tokenize(src):
    out, pos = [], 0
    src = src.strip()
    while pos < len(src):
        m = TOKEN.match(src, pos)
        if not m:
            raise TranslateError("cannot tokenise %r" % src[pos:pos + 20])
        pos = m.end()
        if m.group(1):
            out.append(("num", m.group(1)))
        elif m.group(2):
            out.append(("id", m.group(2)))
        elif m.group(3).strip():
            out.append(("op", m.group(3)))
    return out


class Parser:
    """expr := term (('+'|'-') term)* ; term := unary (('*'|'/') unary)* ;
       unary := '*' unary | atom ; atom := '(' expr ')' | id ['(' args ')'] | num"""

    def __init__(self, toks):
        self.t, self.i = toks, 0

    def peek(self):
        return self.t[self.i] if self.i < len(self.t) else ("eof", "")

    def eat(self, kind=None, val=None):
        k, v = self.peek()
        if (kind and k != kind) or (val is not None and v != val):
            raise TranslateError("expected %s %s, found %s %r" % (kind, val, k, v))
        self.i += 1
        return v

    def expr(self):
        e = self.term()
        while self.peek() in (("op", "+"), ("op", "-")):
            op = self.eat()
            e = ("add" if op == "+" else "sub", e, self.term())
        return e

    def term(self):
        e = self.unary()
        while self.peek() in (("op", "*"), ("op", "/")):
            op = self.eat()
            e = ("mul" if op == "*" else "div", e, self.unary())
        return e

    def unary(self):
        if self.peek() == ("op", "*"):
            self.eat()
            return ("deref", self.unary())
        return self.atom()

    def atom(self):
        k, v = self.peek()
        if (k, v) == ("op", "("):
            self.eat()
            e = self.expr()
            self.eat("op", ")")
            return e
        if k == "num":
            self.eat()
            return ("num", v)
        if k == "id":
            self.eat()
            if self.peek() == ("op", "("):
                self.eat()
                args = []
                if self.peek() != ("op", ")"):
                    args.append(self.expr())
                    while self.peek() == ("op", ","):
                        self.eat()
                        args.append(self.expr())
                self.eat("op", ")")
                return ("call", v, args)
            return ("var", v)
        raise TranslateError("unexpected token %s %r in expression" % (k, v))


def parse_expr(src):
    p = Parser(tokenize(src))
    e = p.expr()
    if p.peek()[0] != "eof":
        raise TranslateError("trailing tokens in expression %r" % src)
    return e


# ------------------------------------------------------------------ formulas (C02, C07, C09)
def fexp_of(e, env):
    k = e[0]
    if k in ("add", "sub", "mul", "div"):
        return "(%s %s %s)" % ({"add": "Add", "sub": "Sub", "mul": "Mul", "div": "Div"}[k], fexp_of(e[1], env), fexp_of(e[2], env))
    if k == "deref":
        if e[1] == ("var", "b"):
            return "Vb"
        raise TranslateError("unexpected dereference %r" % (e,))
    if k == "var":
        if e[1] in env:
            return env[e[1]]
        raise TranslateError("unknown variable %r in method.rs" % e[1])
    if k == "call":
        if e[1] == "T::from_usize" and len(e[2]) == 1 and e[2][0][0] == "var":
            base = {"size_a": "Sa", "size_b": "Sb", "size_x": "Sx"}.get(e[2][0][1])
            if base:
                return base
        if e[1] == "T::from_float" and len(e[2]) == 1 and e[2][0][0] == "num":
            c = {"0.5": "Half", "0.25": "Quarter"}.get(e[2][0][1])
            if c:
                return c
        raise TranslateError("unrecognised call %r in method.rs (a new constant or conversion?)" % (e,))
    raise TranslateError("numeric literal %r in a formula (a built-in scale or threshold?)" % (e,))


def parse_method_fn(name, body):
    env = {"a": "Va", "merged_dist": "Vmd"}
    result = None
    stmts = [s.strip() for s in re.split(r";(?![^{]*\})", body) if s.strip()]
    for st in stmts:
        m = re.match(r"^let\s+(\w+)\s*=\s*(.+)$", st, re.S)
        if m:
            env[m.group(1)] = fexp_of(parse_expr(m.group(2)), env)
            continue
        m = re.match(r"^if\s+(.+?)\s*([<>])\s*(.+?)\s*\{\s*\*b\s*=\s*(.+?)\s*;?\s*\}$", st, re.S)
        if m:
            l, op, r, v = fexp_of(parse_expr(m.group(1)), env), m.group(2), fexp_of(parse_expr(m.group(3)), env), fexp_of(parse_expr(m.group(4)), env)
            if op == ">":
                l, r = r, l
            if result is not None:
                raise TranslateError("%s: more than one assignment to *b" % name)
            result = "(IfLt %s %s %s Vb)" % (l, r, v)
            continue
        m = re.match(r"^\*b\s*=\s*(.+)$", st, re.S)
        if m:
            if result is not None:
                raise TranslateError("%s: more than one assignment to *b" % name)
            result = fexp_of(parse_expr(m.group(1)), env)
            continue
        raise TranslateError("%s: unrecognised statement %r" % (name, st[:80]))
    if result is None:
        raise TranslateError("%s: no assignment to *b" % name)
    return result


def iexp_of(e):
    k = e[0]
    if k in ("add", "sub", "mul", "div"):
        return "(%s %s %s)" % ({"add": "IAdd", "sub": "ISub", "mul": "IMul", "div": "IDiv"}[k], iexp_of(e[1]), iexp_of(e[2]))
    if k == "num" and re.match(r"^\d+$", e[1]):
        return "(IK %s)" % e[1]
    if k == "var" and e[1] in ("row", "column"):
        return {"row": "IR", "column": "IC"}[e[1]]
    if k == "call" and e[1] == "self.observations" and not e[2]:
        return "IN"
    raise TranslateError("unrecognised term %r in the condensed index expression" % (e,))


def gen_formulas():
    src = re.sub(r"//[^\n]*", "", open(os.path.join(kv.REPO, "src/method.rs")).read())
    fns = {}
    for m in re.finditer(r"pub fn (\w+)<T: Float>\s*\((.*?)\)\s*\{(.*?)\n\}", src, re.S):
        fns[m.group(1)] = (re.sub(r"\s+", " ", m.group(2)), m.group(3))
    want = ["single", "complete", "average", "weighted", "ward", "centroid", "median"]
    if sorted(fns) != sorted(want):
        raise TranslateError("method.rs defines %s, expected exactly %s" % (sorted(fns), sorted(want)))
    sigs = {
        "single": "a: T, b: &mut T", "complete": "a: T, b: &mut T",
        "average": "a: T, b: &mut T, size_a: usize, size_b: usize", "weighted": "a: T, b: &mut T",
        "ward": "a: T, b: &mut T, merged_dist: T, size_a: usize, size_b: usize, size_x: usize,",
        "centroid": "a: T, b: &mut T, merged_dist: T, size_a: usize, size_b: usize,",
        "median": "a: T, b: &mut T, merged_dist: T",
    }
    lines = []
    for w in want:
        params, body = fns[w]
        if params.strip().rstrip(",") != sigs[w].rstrip(","):
            raise TranslateError("signature of method::%s changed: %r" % (w, params))
        lines.append("  | %s => %s" % (w.capitalize(), parse_method_fn(w, body)))
    csrc = re.sub(r"//[^\n]*", "", open(os.path.join(kv.REPO, "src/condensed.rs")).read())
    m = re.search(r"fn matrix_to_condensed_idx\(&self, row: usize, column: usize\) -> usize \{(.*?)\n    \}", csrc, re.S)
    if not m:
        raise TranslateError("matrix_to_condensed_idx not found")
    body = re.sub(r"#\[cfg\(kodama_verif\)\]\s*VERIF_ACCESS_COUNT[^;]*;", "", m.group(1))
    stmts = [s.strip() for s in body.split(";") if s.strip()]
    asserts = [s for s in stmts if s.startswith("debug_assert!")]
    exprs = [s for s in stmts if not s.startswith("debug_assert!")]
    if [re.sub(r"\s+", "", a) for a in asserts] != ["debug_assert!(row<column)", "debug_assert!(column<self.observations())"]:
        raise TranslateError("debug assertions of matrix_to_condensed_idx changed: %r" % asserts)
    if len(exprs) != 1:
        raise TranslateError("matrix_to_condensed_idx has unexpected statements: %r" % exprs)
    idx = iexp_of(parse_expr(exprs[0]))
    body = """(* GENERATED by tools/translators.py from /repo/src/method.rs and condensed.rs *)
Require Import KV.Model.Prelude KV.Model.Methods KV.Model.Condensed.

Definition gen_formula (m : method) : fexp :=
  match m with
%s
  end.

Lemma formulas_agree : forall m, gen_formula m = formula m.
Proof. intros []; reflexivity. Qed.

Definition gen_cidx_exp : iexp := %s.

Lemma cidx_agree : gen_cidx_exp = cidx_exp.
Proof. reflexivity. Qed.
""" % ("\n".join(lines), idx)
    return "Formulas", body, "7 update formulas of method.rs and the index expression of condensed.rs"


# ------------------------------------------------------------------ tables of lib.rs
VARIANTS = ["Single", "Complete", "Average", "Weighted", "Ward", "Centroid", "Median"]


def match_arms(body):
    arms = []
    for arm in re.split(r",\s*(?![^()]*\))", body):
        arm = arm.strip()
        if not arm:
            continue
        m = re.match(r"^(.+?)\s*=>\s*(.+)$", arm, re.S)
        if not m:
            raise TranslateError("unrecognised match arm %r" % arm)
        pats = [p.strip() for p in m.group(1).split("|")]
        arms.append((pats, m.group(2).strip()))
    return arms


def eval_match(arms, prefix, variant):
    for pats, val in arms:
        for p in pats:
            if p == "_" or p == prefix + variant:
                return val
    raise TranslateError("no arm for %s%s" % (prefix, variant))


def gen_tables():
    src = re.sub(r"//[^\n]*", "", open(os.path.join(kv.REPO, "src/lib.rs")).read())

    def fn_match(sig_re, what):
        m = re.search(sig_re + r"\s*\{\s*match\s+\*?self\s*\{(.*?)\}\s*\}", src, re.S)
        if not m:
            raise TranslateError("%s not found in src/lib.rs" % what)
        return match_arms(m.group(1))

    rs = fn_match(r"fn requires_sorting\(&self\)\s*->\s*bool", "requires_sorting")
    osq = fn_match(r"fn on_squares\(&self\)\s*->\s*bool", "on_squares")
    imc = fn_match(r"pub fn into_method_chain\(self\)\s*->\s*Option<MethodChain>", "into_method_chain")
    t_rs = [eval_match(rs, "Method::", v) for v in VARIANTS]
    t_os = [eval_match(osq, "Method::", v) for v in VARIANTS]
    t_mc = []
    for v in VARIANTS:
        val = eval_match(imc, "Method::", v)
        if val == "None":
            t_mc.append("None")
        else:
            m = re.match(r"^Some\(MethodChain::(\w+)\)$", val)
            if not m or m.group(1) not in VARIANTS:
                raise TranslateError("into_method_chain: unrecognised value %r" % val)
            t_mc.append("(Some %s)" % m.group(1))
    for t in t_rs + t_os:
        if t not in ("true", "false"):
            raise TranslateError("non-boolean table value %r" % t)
    # MethodChain::into_method
    m = re.search(r"pub fn into_method\(self\)\s*->\s*Method\s*\{\s*match self\s*\{(.*?)\}\s*\}", src, re.S)
    if not m:
        raise TranslateError("MethodChain::into_method not found")
    im = []
    for pats, val in match_arms(m.group(1)):
        mm = re.match(r"^Method::(\w+)$", val)
        if len(pats) != 1 or not pats[0].startswith("MethodChain::") or not mm:
            raise TranslateError("into_method: unrecognised arm %r => %r" % (pats, val))
        im.append("(%s, %s)" % (pats[0][len("MethodChain::"):], mm.group(1)))

    def from_str(ty):
        m = re.search(r"impl FromStr for %s\s*\{.*?match s\s*\{(.*?)\}\s*\}\s*\}" % ty, src, re.S)
        if not m:
            raise TranslateError("FromStr for %s not found" % ty)
        out = []
        for pats, val in match_arms(m.group(1)):
            if pats == ["_"]:
                if not val.startswith("Err("):
                    raise TranslateError("FromStr for %s: wildcard arm does not reject" % ty)
                continue
            mm = re.match(r"^Ok\(%s::(\w+)\)$" % ty, val)
            if len(pats) != 1 or not re.match(r'^"[^"]*"$', pats[0]) or not mm:
                raise TranslateError("FromStr for %s: unrecognised arm %r => %r" % (ty, pats, val))
            out.append("(%s, %s)" % (coq_str(pats[0][1:-1]), mm.group(1)))
        return out

    fs_m = from_str("Method")
    fs_c = from_str("MethodChain")
    # dispatch of linkage_with
    m = re.search(r"pub fn linkage_with<T: Float>\(.*?\)\s*\{(.*?)\n\}", src, re.S)
    if not m:
        raise TranslateError("linkage_with not found")
    disp = re.sub(r"\s+", "", m.group(1))
    want = ("letmatrix=condensed_dissimilarity_matrix;ifletMethod::Single=method{mst_with(state,matrix,observations,steps);}"
            "elseifletSome(method)=method.into_method_chain(){nnchain_with(state,matrix,observations,method,steps);}"
            "else{generic_with(state,matrix,observations,method,steps);}")
    if disp != want:
        raise TranslateError("the dispatch in linkage_with changed: %r" % disp[:300])
    body = """(* GENERATED by tools/translators.py from /repo/src/lib.rs *)
Require Import KV.Model.Prelude KV.Model.Methods KV.Model.Cli.
From Coq Require Import String.
Local Open Scope string_scope.

Definition all_methods := [Single; Complete; Average; Weighted; Ward; Centroid; Median].
Definition gen_requires_sorting : list bool := %s.
Definition gen_on_squares : list bool := %s.
Definition gen_into_method_chain : list (option method) := %s.
Definition gen_into_method : list (method * method) := %s.
Definition gen_from_str_method : list (string * method) := %s.
Definition gen_from_str_chain : list (string * method) := %s.

Lemma tables_agree :
  gen_requires_sorting = map requires_sorting all_methods
  /\ gen_on_squares = map on_squares all_methods
  /\ gen_into_method_chain = map (fun m => if chain_capable m then Some m else None) all_methods
  /\ gen_into_method = map (fun m => (m, m)) (filter chain_capable all_methods)
  /\ gen_from_str_method = method_names
  /\ gen_from_str_chain = chain_names.
Proof. repeat split; reflexivity. Qed.
""" % (coq_list(t_rs), coq_list(t_os), coq_list(t_mc), coq_list(im), coq_list(fs_m), coq_list(fs_c))
    return "Tables", body, "requires_sorting, on_squares, into_method_chain, into_method, FromStr x2, linkage_with dispatch"


GENERATORS = {"abi": gen_abi, "formulas": gen_formulas, "tables": gen_tables}


def run(name):
    """Generate coq/Gen/<File>.v and compile it (its closing lemma is the agreement)."""
    os.makedirs(GEN, exist_ok=True)
    with kv.Lock("gen_" + name):
        try:
            fname, body, summary = GENERATORS[name]()
        except TranslateError as e:
            return {"ok": False, "detail": "translator %s: %s" % (name, e), "summary": ""}
        except Exception as e:  # fail closed
            return {"ok": False, "detail": "translator %s crashed: %r" % (name, e), "summary": ""}
        path = os.path.join(GEN, fname + ".v")
        open(path, "w").write(body)
        rc, out = kv.sh("timeout 600 coqc -Q . KV Gen/%s.v" % fname, cwd=kv.COQ, timeout=700)
        if rc != 0:
            return {"ok": False, "detail": "Gen/%s.v no longer checks against the model:\n%s" % (fname, out[-2000:]), "summary": summary}
        return {"ok": True, "detail": "", "summary": summary}
