"""Translators: regenerate table-like parts of the model from /repo's source
text on every run (coq/Gen/*.v) and have Coq re-check they coincide with the
hand-written model (`reflexivity`).  They fail closed: anything unrecognised is
an error naming the construct."""
import os
import re

import kv

GEN = os.path.join(kv.COQ, "Gen")


class TranslateError(Exception):
    pass


def strip_c_comments(s):
    s = re.sub(r"/\*.*?\*/", " ", s, flags=re.S)
    return re.sub(r"//[^\n]*", " ", s)


def coq_str(s):
    return '"%s"' % s.replace('"', '""')


def coq_list(items):
    return "[" + "; ".join(items) + "]"


# ------------------------------------------------------------------ ABI (C17)
C_TYPES = {
    "size_t": "usize", "double": "f64", "float": "f32", "void": "unit",
    "kodama_method": "method", "double *": "*mut f64", "float *": "*mut f32",
    "kodama_dendrogram *": "*mut dend", "const kodama_dendrogram *": "*const dend",
    "kodama_step *": "*mut step", "const kodama_step *": "*const step",
}
RUST_TYPES = {
    "size_t": "usize", "c_double": "f64", "c_float": "f32", "()": "unit",
    "kodama_method": "method", "*mut c_double": "*mut f64", "*mut c_float": "*mut f32",
    "*mut kodama_dendrogram": "*mut dend", "*const kodama_dendrogram": "*const dend",
    "*const kodama_step": "*const step", "*mut kodama_step": "*mut step",
}


def norm_c_type(t):
    t = re.sub(r"\s+", " ", t.strip())
    t = re.sub(r"\s*\*\s*", " *", t).strip()
    if t not in C_TYPES:
        raise TranslateError("unrecognised C type %r" % t)
    return C_TYPES[t]


def norm_rust_type(t):
    t = re.sub(r"\s+", " ", t.strip())
    if t not in RUST_TYPES:
        raise TranslateError("unrecognised Rust FFI type %r" % t)
    return RUST_TYPES[t]


def parse_header(path):
    src = strip_c_comments(open(path).read())
    m = re.search(r"typedef\s+enum\s+kodama_method\s*\{(.*?)\}\s*kodama_method\s*;", src, re.S)
    if not m:
        raise TranslateError("%s: enum kodama_method not found" % path)
    enum = [e.strip() for e in m.group(1).split(",") if e.strip()]
    for e in enum:
        if not re.match(r"^kodama_method_\w+$", e):
            raise TranslateError("%s: enumerator %r has an explicit value or unexpected form" % (path, e))
    m = re.search(r"typedef\s+struct\s+kodama_step\s*\{(.*?)\}\s*kodama_step\s*;", src, re.S)
    if not m:
        raise TranslateError("%s: struct kodama_step not found" % path)
    fields = []
    for decl in m.group(1).split(";"):
        decl = decl.strip()
        if not decl:
            continue
        fm = re.match(r"^(.*?)(\w+)$", decl, re.S)
        fields.append((norm_c_type(fm.group(1)), fm.group(2)))
    protos = []
    for pm in re.finditer(r"([\w\s\*]+?)\b(kodama_\w+)\s*\(([^)]*)\)\s*;", src):
        ret, name, args = pm.group(1), pm.group(2), pm.group(3)
        if "typedef" in ret:
            continue
        argt = []
        for a in args.split(","):
            a = a.strip()
            am = re.match(r"^(.*?)(\w+)$", a, re.S)
            argt.append(norm_c_type(am.group(1)))
        protos.append((name, argt, norm_c_type(ret)))
    protos.sort()
    return enum, fields, protos


def parse_rust_capi(path):
    src = re.sub(r"//[^\n]*", "", open(path).read())
    m = re.search(r"#\[repr\(C\)\]\s*(?:#\[[^\]]*\]\s*)*pub enum kodama_method\s*\{(.*?)\}", src, re.S)
    if not m:
        raise TranslateError("repr(C) enum kodama_method not found")
    enum = [e.strip() for e in m.group(1).split(",") if e.strip()]
    for e in enum:
        if not re.match(r"^\w+$", e):
            raise TranslateError("Rust variant %r has a discriminant or unexpected form" % e)
    m = re.search(r"#\[repr\(C\)\]\s*(?:#\[[^\]]*\]\s*)*pub struct kodama_step\s*\{(.*?)\}", src, re.S)
    if not m:
        raise TranslateError("repr(C) struct kodama_step not found")
    fields = []
    for decl in m.group(1).split(","):
        decl = decl.strip()
        if not decl:
            continue
        fm = re.match(r"^pub\s+(\w+)\s*:\s*(.+)$", decl)
        if not fm:
            raise TranslateError("unrecognised field %r" % decl)
        fields.append((norm_rust_type(fm.group(2)), fm.group(1)))
    m = re.search(r"fn into_method\(self\)\s*->\s*Method\s*\{\s*match self\s*\{(.*?)\}\s*\}", src, re.S)
    if not m:
        raise TranslateError("kodama_method::into_method not found")
    into = []
    for arm in m.group(1).split(","):
        arm = arm.strip()
        if not arm:
            continue
        am = re.match(r"^kodama_method::(\w+)\s*=>\s*Method::(\w+)$", arm)
        if not am:
            raise TranslateError("unrecognised into_method arm %r" % arm)
        into.append((am.group(1), am.group(2)))
    protos = []
    for fm in re.finditer(r"ffi_fn!\s*\{\s*fn\s+(\w+)\s*\((.*?)\)\s*(?:->\s*([^\{]+?))?\s*\{", src, re.S):
        name, args, ret = fm.group(1), fm.group(2), fm.group(3)
        argt = []
        for a in args.split(","):
            a = a.strip()
            if not a:
                continue
            am = re.match(r"^\w+\s*:\s*(.+)$", a, re.S)
            argt.append(norm_rust_type(am.group(1)))
        protos.append((name, argt, norm_rust_type(ret) if ret else "unit"))
    protos.sort()
    return enum, fields, into, protos


def parse_go(path):
    src = re.sub(r"//[^\n]*", "", open(path).read())
    m = re.search(r"const\s*\(\s*(\w+)\s+Method\s*=\s*iota(.*?)\)", src, re.S)
    if not m:
        raise TranslateError("Go iota block not found")
    consts = [m.group(1)] + [c.strip() for c in m.group(2).split("\n") if c.strip()]
    for c in consts:
        if not re.match(r"^\w+$", c):
            raise TranslateError("Go constant %r is not a bare iota continuation" % c)
    m = re.search(r"func \(m Method\) enum\(\) C\.kodama_method\s*\{\s*switch m\s*\{(.*?)default:", src, re.S)
    if not m:
        raise TranslateError("Go enum() switch not found")
    switch = re.findall(r"case\s+(\w+)\s*:\s*return\s+C\.(\w+)", m.group(1))
    if len(switch) != len(re.findall(r"\bcase\b", m.group(1))):
        raise TranslateError("unrecognised case in Go enum() switch")
    m = re.search(r"steps\[i\]\s*=\s*Step\s*\{(.*?)\}", src, re.S)
    if not m:
        raise TranslateError("Go Step conversion not found")
    conv = re.findall(r"(\w+)\s*:\s*\w+\(s\.(\w+)\)", m.group(1))
    lens = set(re.sub(r"\s+", "", e) for e in re.findall(r"expectedLen\s*:=\s*([^\n]+)", src))
    if len(lens) != 1:
        raise TranslateError("Go expectedLen formulas differ or are missing: %r" % lens)
    return consts, switch, conv, lens.pop()


def pair_list(ps):
    return coq_list("(%s, %s)" % (coq_str(a), coq_str(b)) for a, b in ps)


def proto_list(ps):
    return coq_list("(%s, %s, %s)" % (coq_str(n), coq_list(coq_str(a) for a in args), coq_str(r)) for n, args, r in ps)


def gen_abi():
    h_enum, h_fields, h_protos = parse_header(os.path.join(kv.REPO, "kodama-capi/include/kodama.h"))
    g_enum, g_fields, g_protos = parse_header(os.path.join(kv.REPO, "go-kodama/kodama.h"))
    r_enum, r_fields, r_into, r_protos = parse_rust_capi(os.path.join(kv.REPO, "kodama-capi/src/lib.rs"))
    go_consts, go_switch, go_conv, go_len = parse_go(os.path.join(kv.REPO, "go-kodama/kodama.go"))
    body = """(* GENERATED by tools/translators.py from /repo - do not edit *)
Require Import KV.Model.Abi.
From Coq Require Import List String.
Import ListNotations.
Open Scope string_scope.

Definition gen_abi : abi := {|
  hdr_enum := %s;
  gohdr_enum := %s;
  rust_enum := %s;
  rust_into := %s;
  go_consts := %s;
  go_switch := %s;
  hdr_fields := %s;
  gohdr_fields := %s;
  rust_fields := %s;
  go_conv := %s;
  hdr_protos := %s;
  gohdr_protos := %s;
  rust_protos := %s;
  go_len := %s
|}.

Lemma abi_agree : gen_abi = model_abi.
Proof. vm_compute. reflexivity. Qed.
""" % (coq_list(map(coq_str, h_enum)), coq_list(map(coq_str, g_enum)), coq_list(map(coq_str, r_enum)),
       pair_list(r_into), coq_list(map(coq_str, go_consts)), pair_list(go_switch),
       pair_list(h_fields), pair_list(g_fields), pair_list(r_fields), pair_list(go_conv),
       proto_list(h_protos), proto_list(g_protos), proto_list(r_protos), coq_str(go_len))
    summary = "7 enumerators x (2 headers, Rust, Go), %d step fields, %d prototypes per layer" % (len(h_fields), len(h_protos))
    return "AbiFacts", body, summary


GENERATORS = {"abi": gen_abi}


def run(name):
    """Generate coq/Gen/<File>.v and compile it (its closing lemma is the agreement)."""
    os.makedirs(GEN, exist_ok=True)
    with kv.Lock("gen_" + name):
        try:
            fname, body, summary = GENERATORS[name]()
        except TranslateError as e:
            return {"ok": False, "detail": "translator %s: %s" % (name, e), "summary": ""}
        except Exception as e:  # fail closed
            return {"ok": False, "detail": "translator %s crashed: %r" % (name, e), "summary": ""}
        path = os.path.join(GEN, fname + ".v")
        open(path, "w").write(body)
        rc, out = kv.sh("timeout 600 coqc -Q . KV Gen/%s.v" % fname, cwd=kv.COQ, timeout=700)
        if rc != 0:
            return {"ok": False, "detail": "Gen/%s.v no longer checks against the model:\n%s" % (fname, out[-2000:]), "summary": summary}
        return {"ok": True, "detail": "", "summary": summary}
