#!/bin/bash
# run every claimed check on the current tree (tier from $1, default quick)
tier=${1:-quick}
cd /verif
fail=0
for id in $(python3 -c "import json; print(' '.join(c['property_id'] for c in json.load(open('MANIFEST.json'))['checks']))"); do
  out=$(python3 tools/check.py $id --tier $tier 2>&1)
  echo "$out" | grep -E "^(VIOLATION|KNOWN-FINDING|C[0-9]+ (OK|FAILED))"
  echo "$out" | grep -q "^VIOLATION" && fail=1
done
exit $fail
