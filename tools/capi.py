"""C API side: build libkodama.a from /repo in both profiles, build the C driver
(plain and AddressSanitizer/LeakSanitizer), replay the capi stream's script and
compare with the expected outputs (which come from the Rust `linkage`)."""
import os
import re
import time

import kv

CDRV = os.path.join(kv.VERIF, "cdriver")
HDR_CAPI = os.path.join(kv.REPO, "kodama-capi", "include")
HDR_GO = os.path.join(kv.REPO, "go-kodama")


def build_lib(profile):
    with kv.Lock("capi_" + profile):
        tgt = os.path.join(kv.BUILD, "capi-target")
        env = dict(kv.ENV, RUSTFLAGS="--cfg kodama_verif", CARGO_TARGET_DIR=tgt)
        flag = "--release" if profile == "release" else ""
        rc, out = kv.sh("timeout 900 cargo build -p kodama-capi --offline %s 2>&1" % flag, cwd=kv.REPO, env=env, timeout=1000)
        lib = os.path.join(tgt, "release" if profile == "release" else "debug", "libkodama.a")
        return rc == 0 and os.path.exists(lib), out, lib


def build_driver(name, hdr, lib, asan):
    os.makedirs(os.path.join(kv.BUILD, "cdriver"), exist_ok=True)
    exe = os.path.join(kv.BUILD, "cdriver", name)
    cc = "clang -fsanitize=address -fno-omit-frame-pointer -g" if asan else "gcc -O1 -g"
    cmd = "%s -Wall -I %s %s/driver.c %s -lpthread -ldl -lm -o %s" % (cc, hdr, CDRV, lib, exe)
    rc, out = kv.sh(cmd, cwd=CDRV, timeout=600)
    return rc == 0, out, exe


def run_driver(exe, script, threads=1, asan=False):
    env = dict(kv.ENV)
    if asan:
        env["ASAN_OPTIONS"] = "detect_leaks=1:abort_on_error=0:exitcode=23"
    rc, out = kv.sh("timeout 1200 %s -t %d %s" % (exe, threads, script), cwd=kv.BUILD, env=env, timeout=1300)
    return rc, out


def expected_of(stream_dir):
    exp = {}
    for f in os.listdir(stream_dir):
        if f.startswith("capi_debug_") and f.endswith(".exp"):
            for line in open(os.path.join(stream_dir, f)):
                p = line.split()
                if p:
                    exp[p[0]] = [int(x) for x in p[1:]]
    return exp


def compare(out, exp):
    """driver output lines `<id> tokens...` against expected."""
    got = {}
    for line in out.splitlines():
        p = line.split()
        if p and re.match(r"^c\d+$", p[0]):
            try:
                got[p[0]] = [int(x) for x in p[1:]]
            except ValueError:
                pass
    bad = []
    for cid, e in exp.items():
        g = got.get(cid)
        if g != e:
            bad.append({"id": cid, "expected": e[:60], "c_api": (g or [])[:60]})
    return bad, len(got)


def run_all(seed, tier, configs):
    """configs: list of dicts(profile, header('capi'|'go'), asan(bool), threads).
    Returns {ok, runs:[...], problems:[...], evaluations}"""
    res = {"ok": True, "runs": [], "problems": [], "evaluations": 0}
    # make sure the capi stream exists (also evaluates the model side)
    r = kv.run_stream("capi", ["debug"], seed, tier)
    if r.get("build_error"):
        res["ok"] = False
        res["problems"].append({"kind": "build", "detail": r["build_error"]})
        return res
    sdir = kv.stream_dir("capi", seed, tier, ["debug"])
    script = os.path.join(sdir, "capi_script.txt")
    exp = expected_of(sdir)
    libs = {}
    for cfg in configs:
        prof = cfg["profile"]
        if prof not in libs:
            ok, out, lib = build_lib(prof)
            libs[prof] = (ok, out, lib)
        ok, out, lib = libs[prof]
        if not ok:
            res["ok"] = False
            res["problems"].append({"kind": "build", "detail": "libkodama.a (%s): %s" % (prof, out[-2000:])})
            continue
        hdr = HDR_GO if cfg["header"] == "go" else HDR_CAPI
        name = "driver_%s_%s_%s" % (prof, cfg["header"], "asan" if cfg["asan"] else "plain")
        ok, out, exe = build_driver(name, hdr, lib, cfg["asan"])
        if not ok:
            res["ok"] = False
            res["problems"].append({"kind": "build", "detail": "C driver %s: %s" % (name, out[-2000:])})
            continue
        t0 = time.time()
        rc, out = run_driver(exe, script, cfg["threads"], cfg["asan"])
        bad, n = compare(out, exp)
        run = dict(cfg, rc=rc, histories=n, mismatches=len(bad), wall_s=round(time.time() - t0, 2))
        res["runs"].append(run)
        res["evaluations"] += n * cfg["threads"]
        if rc != 0:
            res["ok"] = False
            tail = "\n".join(l for l in out.splitlines() if not re.match(r"^c\d+ ", l))[-2500:]
            res["problems"].append({"kind": "crash", "config": cfg, "detail": "driver exit %d: %s" % (rc, tail)})
        if bad:
            res["ok"] = False
            res["problems"].append({"kind": "mismatch", "config": cfg, "first": bad[0], "count": len(bad)})
        if cfg["threads"] == 1 or cfg["asan"]:
            # thousands of observations (size-dependent dispatch inside the C API), every enumerator by
            # name, double and float: digest of the C result vs digest of the Rust `linkage` result
            okh, logh, kvh = kv.harness_build("release")
            if not okh:
                res["ok"] = False
                res["problems"].append({"kind": "build", "detail": "harness: " + logh[-800:]})
            else:
                # dev-profile libraries and thorough-only detail: the largest sizes go to release builds
                maxn = 13000 if prof == "release" else 2400
                nexp = 50 if maxn > 12288 else 42
                rc1, exp_big = kv.sh("timeout 900 %s capibig --seed %d --maxn %d" % (kvh, seed, maxn), cwd=kv.BUILD, timeout=1000)
                envb = dict(kv.ENV)
                if cfg["asan"]:
                    envb["ASAN_OPTIONS"] = "detect_leaks=1:abort_on_error=0:exitcode=23"
                rc2, got_big = kv.sh("timeout 1500 %s --big %d %d" % (exe, seed, maxn), cwd=kv.BUILD, env=envb, timeout=1600)
                e = [l for l in exp_big.splitlines() if l.startswith("BIG ")]
                g = [l for l in got_big.splitlines() if l.startswith("BIG ")]
                res["evaluations"] += len(g)
                res["runs"].append(dict(cfg, big=len(g), rc=rc2))
                if rc1 != 0 or rc2 != 0 or len(e) != nexp or len(g) != nexp:
                    res["ok"] = False
                    res["problems"].append({"kind": "crash", "config": dict(cfg, big=True), "detail": "big mode: kvh rc %d (%d lines), driver rc %d (%d lines): %s" % (rc1, len(e), rc2, len(g), got_big[-600:])})
                else:
                    diff = [(a, b) for a, b in zip(e, g) if a != b]
                    if diff:
                        res["ok"] = False
                        a, b = diff[0]
                        res["problems"].append({"kind": "crash", "config": dict(cfg, big=True),
                                                "detail": "C API result differs from Rust linkage on a matrix of thousands of observations (%d of %d calls): Rust `%s` vs C API `%s`; replay: %s --big %d and %s capibig --seed %d" % (len(diff), nexp, a, b, exe, seed, kvh, seed)})
        if cfg["header"] == "capi" and (cfg["threads"] > 1 or not cfg["asan"]):
            # one handle read for the first time by several threads at once, then freed once
            t = max(cfg["threads"], 8)
            rounds = 400 if tier == "thorough" else 120
            env = dict(kv.ENV)
            if cfg["asan"]:
                env["ASAN_OPTIONS"] = "detect_leaks=1:abort_on_error=0:exitcode=23"
            rc, out = kv.sh("timeout 900 %s --shared %d %d" % (exe, rounds, t), cwd=kv.BUILD, env=env, timeout=1000)
            res["evaluations"] += rounds * t
            res["runs"].append(dict(cfg, shared=rounds, readers=t, rc=rc))
            if rc != 0:
                res["ok"] = False
                res["problems"].append({"kind": "crash", "config": dict(cfg, shared=rounds, readers=t), "detail": "driver --shared exit %d: %s" % (rc, out[-1500:])})
        if not cfg["asan"] and cfg["threads"] == 1 and cfg["header"] == "capi":
            # many dendrograms live at once, freed exactly once in three orders: the allocator's
            # bytes in use must come back (glibc mallinfo2)
            count = 60000 if tier == "thorough" else 20000
            for order in (0, 1, 2):
                rc, out = kv.sh("timeout 600 %s --soak %d %d" % (exe, count, order), cwd=kv.BUILD, env=dict(kv.ENV), timeout=700)
                res["evaluations"] += count
                res["runs"].append(dict(cfg, soak=count, order=order, rc=rc))
                if rc != 0:
                    res["ok"] = False
                    res["problems"].append({"kind": "crash", "config": dict(cfg, soak=count, order=order), "detail": "driver --soak exit %d: %s" % (rc, out[-1500:])})
    return res


def layout(profile="debug"):
    ok, out, lib = build_lib(profile)
    if not ok:
        return None, out
    res = {}
    for h, hdr in (("capi", HDR_CAPI), ("go", HDR_GO)):
        ok, out, exe = build_driver("layout_" + h, hdr, lib, False)
        if not ok:
            return None, out
        rc, out = kv.sh("%s --layout" % exe)
        res[h] = out.strip()
    return res, ""
