#!/usr/bin/env python3
"""check.py <property-id> [--tier quick|thorough] [--replay file]

Decides one property: proof obligations (Coq), translators, correspondence
(model vs /repo working tree), independent oracle / failing-input search.
Exit 0: held on everything explored.  Exit 1 + `VIOLATION property=<id> replay=<path>`."""
import json
import os
import sys
import time

sys.path.insert(0, os.path.dirname(os.path.abspath(__file__)))
import kv  # noqa: E402
import props  # noqa: E402


def main():
    args = sys.argv[1:]
    if not args:
        print(__doc__)
        return 2
    pid = args[0]
    tier = os.environ.get("VERIF_TIER", "quick")
    if "--tier" in args:
        tier = args[args.index("--tier") + 1]
    seed = int(os.environ.get("VERIF_SEED", "1"))
    if pid not in props.PROPS:
        print("unknown property", pid)
        return 2
    t0 = time.time()
    cfg = props.PROPS[pid]
    os.makedirs(os.path.join(kv.VERIF, "evidence"), exist_ok=True)
    os.makedirs(os.path.join(kv.BUILD, "replays"), exist_ok=True)
    broken = []      # what no longer checks: (kind, name, detail)
    failing = []     # concrete failing inputs: dict(desc=..., replay=...)
    known_hits = []
    cov = {"samples": []}
    log = []

    # 1. proof obligations ------------------------------------------------
    ok, out, dt = kv.coq_build()
    log.append("coq build ok=%s %.1fs" % (ok, dt))
    hits = kv.forbidden_scan()
    if hits:
        broken.append(("proof", "forbidden-constructs", "; ".join(hits[:10])))
    pc = {"ok": False, "theorems": [], "axioms": []}
    if not ok:
        broken.append(("proof", "coq-build", out[-2500:]))
    else:
        pc = kv.props_check(pid)
        if not pc["ok"]:
            broken.append(("proof", "Props/%s.v" % pid, pc["detail"][-2500:]))
    if ok and pc["ok"] and tier == "thorough":
        ck = kv.coqchk_props(pid)
        log.append("coqchk Props/%s ok=%s axioms=%d" % (pid, ck["ok"], len(ck["axioms"])))
        cov["coqchk"] = {"ok": ck["ok"], "axioms": ck["axioms"]}
        if not ck["ok"]:
            broken.append(("proof", "coqchk Props/%s" % pid, ck["detail"][-2500:]))
    n_thm = len(pc.get("theorems", []))
    cov["obligations"] = max(n_thm, 1)
    cov["discharged"] = n_thm if pc["ok"] else 0
    cov["theorems"] = pc.get("theorems", [])
    cov["axioms_reported"] = pc.get("axioms", [])
    cov["checker_cmd"] = "cd /verif/coq && make -j16 && coqc -Q . KV Props/%s.v  (Coq 8.16.1, full .vo build)" % pid
    cov["trusted_base"] = props.TRUSTED_BASE + cfg.get("trusted_extra", [])

    # 2. translators --------------------------------------------------------
    for name in cfg.get("translators", []):
        r = props.run_translator(name)
        log.append("translator %s ok=%s" % (name, r["ok"]))
        cov.setdefault("translators", {})[name] = r.get("summary", "")
        if not r["ok"]:
            broken.append(("translator", name, r["detail"][-2500:]))

    # 3. correspondence -------------------------------------------------------
    evaluations = 0
    nontrivial = 0
    dis_cases = []
    for (stream, profiles) in cfg.get("streams", []):
        r = kv.run_stream(stream, profiles, seed, tier)
        log.append("stream %s ok=%s evals=%d cached=%s %.1fs" % (stream, r["ok"], r["evaluations"], r.get("cached"), r.get("wall_s", 0)))
        if r.get("build_error"):
            broken.append(("correspondence", stream, r["build_error"]))
            if r.get("hang"):
                # a call that never returns is a concrete failing input for every
                # property of the call's result
                failing.append({"desc": "%s: %s" % (pid, r["build_error"])})
            continue
        evaluations += r["evaluations"]
        for prof, m in r["meta"].items():
            nontrivial += m.get("distinct_nontrivial", 0) if prof == profiles[0] else 0
            cov.setdefault("streams", {})["%s/%s" % (stream, prof)] = {k: v for k, v in m.items() if k != "samples"}
            if prof == profiles[0]:
                cov["samples"] += ["[%s] %s" % (stream, s) for s in m.get("samples", [])[:2]]
            for v in m.get("violations", []):
                failing.append({"desc": "%s (stream %s/%s seed %d tier %s)" % (v, stream, prof, seed, tier)})
        if not r["ok"]:
            d0 = r["disagreements"][0]
            broken.append(("correspondence", stream, "%d disagreement(s); first: %s" % (len(r["disagreements"]), json.dumps(d0)[:1500])))
            dis_cases += [(stream, d) for d in r["disagreements"][:50]]

    # 4. oracle / failing-input search -----------------------------------------
    for oc in cfg.get("oracles", []):
        for prof in oc.get("profiles", ["debug"]):
            r = props.run_oracle(pid, oc, prof, seed, tier, dis_cases, bool(broken))
            log.append("oracle %s/%s ok=%s evals=%s" % (oc["name"], prof, r.get("ok"), r.get("evaluations")))
            if r.get("build_error"):
                broken.append(("oracle", oc["name"], r["build_error"]))
                continue
            evaluations += r.get("evaluations", 0)
            nontrivial += r.get("distinct_nontrivial", 0)
            cov.setdefault("oracles", {})["%s/%s" % (oc["name"], prof)] = {k: v for k, v in r.items() if k not in ("violations", "samples")}
            cov["samples"] += r.get("samples", [])[:2]
            for v in r.get("violations", []):
                failing.append(v)

    # 5. property-specific runs (C driver, CLI, allocator ...) -------------------
    for ex in cfg.get("extras", []):
        r = props.run_extra(ex, seed, tier)
        log.append("extra %s ok=%s evals=%s" % (ex, r.get("ok"), r.get("evaluations")))
        evaluations += r.get("evaluations", 0)
        nontrivial += r.get("distinct_nontrivial", 0)
        cov.setdefault("extras", {})[ex] = r.get("coverage", {})
        cov["samples"] += r.get("samples", [])[:2]
        for b in r.get("broken", []):
            broken.append(("correspondence", ex, b))
        for v in r.get("violations", []):
            failing.append(v)

    # known findings -----------------------------------------------------------
    kf = props.known_findings(pid)
    new_failing = []
    for v in failing:
        hit = [k for k in kf if k["key"] in v.get("desc", "")]
        if hit:
            known_hits.append((hit[0], v))
        else:
            new_failing.append(v)
    printed = set()
    for k, v in known_hits:
        if k["key"] not in printed:   # one line per listed finding, however many inputs hit it
            printed.add(k["key"])
            print("KNOWN-FINDING: property=%s %s" % (pid, k["what"]))

    cov["evaluations"] = evaluations
    cov["distinct_nontrivial"] = nontrivial
    cov["rule"] = cfg.get("rule", props.DEFAULT_RULE)
    if not cov["samples"]:
        cov["samples"] = ["obligation: " + t for t in cov["theorems"][:3]] or ["(none)"]
    violations = 0
    rc = 0
    replay = None
    if new_failing:
        violations = len(new_failing)
        replay = os.path.join(kv.BUILD, "replays", "%s-failing-%d.json" % (pid, seed))
        json.dump({"property": pid, "failing_inputs": new_failing[:20], "broken": [list(b) for b in broken],
                   "replay_cmd": "python3 tools/check.py %s --replay %s" % (pid, replay)}, open(replay, "w"), indent=1)
        print("VIOLATION property=%s replay=%s" % (pid, replay))
        rc = 1
    elif broken:
        violations = 1
        replay = os.path.join(kv.BUILD, "replays", "%s-broken-%d.json" % (pid, seed))
        json.dump({"property": pid, "no_longer_checks": [{"kind": b[0], "name": b[1], "detail": b[2]} for b in broken],
                   "note": "no failing input found by the oracle search on model and implementation"},
                  open(replay, "w"), indent=1)
        print("VIOLATION property=%s replay=%s no-failing-input-found" % (pid, replay))
        rc = 1
    ev = {
        "property_id": pid, "tier": tier, "seed": seed, "level": "proof",
        "coverage": cov,
        "assumptions": cfg.get("assumptions", []) + props.COMMON_ASSUMPTIONS,
        "wall_s": round(time.time() - t0, 2),
        "violations": violations,
        "log": log,
        "known_findings_hit": [k["what"] for k, _ in known_hits],
    }
    json.dump(ev, open(os.path.join(kv.VERIF, "evidence", pid + ".json"), "w"), indent=1)
    for l in log:
        print("  " + l)
    print("%s %s tier=%s seed=%d wall=%.1fs" % (pid, "OK" if rc == 0 else "FAILED", tier, seed, time.time() - t0))
    return rc


if __name__ == "__main__":
    sys.exit(main())
