#!/usr/bin/env python3
"""Build the framework from files on disk: Coq development (full .vo build),
harness in both profiles."""
import os
import sys
sys.path.insert(0, os.path.dirname(os.path.abspath(__file__)))
import kv

ok, out, dt = kv.coq_build()
print("coq build ok=%s %.1fs" % (ok, dt))
if not ok:
    print(out[-4000:])
    sys.exit(1)
for prof in ("debug", "release"):
    ok, out, binp = kv.harness_build(prof)
    print("harness %s ok=%s" % (prof, ok))
    if not ok:
        print(out[-4000:])
        sys.exit(1)
sys.exit(0)
