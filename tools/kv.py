"""Core machinery: builds, caches, correspondence streams, Coq obligations."""
import concurrent.futures as cf
import fcntl
import hashlib
import json
import os
import re
import shutil
import subprocess
import sys
import time

VERIF = os.path.dirname(os.path.dirname(os.path.abspath(__file__)))
REPO = os.environ.get("KV_REPO", "/repo")
BUILD = os.path.join(VERIF, "build")
COQ = os.path.join(VERIF, "coq")
HARNESS = os.path.join(VERIF, "harness")
ENV = dict(os.environ, CARGO_NET_OFFLINE="true")
NPROC = 16

REPO_FILES_GLOBS = ["src", "kodama-capi/src", "kodama-capi/include", "kodama-capi/Cargo.toml",
                    "kodama-bin/src", "kodama-bin/Cargo.toml", "go-kodama/kodama.go",
                    "go-kodama/kodama.h", "Cargo.toml", "Cargo.lock"]


def sh(cmd, cwd=None, timeout=1800, env=None, check=False, stdin=None):
    p = subprocess.run(cmd, cwd=cwd, shell=isinstance(cmd, str), stdout=subprocess.PIPE,
                       stderr=subprocess.STDOUT, timeout=timeout, env=env or ENV, input=stdin)
    out = p.stdout.decode("utf-8", "replace")
    if check and p.returncode != 0:
        raise RuntimeError("command failed (%d): %s\n%s" % (p.returncode, cmd, out[-4000:]))
    return p.returncode, out


def _hash_paths(root, rels):
    h = hashlib.sha256()
    for rel in rels:
        p = os.path.join(root, rel)
        if os.path.isdir(p):
            for d, dirs, files in sorted(os.walk(p)):
                dirs.sort()
                if "/target" in d or d.endswith("/target"):
                    continue
                for f in sorted(files):
                    fp = os.path.join(d, f)
                    h.update(os.path.relpath(fp, root).encode())
                    with open(fp, "rb") as fh:
                        h.update(fh.read())
        elif os.path.exists(p):
            h.update(rel.encode())
            with open(p, "rb") as fh:
                h.update(fh.read())
    return h.hexdigest()[:16]


def repo_hash():
    return _hash_paths(REPO, REPO_FILES_GLOBS)


def machinery_hash():
    return _hash_paths(VERIF, ["coq/Model", "coq/Run", "coq/_CoqProject", "harness/src",
                               "harness/Cargo.toml", "tools", "cdriver"])


class Lock:
    def __init__(self, name):
        os.makedirs(BUILD, exist_ok=True)
        self.path = os.path.join(BUILD, name + ".lock")

    def __enter__(self):
        self.f = open(self.path, "w")
        fcntl.flock(self.f, fcntl.LOCK_EX)
        return self

    def __exit__(self, *a):
        fcntl.flock(self.f, fcntl.LOCK_UN)
        self.f.close()


# ----------------------------------------------------------------- Coq build
def coq_build():
    """Full .vo build of the development (make decides what is stale)."""
    with Lock("coq"):
        t0 = time.time()
        if not os.path.exists(os.path.join(COQ, "Makefile")):
            sh("coq_makefile -f _CoqProject -o Makefile", cwd=COQ, check=True)
        rc, out = sh("timeout 3000 make -j%d 2>&1" % NPROC, cwd=COQ, timeout=3100)
        return rc == 0, out, time.time() - t0


FORBIDDEN = re.compile(r"\b(Admitted|admit|Axiom|Axioms|Parameter|Parameters|Conjecture|"
                       r"Admit Obligations|Unset Guard Checking|bypass_check|type-in-type|"
                       r"impredicative-set|Unset Positivity|Unset Universe Checking)\b")


def strip_coq_comments(src):
    out, depth, i = [], 0, 0
    while i < len(src):
        if src.startswith("(*", i):
            depth += 1
            i += 2
        elif src.startswith("*)", i) and depth:
            depth -= 1
            i += 2
        else:
            if depth == 0:
                out.append(src[i])
            i += 1
    return "".join(out)


def forbidden_scan():
    """No Admitted/admit/Axiom/... anywhere in the development (comments stripped)."""
    hits = []
    for d, _, files in os.walk(COQ):
        for f in files:
            if f.endswith(".v") or f == "_CoqProject":
                src = open(os.path.join(d, f)).read()
                body = strip_coq_comments(src) if f.endswith(".v") else src
                for m in FORBIDDEN.finditer(body):
                    hits.append("%s: %s" % (os.path.relpath(os.path.join(d, f), COQ), m.group(0)))
    return hits


ALLOWED_AXIOMS = {
    # stdlib axioms reached through Flocq's real-number proofs
    "ClassicalDedekindReals.sig_forall_dec", "ClassicalDedekindReals.sig_not_dec",
    "FunctionalExtensionality.functional_extensionality_dep", "Classical_Prop.classic",
}


def props_obligations(pid):
    """Compile-time facts for Props/<pid>.v: pins and assumptions.

    Props files print, for every pinned theorem, `Print Assumptions`; the output
    was captured by the build into build/props/<pid>.out by props_check."""
    path = os.path.join(COQ, "Props", pid + ".v")
    if not os.path.exists(path):
        return None
    src = strip_coq_comments(open(path).read())
    thms = re.findall(r"\b(?:Theorem|Lemma|Corollary|Example)\s+(\w+)", src)
    pins = re.findall(r"\bCheck\s+\(?(\w+)", src)
    return {"theorems": thms, "pins": pins}


def props_check(pid):
    """Re-run coqc on Props/<pid>.v (fast: it only contains `exact lemma`), capture
    Print Assumptions output, compare with the allowlist."""
    path = os.path.join(COQ, "Props", pid + ".v")
    res = {"ok": False, "theorems": [], "axioms": {}, "detail": ""}
    if not os.path.exists(path):
        res["detail"] = "Props/%s.v missing" % pid
        return res
    ob = props_obligations(pid)
    os.makedirs(os.path.join(BUILD, "props"), exist_ok=True)
    rc, out = sh("timeout 900 coqc -Q . KV Props/%s.v -o %s/props/%s.vo" % (pid, BUILD, pid), cwd=COQ, timeout=1000)
    res["detail"] = out[-3000:]
    if rc != 0:
        return res
    # parse "Closed under the global context" / "Axioms:" blocks in order
    blocks = re.split(r"(?=Closed under the global context|Axioms:)", out)
    blocks = [b for b in blocks if b.startswith("Closed") or b.startswith("Axioms:")]
    bad = []
    axioms = {}
    for idx, b in enumerate(blocks):
        names = []
        if b.startswith("Axioms:"):
            for line in b.splitlines()[1:]:
                m = re.match(r"^([A-Za-z_][\w.']*)\s*(:|$)", line)
                if m:
                    names.append(m.group(1))
        axioms[idx] = names
        for n in names:
            if n not in ALLOWED_AXIOMS and not n.startswith(("PrimFloat.", "Uint63.", "FloatAxioms.", "PrimInt63.", "Float")):
                bad.append(n)
    res["theorems"] = ob["theorems"]
    res["n_assumption_blocks"] = len(blocks)
    res["axioms"] = sorted({n for v in axioms.values() for n in v})
    res["ok"] = not bad and len(blocks) >= 1
    if bad:
        res["detail"] = "disallowed axioms: %s" % sorted(set(bad))
    return res


def coqchk_props(pid):
    """Independent re-check (coqchk) of Props/<pid>.vo and everything it depends on;
    returns {ok, axioms:[...], detail}. Axioms must be within the allowlist (or
    Coq's primitive float/int interface)."""
    rc, out = sh("timeout 3000 coqchk -o -silent -Q . KV KV.Props.%s 2>&1" % pid, cwd=COQ, timeout=3100)
    res = {"ok": False, "axioms": [], "detail": out[-2500:]}
    if rc != 0:
        return res
    m = re.search(r"\* Axioms:(.*?)\n\s*\n\* Constants/Inductives relying on type-in-type:(.*?)\n\s*\n\* Constants/Inductives relying on unsafe \(co\)fixpoints:(.*?)\n\s*\n\* Inductives whose positivity is assumed:(.*?)(\n\s*\n|$)", out, re.S)
    if not m:
        res["detail"] = "could not parse coqchk summary: " + out[-1500:]
        return res
    axioms = [l.strip() for l in m.group(1).splitlines() if l.strip() and l.strip() != "<none>"]
    other = [g.strip() for g in (m.group(2), m.group(3), m.group(4)) if g.strip() and g.strip() != "<none>"]
    bad = []
    for a in axioms:
        short = a.split(".")[-1]
        full_ok = any(a.endswith(x) or x.endswith(a) for x in ALLOWED_AXIOMS)
        prim = any(t in a for t in ("PrimFloat", "PrimInt63", "FloatAxioms", "Uint63", "FloatOps", "Float", "Int63"))
        if not (full_ok or prim):
            bad.append(a)
    res["axioms"] = axioms
    res["ok"] = not bad and not other
    if bad or other:
        res["detail"] = "coqchk: unexpected axioms %s, other %s" % (bad, other)
    return res


# ----------------------------------------------------------------- harness build
def harness_build(profile):
    """Build kvh against /repo's working tree with the hook cfg on."""
    with Lock("cargo_" + profile):
        lock_src = os.path.join(HARNESS, "Cargo.lock")
        tgt = os.path.join(BUILD, "target")
        env = dict(ENV, RUSTFLAGS="--cfg kodama_verif", CARGO_TARGET_DIR=tgt)
        flag = "--release" if profile == "release" else ""
        rc, out = sh("timeout 900 cargo build --offline %s 2>&1" % flag, cwd=HARNESS, env=env, timeout=1000)
        binp = os.path.join(tgt, "release" if profile == "release" else "debug", "kvh")
        return rc == 0, out, binp


# ----------------------------------------------------------------- correspondence
def parse_coq_lists(out):
    """All `= [...] : list Z` results of a coqc run, in order."""
    res = []
    for m in re.finditer(r"=\s*\[(.*?)\]\s*:\s*list Z", out, re.S):
        body = m.group(1).strip()
        res.append([int(x) for x in re.split(r"[;\s]+", body) if x] if body else [])
    return res


def run_coq_shard(vfile):
    t0 = time.time()
    rc, out = sh("timeout 1500 coqc -Q %s KV %s" % (COQ, vfile), cwd=BUILD, timeout=1600)
    return vfile, rc, out, time.time() - t0


def stream_dir(stream, seed, tier, profiles=("debug",)):
    key = "%s-%s-%s-%s-%s-%s" % (stream, "+".join(profiles), repo_hash(), machinery_hash(), seed, tier)
    return os.path.join(BUILD, "streams", key)


def run_stream(stream, profiles, seed, tier, extra_args=""):
    """Generate + run implementation (per profile) + evaluate model + diff.

    Result (cached on disk, keyed by repo content, machinery content, seed, tier):
      {ok, build_error, evaluations, disagreements:[{id, profile, expected, model, case}], meta:{profile:..}, wall_s}
    """
    d = stream_dir(stream, seed, tier, profiles)
    resf = os.path.join(d, "result.json")
    with Lock("stream_" + stream):
        if os.path.exists(resf):
            r = json.load(open(resf))
            r["cached"] = True
            return r
        t0 = time.time()
        shutil.rmtree(d, ignore_errors=True)
        # keep the cache small: at most 3 older result directories per stream
        sroot = os.path.join(BUILD, "streams")
        if os.path.isdir(sroot):
            old = sorted((os.path.join(sroot, x) for x in os.listdir(sroot) if x.startswith(stream + "-")),
                         key=lambda q: os.path.getmtime(q))
            for q in old[:-3]:
                shutil.rmtree(q, ignore_errors=True)
        os.makedirs(d)
        result = {"ok": False, "stream": stream, "evaluations": 0, "disagreements": [], "meta": {},
                  "build_error": None, "cached": False, "profiles": profiles}
        vfiles = []
        for prof in profiles:
            ok, out, binp = harness_build(prof)
            if not ok:
                result["build_error"] = "harness build (%s) failed:\n%s" % (prof, out[-3000:])
                result["wall_s"] = time.time() - t0
                return result  # not cached
            rc, out = sh("%s %s --seed %d --tier %s --out %s %s" % (binp, stream, seed, tier, d, extra_args),
                         cwd=VERIF, timeout=1800)
            if rc == 4:
                hang = [l for l in out.splitlines() if l.startswith("HANG:")]
                result["build_error"] = "the implementation did not return while the %s stream (%s profile) was running: %s" % (stream, prof, (hang or [out[-800:]])[0][:3000])
                result["hang"] = True
                result["wall_s"] = time.time() - t0
                return result
            if rc != 0:
                result["build_error"] = "harness run (%s %s) failed rc=%d:\n%s" % (stream, prof, rc, out[-3000:])
                result["wall_s"] = time.time() - t0
                return result
            mf = os.path.join(d, "%s_%s_meta.json" % (stream, prof))
            if os.path.exists(mf):
                result["meta"][prof] = json.load(open(mf))
            vfiles += sorted(f for f in os.listdir(d) if f.startswith("%s_%s_" % (stream, prof)) and f.endswith(".v"))
        with cf.ThreadPoolExecutor(max_workers=NPROC) as ex:
            outs = list(ex.map(run_coq_shard, [os.path.join(d, f) for f in vfiles]))
        coq_time = 0.0
        for vfile, rc, out, dt in outs:
            coq_time = max(coq_time, dt)
            exp_lines = open(vfile[:-2] + ".exp").read().splitlines()
            v_lines = [l for l in open(vfile).read().splitlines() if l.startswith("(* ")]
            prof = os.path.basename(vfile).split("_")[1]
            if rc != 0:
                result["disagreements"].append({"id": os.path.basename(vfile), "profile": prof,
                                                "error": "coqc failed: " + out[-1500:]})
                continue
            got = parse_coq_lists(out)
            if len(got) != len(exp_lines):
                result["disagreements"].append({"id": os.path.basename(vfile), "profile": prof,
                                                "error": "model produced %d results for %d cases" % (len(got), len(exp_lines))})
                continue
            for line, vl, g in zip(exp_lines, v_lines, got):
                parts = line.split()
                cid, exp = parts[0], [int(x) for x in parts[1:]]
                result["evaluations"] += 1
                if exp != g:
                    result["disagreements"].append({"id": cid, "profile": prof, "expected": exp, "model": g,
                                                    "case": vl[vl.index("Eval vm_compute in") + 19:].rstrip(".")})
        result["ok"] = not result["disagreements"]
        result["coq_wall_s"] = coq_time
        result["wall_s"] = time.time() - t0
        json.dump(result, open(resf, "w"))
        return result


def run_oracle(pid, profile, seed, tier, extra=""):
    """Run the harness' independent oracle for a property. Returns dict parsed from its JSON line."""
    ok, out, binp = harness_build(profile)
    if not ok:
        return {"ok": False, "build_error": out[-3000:]}
    os.makedirs(os.path.join(BUILD, "replays"), exist_ok=True)
    rc, out = sh("%s oracle --prop %s --seed %d --tier %s --replay-dir %s %s" %
                 (binp, pid, seed, tier, os.path.join(BUILD, "replays"), extra), cwd=VERIF, timeout=3000)
    last = [l for l in out.splitlines() if l.startswith("{")]
    if rc == 4 and not last:
        hang = [l for l in out.splitlines() if l.startswith("HANG:")]
        return {"ok": False, "evaluations": 1, "distinct_nontrivial": 0, "samples": [],
                "violations": [{"desc": "%s: the implementation hangs: %s" % (pid, (hang or ["?"])[0][:3000])}], "profile": profile}
    if rc not in (0, 1) or not last:
        return {"ok": False, "build_error": "oracle crashed rc=%d: %s" % (rc, out[-2000:])}
    r = json.loads(last[-1])
    r["profile"] = profile
    return r
