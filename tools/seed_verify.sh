#!/bin/bash
# seed_verify.sh <name> <outdir>: confirm a seeded change in a scratch worktree:
#  (1) patch applies at /repo HEAD, workspace builds, existing tests pass;
#  (2) demo fails with the patch; (3) demo passes without it.
set -u
name=$1; out=$2
wt=/tmp/sv_$name
git -C /repo worktree remove --force $wt 2>/dev/null
git -C /repo worktree add -q --detach $wt HEAD || exit 9
cd $wt
export CARGO_NET_OFFLINE=true
res=""
bash $out/run_demo.sh $wt > $out/verify_clean.log 2>&1; rc_clean=$?
git checkout -q -- . ; git clean -fdq -e target
git apply $out/patch.diff || { echo "patch does not apply"; exit 8; }
cargo test --workspace --no-fail-fast --offline > $out/verify_tests.log 2>&1; rc_tests=$?
bash $out/run_demo.sh $wt > $out/verify_patched.log 2>&1; rc_patched=$?
echo "$name: demo_clean_rc=$rc_clean tests_with_patch_rc=$rc_tests demo_patched_rc=$rc_patched passed_tests=$(grep -c '\.\.\. ok' $out/verify_tests.log)"
cd /; git -C /repo worktree remove --force $wt
