"""Property-specific runs that are neither Coq evaluation nor the Rust oracle:
C driver against libkodama.a, the locations CLI, the counting allocator."""
import json
import os

import kv
import capi


def _capi(seed, tier, cfgs, what):
    r = capi.run_all(seed, tier, cfgs)
    out = {"ok": r["ok"], "evaluations": r["evaluations"], "distinct_nontrivial": 0, "broken": [], "violations": [],
           "coverage": {"runs": r["runs"], "what": what}, "samples": []}
    sdir = kv.stream_dir("capi", seed, tier)
    mf = os.path.join(sdir, "capi_debug_meta.json")
    if os.path.exists(mf):
        m = json.load(open(mf))
        out["distinct_nontrivial"] = m.get("distinct_nontrivial", 0)
        out["samples"] = ["[capi] " + s for s in m.get("samples", [])[:1]]
    for p in r["problems"]:
        if p["kind"] == "build":
            out["broken"].append(p["detail"])
        elif p["kind"] == "mismatch":
            out["violations"].append({"desc": "C API result differs from Rust linkage in history %s (config %s): expected %s got %s; replay: build/cdriver/<driver> %s/capi_script.txt" % (
                p["first"]["id"], json.dumps(p["config"]), p["first"]["expected"], p["first"]["c_api"], sdir)})
        else:
            out["violations"].append({"desc": "C driver failed (config %s): %s; replay: script %s/capi_script.txt" % (json.dumps(p["config"]), p["detail"][-1200:], sdir)})
    return out


def capi_profiles(seed, tier):
    cfgs = [dict(profile="debug", header="capi", asan=False, threads=1),
            dict(profile="release", header="capi", asan=False, threads=1)]
    return _capi(seed, tier, cfgs, "C driver linked against libkodama.a built from /repo in dev and release profiles; output vs Rust linkage, bit for bit")


def capi_asan(seed, tier):
    t = 16 if tier == "thorough" else 6
    cfgs = [dict(profile="debug", header="capi", asan=True, threads=1),
            dict(profile="debug", header="capi", asan=True, threads=t),
            dict(profile="release", header="capi", asan=True, threads=t)]
    return _capi(seed, tier, cfgs, "client histories (create/read/overwrite+free input/free) under AddressSanitizer+LeakSanitizer, 1..%d threads" % t)


def capi_headers(seed, tier):
    cfgs = [dict(profile="debug", header="go", asan=False, threads=1),
            dict(profile="release", header="capi", asan=False, threads=1)]
    out = _capi(seed, tier, cfgs, "driver compiled against go-kodama/kodama.h and kodama-capi/include/kodama.h; enumerators used by NAME; sizeof/offsetof of kodama_step")
    lay, err = capi.layout()
    if lay is None:
        out["broken"].append("layout probe failed: " + err[-1500:])
        out["ok"] = False
    else:
        out["coverage"]["layout"] = lay
        want = "sizeof_step 32 off_c1 0 off_c2 8 off_dis 16 off_size 24 sizeof_size_t 8 enum 0 1 2 3 4 5 6"
        for h, l in lay.items():
            if l != want:
                out["violations"].append({"desc": "C17 layout of kodama_step / enumerator values through %s header: %s (expected %s)" % (h, l, want)})
                out["ok"] = False
    return out
