"""Property-specific runs that are neither Coq evaluation nor the Rust oracle:
C driver against libkodama.a, the locations CLI, the counting allocator."""
import json
import os

import kv
import capi


def _capi(seed, tier, cfgs, what):
    r = capi.run_all(seed, tier, cfgs)
    out = {"ok": r["ok"], "evaluations": r["evaluations"], "distinct_nontrivial": 0, "broken": [], "violations": [],
           "coverage": {"runs": r["runs"], "what": what}, "samples": []}
    sdir = kv.stream_dir("capi", seed, tier, ["debug"])
    mf = os.path.join(sdir, "capi_debug_meta.json")
    if os.path.exists(mf):
        m = json.load(open(mf))
        out["distinct_nontrivial"] = m.get("distinct_nontrivial", 0)
        out["samples"] = ["[capi] " + s for s in m.get("samples", [])[:1]]
    for p in r["problems"]:
        if p["kind"] == "build":
            out["broken"].append(p["detail"])
        elif p["kind"] == "mismatch":
            out["violations"].append({"desc": "C API result differs from Rust linkage in history %s (config %s): expected %s got %s; replay: build/cdriver/<driver> %s/capi_script.txt" % (
                p["first"]["id"], json.dumps(p["config"]), p["first"]["expected"], p["first"]["c_api"], sdir)})
        else:
            out["violations"].append({"desc": "C driver failed (config %s): %s; replay: script %s/capi_script.txt" % (json.dumps(p["config"]), p["detail"][-1200:], sdir)})
    return out


def capi_profiles(seed, tier):
    cfgs = [dict(profile="debug", header="capi", asan=False, threads=1),
            dict(profile="release", header="capi", asan=False, threads=1)]
    return _capi(seed, tier, cfgs, "C driver linked against libkodama.a built from /repo in dev and release profiles; output vs Rust linkage, bit for bit")


def capi_asan(seed, tier):
    t = 16 if tier == "thorough" else 6
    cfgs = [dict(profile="debug", header="capi", asan=True, threads=1),
            dict(profile="debug", header="capi", asan=True, threads=t),
            dict(profile="release", header="capi", asan=True, threads=t),
            dict(profile="release", header="capi", asan=False, threads=1)]
    return _capi(seed, tier, cfgs, "client histories (create/read/overwrite+free input/free) under AddressSanitizer+LeakSanitizer, 1..%d threads; soak of 20000/60000 simultaneously live dendrograms freed in three orders with glibc bytes-in-use accounting" % t)


def capi_headers(seed, tier):
    cfgs = [dict(profile="debug", header="go", asan=False, threads=1),
            dict(profile="release", header="capi", asan=False, threads=1)]
    out = _capi(seed, tier, cfgs, "driver compiled against go-kodama/kodama.h and kodama-capi/include/kodama.h; enumerators used by NAME; sizeof/offsetof of kodama_step")
    lay, err = capi.layout()
    if lay is None:
        out["broken"].append("layout probe failed: " + err[-1500:])
        out["ok"] = False
    else:
        out["coverage"]["layout"] = lay
        want = "sizeof_step 32 off_c1 0 off_c2 8 off_dis 16 off_size 24 sizeof_size_t 8 enum 0 1 2 3 4 5 6"
        for h, l in lay.items():
            if l != want:
                out["violations"].append({"desc": "C17 layout of kodama_step / enumerator values through %s header: %s (expected %s)" % (h, l, want)})
                out["ok"] = False
    return out


# ------------------------------------------------------------------ locations CLI (C18)
def _gen_csvs(seed, tier, outdir):
    import random
    rnd = random.Random(seed * 7919 + 18)
    os.makedirs(outdir, exist_ok=True)
    files = []

    def write(name, rows):
        p = os.path.join(outdir, name)
        with open(p, "w", encoding="utf-8") as f:
            f.write("City,Region,Country,Latitude,Longitude\n")
            # names a real gazetteer has: a leading '#', quoted fields with commas and quotes, leading
            # blanks, apostrophes, non-ASCII, semicolons - every record counts, whatever its name
            styles = ["c%d", "#%d Mine", " lead%d", "O'Brien %d", "Z\u00fcrich %d", "\"Quoted, City %d\"",
                      "semi;colon%d", "\"say \"\"hi\"\" %d\"", "c%d", "c%d"]
            for i, (la, lo) in enumerate(rows):
                name = styles[(i * 7 + len(rows)) % len(styles)] % i
                f.write("%s,R,xx,%.7f,%.7f\n" % (name, la, lo))
        files.append((p, len(rows)))

    big = 300 if tier == "thorough" else 70
    sizes = [0, 1, 2, 3, 5, 8, 13, 21, 34, big]
    # a sweep of record counts for the thread-schedule part (chunk boundaries of
    # the parallel matrix construction depend on both n and the thread count)
    sweep = list(range(65, 300, 1)) if tier == "thorough" else sorted(set(list(range(66, 170, 3)) + [rnd.randrange(64, 300) for _ in range(10)]))
    for n in sweep:
        write("sweep_%d.csv" % n, [(rnd.uniform(-80, 80), rnd.uniform(-179, 179)) for _ in range(n)])
    for k, n in enumerate(sizes):
        write("rand_%d.csv" % n, [(rnd.uniform(-80, 80), rnd.uniform(-179, 179)) for _ in range(n)])
    # duplicates (exact ties), poles and antimeridian
    base = [(rnd.uniform(40, 45), rnd.uniform(-75, -70)) for _ in range(6)]
    write("dups.csv", [base[rnd.randrange(6)] for _ in range(24)])
    write("poles.csv", [(90.0, 0.0), (-90.0, 0.0), (90.0, 180.0), (0.0, 180.0), (0.0, -180.0), (0.0, 179.9999999),
                        (0.0, -179.9999999), (89.9999999, 45.0), (0.0, 0.0), (0.0, 0.0)])
    write("grid.csv", [(float(i), float(j)) for i in range(5) for j in range(5)])
    for shipped in ("ma-tiny.csv", "ma-small.csv", "ma-bench-small.csv"):
        p = os.path.join(kv.REPO, "data", "locations", shipped)
        if os.path.exists(p):
            files.append((p, sum(1 for _ in open(p)) - 1))
    return files


def cli_runs(seed, tier):
    import struct
    out = {"ok": True, "evaluations": 0, "distinct_nontrivial": 0, "broken": [], "violations": [], "coverage": {}, "samples": []}
    with kv.Lock("cli_build"):
        tgt = os.path.join(kv.BUILD, "cli-target")
        env = dict(kv.ENV, RUSTFLAGS="--cfg kodama_verif", CARGO_TARGET_DIR=tgt)
        rc, o = kv.sh("timeout 1200 cargo build -p kodama-bin --release --offline 2>&1", cwd=kv.REPO, env=env, timeout=1300)
    exe = os.path.join(tgt, "release", "locations")
    if rc != 0 or not os.path.exists(exe):
        out["ok"] = False
        out["broken"].append("locations binary does not build: " + o[-2000:])
        return out
    ok, o, kvh = kv.harness_build("release")
    if not ok:
        out["ok"] = False
        out["broken"].append("harness build failed: " + o[-2000:])
        return out
    work = os.path.join(kv.BUILD, "cli-work-%d-%s" % (seed, tier))
    files = _gen_csvs(seed, tier, work)
    methods = ["single", "complete", "average", "weighted", "ward", "centroid", "median"]
    threads_all = [1, 2, 3, 7, 16]
    hist = {"threads": {}, "records": {}, "methods": {}}
    nruns = 0
    for fi, (csv, n) in enumerate(files):
        is_sweep = os.path.basename(csv).startswith("sweep_")
        ms = methods if n <= 40 else ([methods[fi % 7]] if is_sweep else [methods[(fi + k) % 7] for k in range(3)])
        for mi, m in enumerate(ms):
            ths = threads_all if (tier == "thorough" or n <= 13 or is_sweep) else [threads_all[(fi + mi) % 5], threads_all[(fi + mi + 2) % 5]]
            if is_sweep:
                ths = [2, 3, 7, 16] + ([5, 11] if tier == "thorough" else [])
            # expected: sequential matrix + linkage from the harness
            exp_dist = os.path.join(work, "exp.dist")
            rc, eo = kv.sh("%s cliexpect --csv %s --method %s --save %s" % (kvh, csv, m, exp_dist), timeout=600)
            if rc != 0:
                out["broken"].append("harness cliexpect failed: " + eo[-800:])
                out["ok"] = False
                continue
            lines = eo.split("\n")
            exp_steps = [tuple(int(x) for x in l.split()) for l in lines[1:] if l.strip()]
            exp_bytes = open(exp_dist, "rb").read()
            first_stdout = None
            for t in ths:
                dist = os.path.join(work, "got.dist")
                # the save path is reused from run to run, as a user re-running the tool does: on every
                # other run it already holds a LONGER, unrelated file, which the tool must replace
                if os.path.exists(dist):
                    os.remove(dist)
                if (nruns + t) % 2 == 0:
                    with open(dist, "wb") as fh:
                        fh.write(b"\xab" * (len(exp_bytes) + 8 * (17 + nruns % 5)))
                env = dict(kv.ENV, RAYON_NUM_THREADS=str(t))
                import subprocess
                p = subprocess.run([exe, "--method", m, "--save-dist-to", dist, csv], stdout=subprocess.PIPE, stderr=subprocess.PIPE, env=env, timeout=600)
                nruns += 1
                hist["threads"][str(t)] = hist["threads"].get(str(t), 0) + 1
                hist["records"][str(n)] = hist["records"].get(str(n), 0) + 1
                hist["methods"][m] = hist["methods"].get(m, 0) + 1
                where = "locations --method %s %s with RAYON_NUM_THREADS=%d (%d records)" % (m, csv, t, n)
                if p.returncode != 0:
                    out["violations"].append({"desc": "C18 %s exited with status %d: %s" % (where, p.returncode, p.stderr.decode()[-300:])})
                    continue
                got_bytes = open(dist, "rb").read() if os.path.exists(dist) else b""
                if got_bytes != exp_bytes:
                    k = next((i for i in range(min(len(got_bytes), len(exp_bytes))) if got_bytes[i] != exp_bytes[i]), min(len(got_bytes), len(exp_bytes)))
                    out["violations"].append({"desc": "C18 %s: saved matrix differs from the sequential row-major Haversine matrix at byte %d (entry %d; %d vs %d bytes)" % (where, k, k // 8, len(got_bytes), len(exp_bytes))})
                text = p.stdout.decode()
                rows = [l for l in text.split("\n") if l.strip()]
                got_steps = []
                try:
                    for l in rows[1:]:
                        a, b, d, s = l.split(",")
                        got_steps.append((int(a), int(b), struct.unpack("<Q", struct.pack("<d", float(d)))[0], int(s)))
                except Exception as e:
                    out["violations"].append({"desc": "C18 %s: unparsable output %r" % (where, text[:200])})
                    continue
                if got_steps != exp_steps:
                    k = next((i for i in range(min(len(got_steps), len(exp_steps))) if got_steps[i] != exp_steps[i]), min(len(got_steps), len(exp_steps)))
                    out["violations"].append({"desc": "C18 %s: step %d is %s but linkage on the row-major Haversine matrix gives %s" % (
                        where, k, got_steps[k] if k < len(got_steps) else None, exp_steps[k] if k < len(exp_steps) else None)})
                if first_stdout is None:
                    first_stdout = p.stdout
                elif p.stdout != first_stdout:
                    out["violations"].append({"desc": "C18 %s: stdout differs between thread counts" % where})
                # load what was saved: byte-identical stdout
                if os.path.exists(dist):
                    p2 = subprocess.run([exe, "--method", m, "--load-dist-from", dist, csv], stdout=subprocess.PIPE, stderr=subprocess.PIPE, env=env, timeout=600)
                    nruns += 1
                    if p2.returncode != 0 or p2.stdout != p.stdout:
                        out["violations"].append({"desc": "C18 %s: --load-dist-from of the saved matrix does not reproduce stdout (status %d)" % (where, p2.returncode)})
            if n in (3, 5) and len(out["samples"]) < 2:
                out["samples"].append("[cli] %s --method %s -> %s" % (os.path.basename(csv), m, exp_steps))
    # invalid method names
    import subprocess
    bad_names = ["bogus", "Single", "WARD", "", "singl", "average ", "centroid2", "medianx", "complete-linkage"]
    # ... against an ordinary file and against every degenerate one (0, 1, 2, 3 records: nothing
    # or almost nothing to cluster - the name must be rejected all the same)
    targets = [files[4]] + [f for f in files if f[1] <= 3][:8]
    for csv, nrec in targets:
        for bname in bad_names:
            p = subprocess.run([exe, "--method", bname, csv], stdout=subprocess.PIPE, stderr=subprocess.PIPE, env=kv.ENV, timeout=120)
            nruns += 1
            if p.returncode == 0:
                out["violations"].append({"desc": "C18 invalid method name %r accepted on %s (%d records): exit status 0, stdout %r" % (bname, os.path.basename(csv), nrec, p.stdout.decode()[:120])})
    out["evaluations"] = nruns
    out["distinct_nontrivial"] = len([1 for _, n in files if n >= 3]) * 3
    out["coverage"] = dict(hist, files=len(files), invalid_names=len(bad_names),
                           what="locations binary (release) vs sequential Haversine + linkage; saved matrix bytes; load reproduces stdout; thread counts 1,2,3,7,16")
    out["ok"] = out["ok"] and not out["violations"]
    return out


def overflow_band(seed, tier):
    """C12 at the edge of its stated domain: entries whose squares are finite but whose sums of
    squares overflow (0.63 .. 0.90 times sqrt(MAX)), Ward / centroid / median through every entry
    point, one process per case (a call that does not return is killed after a few seconds), plus
    the same shapes at a safe magnitude as controls. Anything but a normal return with finite
    heights is reported; the band cases are a recorded known finding (known_findings.txt)."""
    import subprocess
    from concurrent.futures import ThreadPoolExecutor
    out = {"ok": True, "evaluations": 0, "distinct_nontrivial": 0, "broken": [], "violations": [],
           "coverage": {"what": "sqrt(MAX) band probe, one process per case", "outcomes": {}}, "samples": []}
    ok, log, binp = kv.harness_build("release")
    if not ok:
        out["broken"].append("harness build failed: " + log[-800:])
        return out
    try:
        count = int(subprocess.run([binp, "band", "--count", "1"], stdout=subprocess.PIPE, timeout=30).stdout.decode().strip())
    except Exception as e:  # noqa: BLE001
        out["broken"].append("band --count failed: %r" % (e,))
        return out

    def one(i):
        try:
            p = subprocess.run([binp, "band", "--index", str(i)], stdout=subprocess.PIPE, stderr=subprocess.DEVNULL, timeout=6)
            lines = [l for l in p.stdout.decode().splitlines() if l.startswith("BAND ") or l.startswith("HANG")]
            return i, (lines[-1] if lines else "BAND case %d :: no output (rc %d)" % (i, p.returncode))
        except subprocess.TimeoutExpired:
            d = subprocess.run([binp, "band", "--index", str(i), "--describe", "1"], stdout=subprocess.PIPE, timeout=30).stdout.decode().strip()
            return i, "%s :: hang (no return within 6 s)" % (d or ("BAND case %d" % i))
    with ThreadPoolExecutor(max_workers=kv.NPROC) as ex:
        results = list(ex.map(one, range(count)))
    hist = {}
    for i, line in results:
        out["evaluations"] += 1
        desc, _, outcome = line.partition(" :: ")
        kind = outcome.split()[0] if outcome else "?"
        hist[kind] = hist.get(kind, 0) + 1
        if outcome != "ok-finite":
            tag = "band=squares-finite-sums-overflow" if "(band)" in desc else "control-input"
            out["violations"].append({"desc": "C12 %s: %s -> %s; replay: build/target/release/kvh band --index %d" % (tag, desc[5:], outcome, i)})
        elif len(out["samples"]) < 2:
            out["samples"].append("[band] " + line)
    out["coverage"]["outcomes"] = hist
    out["distinct_nontrivial"] = count
    return out


def capi_threads(seed, tier):
    """C08, last sentence, at the C boundary: the whole script of client histories replayed by 8 / 16
    threads at once (each thread its own handles and matrices) must give every thread the output of a
    single-threaded run, in dev and release builds of the static library."""
    t = 16 if tier == "thorough" else 8
    cfgs = [dict(profile="debug", header="capi", asan=False, threads=t),
            dict(profile="release", header="capi", asan=False, threads=t)]
    return _capi(seed, tier, cfgs, "C driver: the capi script replayed concurrently by %d threads, per-thread output must equal the single-threaded expected output (dev and release libkodama.a)" % t)
