"""Claim texts for MANIFEST.json (level_claimed.text / level_note / technique)."""
COQ = "machine-checked proof in Coq 8.16.1 about a hand-written Gallina model; model tied to /repo by bit-exact correspondence (Rust harness vs vm_compute) on every run"

NOT_CLAIMED = {}

CLAIMS = {
    "C13": dict(
        technique="Coq proof (shape_check_sound, malformed_rejected) + bit-exact model/code correspondence on malformed shapes in dev and release profiles",
        text="Theorems (Props/C13.v, closed under the global context): for every n < 2^32, every len, both build profiles (checked and wrapping 64-bit arithmetic) the shape check accepts iff len = n(n-1)/2 with the empty matrix for n <= 1, and every one of the 10 entry points (any method, any float type, ANY prior scratch state) panics on a malformed shape before producing a dendrogram. The model is tied to the code by the shape correspondence stream (both profiles, extreme n included) and an exhaustive (len, n) sweep of the real entry points searches for a failing input.",
        note="Hypothesis n < 2^32 stated in the theorem (beyond it the release-mode product wraps; such n cannot be allocated here). Trusted: Coq kernel, hand model + correspondence harness, std Vec/panic semantics. Print Assumptions: closed.",
    ),
}
