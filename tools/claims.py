"""Claim texts for MANIFEST.json (level_claimed.text / level_note / technique)."""
COQ = "machine-checked proof in Coq 8.16.1 about a hand-written Gallina model; model tied to /repo by bit-exact correspondence (Rust harness vs vm_compute) on every run"

NOT_CLAIMED = {}

CLAIMS = {
    "C18": dict(
        technique="Coq proof of the tool's logic (pair enumeration = library layout, LE codec round trip, method-name parser) + translator for the name tables + differential runs of the real binary over thread counts",
        text="Theorems (Props/C18.v, closed): the flat_map pair enumeration equals the row-major enumeration of C07 for every n (so entry cidx(i,j) is the distance of records i,j); encode/decode of little-endian 64-bit words round-trips for every list and ragged files are rejected; a method name is accepted iff it is one of the seven names and then denotes that method, anything else gives exit status 1. PARTIAL: Haversine (libm), CSV parsing and the thread schedule of rayon's indexed collect are outside any Gallina model; they are covered by running the real binary on generated CSVs (0..70/300 records, duplicates, poles/antimeridian, shipped files) x 7 methods x RAYON_NUM_THREADS in {1,2,3,7,16}: stdout steps vs sequential Haversine + linkage bit for bit, saved matrix byte-identical, load reproduces stdout, invalid names rejected.",
        note="rayon's ordering contract and libm are trusted/tested, not proved. The name tables (FromStr) are regenerated from src/lib.rs each run (Gen/Tables.v). Print Assumptions: closed.",
    ),
    "C15": dict(
        technique="Coq proof (capi_len_ok in checked and wrapping arithmetic, capi_steps; the pre-fix defect as capi_len_unfixed_refuted) + three-way correspondence: C driver on libkodama.a (dev and release) vs Rust linkage vs model",
        text="Theorems (Props/C15.v, closed): after the fix the length expression equals n(n-1)/2 in both build profiles for every n<2^32 including 0 and 1 (the shipped expression is refuted for n=0 in the dev profile: the defect repaired by the fix: commit); for both entry points the handle holds exactly the steps of linkage (dissimilarity widened exactly), the n passed in, and aborts iff linkage panics. Tie: client histories (n 0..22, all 7 enumerators by header name, tied/tie-free, double and float) replayed through the real staticlib in dev AND release profiles, compared bit for bit with the Rust linkage and with the model.",
        note="The ABI crossing (calling convention, layout) is tested, not proved. Defect found and fixed: observations=0 aborted in dev-profile builds (known_findings.txt, fixed entry). Print Assumptions: closed.",
    ),
    "C16": dict(
        technique="Coq proof that the handle store refines a map over all client histories (handle_stable, free_all_empty) + AddressSanitizer/LeakSanitizer replay of random histories on 1..16 threads",
        text="Theorems (Props/C16.v, closed): over all histories of create/read/scribble-input/free, a handle keeps exactly the steps computed at its creation until it is freed, whatever happens to input buffers or other handles, and freeing all handles leaves nothing. PARTIAL: memory safety, leaks and races are runtime behaviour no Gallina model exhibits; they are covered by replaying the same histories against libkodama.a (dev and release) under ASan+LSan, single- and multi-threaded, with inputs overwritten and freed early, failing on any sanitizer report or differing read.",
        note="Proof covers the logic only; the runtime half of the property is exploration under sanitizers. Print Assumptions: closed.",
    ),
    "C17": dict(
        technique="translator (regenerates the ABI facts from the 4 source files each run) + Coq decision over the finite domain (enum_agree, struct_agree, proto_agree) + C driver compiled against both headers",
        text="Theorems (Props/C17.v, closed; finite domain stated: 7 methods, 4 fields, 6 functions, 2 headers, Rust, Go): the enumerator order/names, into_method, Go iota block and enum() switch denote the same method at every layer; kodama_step has the same field order, names and C-equivalent types everywhere and the Go conversion reads like-named fields; the six prototypes agree (the only difference, *const vs non-const return of kodama_dendrogram_steps, is ABI-neutral and whitelisted by name); Go's expectedLen is n(n-1)/2. The facts are regenerated from /repo on every run and Coq re-checks gen_abi = model_abi. Semantic backing: the C driver, compiled against each header, selects methods by NAME and must reproduce the Rust results; sizeof/offsetof are probed.",
        note="Go is covered at the text level only (no Go toolchain in the sandbox). Parsers fail closed. Print Assumptions: closed.",
    ),
    "C07": dict(
        technique="Coq proof (cidx_is_position: index expression = position in the row-major pair enumeration, bijection, no 64-bit wrap) + bit-exact correspondence incl. the mutated matrix slot by slot + slot-probe search",
        text="Theorems (Props/C07.v, closed): for every n and r<c<n the expression ((2n-r-3)r/2)+c-1 is the position of (r,c) in (0,1),(0,2),...,(n-2,n-1); it is injective and onto [0,n(n-1)/2); its 64-bit wrapping evaluation equals the mathematical value for n<2^32, so checked and release builds address the same slot without panic. The observable consequence (first step = unique smallest slot's pair, second single-linkage step = second smallest) is searched on the real entry points for n up to thousands (slot_probe); the model's use of the index is tied to the code by the bit-exact algo/hist correspondence, which compares the caller's matrix after the call slot by slot.",
        note="The 'first step merges that pair' consequence is proved only through the index theorem plus correspondence, not as a theorem about every algorithm. Print Assumptions: closed.",
    ),
    "C08": dict(
        technique="Coq proof (reset_canonical for arbitrary states, with_pure, history_pure by induction over call lists) + bit-exact correspondence on reuse histories + fresh-vs-reused and 16-thread search",
        text="Theorems (Props/C08.v, closed): LinkageState::reset produces the same state from ANY prior state (vectors of any length/content, modelling stale data and half-finished panicked calls; the resize-without-clear resets of Active, LinkageHeap and LinkageUnionFind are modelled as such and proved to overwrite every cell); hence each of the five _with entry points, for every method/float type/profile/input, yields the same outcome from any two states, and by induction every call of every finite history equals the call on fresh objects. Tie: correspondence on histories of 2-10 calls (sizes growing/shrinking/0/1, malformed and NaN-panicking calls interleaved).",
        note="Threads: the model is a pure function, so 'concurrent calls do not influence each other' is not a theorem; it is covered only by the oracle's concurrent differential run (partial). Print Assumptions: closed.",
    ),
    "C19": dict(
        technique="Coq proof over all operation sequences of the container API (push capacity, reset, label order, cluster_size, eq_with_epsilon characterisation) + bit-exact correspondence on random op sequences against the public API",
        text="Theorems (Props/C19.v, closed): push succeeds iff len < n-1 (saturating), so exactly n-1 pushes are accepted after new/reset and the next panics (immediately for n<=1); reset empties and sets n; Step::new/set_clusters store min/max of the labels; cluster_size is 1 below n, else the recorded size of step label-n (index panic otherwise); eq_with_epsilon is true iff lengths agree and every step pair has identical labels/size and dissimilarities that are == or whose rounded difference is not > eps; the capacity invariant holds after ANY op sequence. Tie: 800+ random op sequences over two dendrograms (f32/f64) compared bit for bit with the model.",
        note="'cluster_size = number of observations beneath the label for dendrograms returned by clustering' depends on C01 well-formedness and is checked by the C01 oracle, not proved here. eq_with_epsilon uses the float reading of 'differ by at most eps'. Print Assumptions: closed.",
    ),
    "C13": dict(
        technique="Coq proof (shape_check_sound, malformed_rejected) + bit-exact model/code correspondence on malformed shapes in dev and release profiles",
        text="Theorems (Props/C13.v, closed under the global context): for every n < 2^32, every len, both build profiles (checked and wrapping 64-bit arithmetic) the shape check accepts iff len = n(n-1)/2 with the empty matrix for n <= 1, and every one of the 10 entry points (any method, any float type, ANY prior scratch state) panics on a malformed shape before producing a dendrogram. The model is tied to the code by the shape correspondence stream (both profiles, extreme n included) and an exhaustive (len, n) sweep of the real entry points searches for a failing input.",
        note="Hypothesis n < 2^32 stated in the theorem (beyond it the release-mode product wraps; such n cannot be allocated here). Trusted: Coq kernel, hand model + correspondence harness, std Vec/panic semantics. Print Assumptions: closed.",
    ),
}
