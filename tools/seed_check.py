#!/usr/bin/env python3
"""seed_check.py <seed_dir_name>:<prop>[,<prop>...] ...
Apply a seeded change to /repo, run the given checks, undo. Writes build/seed_results.jsonl"""
import json, os, subprocess, sys, time
V = os.path.dirname(os.path.dirname(os.path.abspath(__file__)))
out = open(os.path.join(V, "build", "seed_results.jsonl"), "a")
for spec in sys.argv[1:]:
    sid, props = spec.split(":")
    patch = os.path.join(V, "seeded", sid, "patch.diff")
    subprocess.run(["git", "-C", "/repo", "checkout", "--", "."], check=True)
    subprocess.run(["git", "-C", "/repo", "apply", patch], check=True)
    try:
        for pid in props.split(","):
            t = time.time()
            p = subprocess.run(["python3", os.path.join(V, "tools", "check.py"), pid], cwd=V, stdout=subprocess.PIPE, stderr=subprocess.STDOUT)
            txt = p.stdout.decode()
            vio = [l for l in txt.splitlines() if l.startswith("VIOLATION")]
            rec = {"seed": sid, "check": pid, "rc": p.returncode, "violation": vio[:1], "wall_s": round(time.time() - t, 1)}
            if vio:
                rp = vio[0].split("replay=")[1].split()[0]
                try:
                    rec["replay_head"] = open(rp).read()[:600]
                except Exception:
                    pass
            print(json.dumps(rec)[:900], flush=True)
            out.write(json.dumps(rec) + "\n"); out.flush()
    finally:
        subprocess.run(["git", "-C", "/repo", "checkout", "--", "."], check=True)
        subprocess.run(["git", "-C", "/repo", "clean", "-fdq", "-e", "target"], check=True)
# evidence files were overwritten by runs on a mutated tree: remind to re-run on the clean tree
print("NOTE: re-run the checks on the unchanged tree before committing evidence")
