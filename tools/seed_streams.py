#!/usr/bin/env python3
"""Apply each seeded patch to /repo, run the correspondence streams, undo. (development aid)"""
import json, os, subprocess, sys
sys.path.insert(0, os.path.dirname(os.path.abspath(__file__)))
import kv
ids = sys.argv[1:]
for sid in ids:
    patch = os.path.join(kv.VERIF, "seeded", sid, "patch.diff")
    subprocess.run(["git", "-C", "/repo", "checkout", "--", "."], check=True)
    subprocess.run(["git", "-C", "/repo", "apply", patch], check=True)
    try:
        line = [sid]
        for stream, profs in (("algo", ["debug"]), ("hist", ["debug"]), ("shape", ["debug", "release"])):
            r = kv.run_stream(stream, profs, 1, "quick")
            line.append("%s: ok=%s dis=%d %s" % (stream, r["ok"], len(r["disagreements"]), (r.get("build_error") or "")[:200]))
        print(" | ".join(line), flush=True)
    finally:
        subprocess.run(["git", "-C", "/repo", "checkout", "--", "."], check=True)
        subprocess.run(["git", "-C", "/repo", "clean", "-fdq", "-e", "target"], check=True)
