#!/usr/bin/env python3
"""Regenerate MANIFEST.json from tools/props.py (claims) and tools/claims.py (texts)."""
import json
import os
import sys
sys.path.insert(0, os.path.dirname(os.path.abspath(__file__)))
import props
import claims

ALL = ["C%02d" % i for i in range(1, 21)]
checks = []
for pid in ALL:
    if pid not in props.PROPS:
        continue
    c = claims.CLAIMS[pid]
    checks.append({
        "property_id": pid,
        "quick_cmd": "python3 tools/check.py %s --tier quick" % pid,
        "thorough_cmd": "python3 tools/check.py %s --tier thorough" % pid,
        "evidence_file": "/verif/evidence/%s.json" % pid,
        "replay_cmd_template": "python3 tools/check.py %s --replay {path}" % pid,
        "engine": "coq+corr",
        "level_claimed": {"category": "proof", "text": c["text"], "design_ref": c.get("design_ref", "DESIGN.md section 6")},
        "level_note": c["note"],
        "technique": c["technique"],
    })
na = [{"property_id": pid, "reason": claims.NOT_CLAIMED.get(pid, "check under construction in this round; not yet claimed")}
      for pid in ALL if pid not in props.PROPS]
man = {
    "version": 1,
    "setup_cmd": "python3 tools/setup.py",
    "hooks": {
        "guard": "kodama_verif",
        "enable": "RUSTFLAGS=\"--cfg kodama_verif\"; the harness crate /verif/harness depends on /repo by path and is built with this flag by tools/kv.py",
        "baseline_off_cmd": "cd /repo && cargo test --workspace --no-fail-fast --offline",
        "source_commits": ["e5fe017"],
        "add_only": True,
    },
    "engines": [
        {"name": "coq", "path": "coq/", "serves_properties": [c["property_id"] for c in checks],
         "kind_free_text": "Coq 8.16.1 development: hand-written Gallina model (coq/Model), proofs (coq/Proofs), pinned property theorems (coq/Props)"},
        {"name": "corr", "path": "harness/ tools/kv.py coq/Run", "serves_properties": [c["property_id"] for c in checks],
         "kind_free_text": "bit-exact correspondence check: Rust harness runs the real entry points, coqc evaluates the model on the same cases (vm_compute)"},
        {"name": "oracle", "path": "harness/src/oracle.rs", "serves_properties": [c["property_id"] for c in checks],
         "kind_free_text": "independent executable statements of the properties, used only to search for failing inputs"},
    ],
    "checks": checks,
    "notes": "See DESIGN.md. Known findings file: known_findings.txt. Fixed defects: C15 (commit ffeac80 in /repo: C API aborted on observations=0 in dev builds) and C04/C10 (commit 26f6ac5: generic never returned on finite input containing max_value()). One recorded, unrepaired finding: C12 at the edge of its domain (entries next to sqrt(MAX) with Ward/centroid/median); the C12 check prints KNOWN-FINDING for it and exits 0.",
    "not_applicable": na,
}
json.dump(man, open(os.path.join(os.path.dirname(os.path.dirname(os.path.abspath(__file__))), "MANIFEST.json"), "w"), indent=1)
print("claimed:", [c["property_id"] for c in checks])
