"""Per-property configuration: which obligations, translators, correspondence
streams and oracles decide each property."""
import json
import os
import re

import kv

TRUSTED_BASE = [
    "Coq 8.16.1 kernel (coqc; vm_compute used for evaluation and reflexivity-style lemmas; no native_compute)",
    "hand-written Gallina model of the Rust code (coq/Model), tied to /repo by the bit-exact correspondence check (kvh harness + coqc evaluation) on every run",
    "correspondence harness: harness/src (Rust), tools/kv.py (diff), coq/Run (float bit conversion, rendering)",
    "Rust f32/f64 arithmetic is IEEE-754 round-to-nearest-even without FMA contraction; Vec/slice semantics of std",
]

COMMON_ASSUMPTIONS = [
    "theorems are about the model; model<->code fidelity is established by differential testing, not proof",
    "no Axiom/Parameter/Admitted in the development (scanned on every run); Print Assumptions allowlist enforced",
]

DEFAULT_RULE = ("cases derive from one PRNG (VERIF_SEED); distinct = distinct hash of (entry, method, width, n, "
                "matrix bits / call history); non-trivial = n >= 3 and the call returned (for histories: sizes "
                "changed and >= 2 calls produced >= 2 steps; for shapes: malformed)")

ALGO = ("algo", ["debug"])
HIST = ("hist", ["debug"])
SHAPE = ("shape", ["debug", "release"])

DEND = ("dend", ["debug", "release"])

ALGO2 = ("algo", ["debug", "release"])
# operation sequences on the internal components (Active, LinkageUnionFind, LinkageHeap)
COMP = ("comp", ["debug", "release"])

PROPS = {
    "C01": dict(streams=[ALGO, HIST, COMP], oracles=[dict(name="wf", profiles=["debug"])],
                assumptions=["generic with arithmetic methods: well-formedness theorem has the no-overflow closure of the update formula as a hypothesis; nnchain needs reducibility (proved for single/complete over a strict weak order and for average/weighted/ward over Q)"]),
    "C02": dict(streams=[ALGO, HIST], translators=["formulas"], oracles=[dict(name="criterion", profiles=["debug"])],
                assumptions=["whole-run theorems are about primitive_with and nnchain_with in exact rational arithmetic (single/complete: any strict weak order); generic: exact rationals with an infinite sentinel); the float tolerance is measured by correspondence and oracle"]),
    "C03": dict(streams=[ALGO, HIST, COMP], oracles=[dict(name="greedy", profiles=["debug"])],
                assumptions=["greedy theorems cover primitive (working matrix: any carrier; closed-form criterion: exact arithmetic) and generic (any strict weak order for single/complete; all seven methods over option Q); order laws of `<` are hypotheses that IEEE comparison satisfies on NaN-free values; nnchain and mst are not stepwise greedy"]),
    "C04": dict(streams=[ALGO, HIST], oracles=[dict(name="single_exact", profiles=["debug"])],
                assumptions=["cut theorem and minimum-spanning-tree theorem hold for all five entry points under strict-weak-order hypotheses on the carrier and entries below +infinity; instantiated on binary64 / binary32 for every finite NaN-free input (classical axioms of the stdlib reals via Flocq); minimality is stated order-theoretically (at every threshold at least as many edges <= t as any spanning tree), total weight only over Q"]),
    "C06": dict(streams=[ALGO], translators=["tables"], oracles=[dict(name="agree", profiles=["debug"])],
                assumptions=["agreement theorems need tie-free runs (the minimum of the working matrix attained once per iteration / all live dissimilarities distinct); generic = primitive: any strict weak order; nnchain = primitive: same merge trees and equivalent heights for reducible criteria (single/complete generic, average/weighted/ward over Q); Method::Single: all entry points, ties included (same cuts); final labelled dendrogram of nnchain vs primitive and float arithmetic methods are measured by the oracle"]),
    "C09": dict(streams=[ALGO], translators=["formulas"], oracles=[dict(name="scale", profiles=["debug"])],
                assumptions=["arithmetic methods: scale equivariance is proved for binary floating point with unbounded exponent range (Flocq FLX rounding on the reals, stdlib real-number axioms); with bounded exponents it holds where no overflow / underflow occurs, which the oracle measures"]),
    "C10": dict(streams=[ALGO, HIST], oracles=[dict(name="order", profiles=["debug"])],
                assumptions=["hypotheses of the theorem: g preserves < and == on the matrix values and maps the sentinels to the sentinels"]),
    "C11": dict(streams=[ALGO], oracles=[dict(name="permute", profiles=["debug"])],
                assumptions=["permutation invariance is a theorem for primitive (tie-free runs, any commutative carrier / strict weak order), for generic through primitive_generic_agree, and for Method::Single through every entry point with ties (cuts); nnchain/mst with arithmetic methods and float commutativity instances are measured by the oracle"]),
    "C12": dict(streams=[ALGO2, HIST], oracles=[dict(name="safety", profiles=["debug", "release"])], extras=["overflow_band"],
                assumptions=["totality is a theorem for mst, primitive, nnchain (strict weak order + reducibility) and generic (strict weak order + reflexive == + no-overflow closure); for arithmetic methods on floats those hypotheses and finiteness of outputs are measured, not proved"]),
    "C14": dict(streams=[("cost", ["debug"])], translators=["tables"], oracles=[dict(name="cost", profiles=["debug"])],
                assumptions=["nnchain bound theorem needs a strict weak order and reducibility (single/complete generic; average/weighted/ward over Q); on floats with arithmetic methods the bound is measured (count equality with the model + adversarial search)"]),
    "C07": dict(
        streams=[ALGO, HIST],
        translators=["formulas"],
        oracles=[dict(name="slot_probe", profiles=["debug", "release"])],
        assumptions=["no-wrap theorem hypothesis n < 2^32; first/second-step theorems are for Method::Single (strict weak order, finite entries; float instances through Flocq)"],
    ),
    "C08": dict(
        streams=[HIST, ALGO, COMP],
        oracles=[dict(name="reuse", profiles=["debug", "release"])],
        extras=["capi_threads"],
        assumptions=["thread independence is not expressible in the (pure) model: covered by the 16-thread differential run of the oracle only"],
    ),
    "C19": dict(
        streams=[DEND],
        oracles=[dict(name="container", profiles=["debug", "release"])],
        assumptions=["eq_with_epsilon is characterised with the rounded float subtraction the code performs"],
    ),
    "C15": dict(
        streams=[("capi", ["debug"])],
        extras=["capi_profiles"],
        translators=["abi"],
        assumptions=["theorem hypothesis n < 2^32; the ABI crossing itself (calling convention, struct layout) is exercised by the C driver, not proved"],
    ),
    "C16": dict(
        streams=[("capi", ["debug"])],
        extras=["capi_asan"],
        assumptions=["memory safety, leaks and data races are runtime behaviour outside the Gallina model: covered by the AddressSanitizer/LeakSanitizer multi-threaded replay only (partial)"],
    ),
    "C17": dict(
        streams=[],
        translators=["abi"],
        extras=["capi_headers"],
        assumptions=["the Go toolchain is absent: go-kodama is covered at the text level (translator) and through its header copy compiled into the C driver"],
    ),
    "C18": dict(
        streams=[],
        translators=["tables"],
        extras=["cli_runs"],
        assumptions=["Haversine (libm), CSV parsing (csv/serde) and rayon's order-preserving indexed collect are not modelled; they are exercised by the binary runs only",
                     "the harness recomputes the expected matrix with the same formula text, sequentially"],
    ),
    "C05": dict(
        streams=[ALGO, HIST],
        translators=["tables"],
        oracles=[dict(name="monotone", profiles=["debug"])],
        assumptions=["single/complete/average/weighted: unconditional, any carrier. Ward: over an abstract carrier monotonicity of sqrt is a hypothesis; on binary64/binary32 it is proved (Flocq Bsqrt_correct; stdlib classical-real axioms) and the only hypothesis left is that no returned height is NaN"],
    ),
    "C20": dict(
        streams=[("alloc", ["release"])],
        oracles=[],
        assumptions=["std's RawVec growth policy and the stable sort's scratch policy are MODELLED (read from rust-src); the counting allocator must reproduce the model's allocation sizes exactly",
                     "n <= 250000 in the theorems (beyond it the sort scratch is n - n/2 elements)"],
    ),
    "C13": dict(
        streams=[SHAPE],
        oracles=[dict(name="shape_sweep", profiles=["debug", "release"])],
        assumptions=["theorem hypothesis n < 2^32 (beyond that the release-mode product wraps; such n need >= 32 GiB of scratch and cannot be allocated here)"],
    ),
}


def run_extra(name, seed, tier):
    import extras
    return getattr(extras, name)(seed, tier)


def run_translator(name):
    import translators
    return translators.run(name)


def run_oracle(pid, oc, profile, seed, tier, dis_cases, broken):
    extra = "--oracle %s" % oc["name"]
    if broken:
        extra += " --enlarge 1"
    if dis_cases:
        # hand the disagreeing cases to the oracle first
        path = os.path.join(kv.BUILD, "replays", "%s-disagreements.txt" % pid)
        with open(path, "w") as f:
            for stream, d in dis_cases:
                if "case" in d:
                    f.write("%s %s\n" % (stream, d["case"]))
        extra += " --cases %s" % path
    return kv.run_oracle(pid, profile, seed, tier, extra)


def known_findings(pid):
    """finding: property=<id> key=<substring identifying the failing input> <what fails>"""
    out = []
    path = os.path.join(kv.VERIF, "known_findings.txt")
    if not os.path.exists(path):
        return out
    for line in open(path):
        m = re.match(r"^finding:\s+property=(\S+)\s+key=(\S+)\s+(.*)$", line.strip())
        if m and m.group(1) == pid:
            out.append({"key": m.group(2), "what": m.group(3)})
    return out
